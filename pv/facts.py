"""Fact extraction and loading (engine E0 glue).

The facts are produced by /verif/driver (a rustc_private driver) running under
`cargo +nightly check` over /repo's *current working tree*.  They are cached by a
content hash of the tree, so any edit to /repo triggers a new extraction.
"""
import fcntl
import hashlib
import json
import os
import shutil
import subprocess
import sys
import time

VERIF = os.path.dirname(os.path.dirname(os.path.abspath(__file__)))
REPO = os.environ.get("PALLAS_REPO", "/repo")
CACHE = os.path.join(VERIF, ".cache")
DRIVER_DIR = os.path.join(VERIF, "driver")
DRIVER_BIN = os.path.join(DRIVER_DIR, "target", "release", "pallas-facts-driver")

CONFIGS = {
    "default": ["--workspace", "--lib"],
    "kes": ["-p", "pallas-crypto", "--lib", "--features", "kes"],
    "phase2": ["-p", "pallas-validate", "--lib", "--features", "phase2"],
    "bigint": ["-p", "pallas-codec", "--lib", "--features", "num-bigint"],
}
EXPECTED_CRATES = {
    "default": ["pallas_codec", "pallas_crypto", "pallas_addresses", "pallas_primitives",
                "pallas_traverse", "pallas_network", "pallas_network2", "pallas_configs",
                "pallas_txbuilder", "pallas_utxorpc", "pallas_hardano", "pallas_math",
                "pallas_validate"],
    "kes": ["pallas_crypto"],
    "phase2": ["pallas_validate"],
    "bigint": ["pallas_codec"],
}
SKIP_DIRS = {"target", ".git", "test_data", "cardano-blueprint", "assets", "node_modules"}


def _iter_source_files(root):
    for d, dirs, files in os.walk(root):
        dirs[:] = sorted(x for x in dirs if x not in SKIP_DIRS)
        for f in sorted(files):
            if f.endswith(".rs") or f in ("Cargo.toml", "Cargo.lock", "build.rs"):
                yield os.path.join(d, f)


def tree_hash():
    h = hashlib.sha256()
    for p in _iter_source_files(REPO):
        h.update(os.path.relpath(p, REPO).encode())
        h.update(b"\0")
        with open(p, "rb") as fh:
            h.update(hashlib.sha256(fh.read()).digest())
    # the driver is part of the key: a changed extractor invalidates old facts
    for p in sorted(os.listdir(os.path.join(DRIVER_DIR, "src"))):
        with open(os.path.join(DRIVER_DIR, "src", p), "rb") as fh:
            h.update(hashlib.sha256(fh.read()).digest())
    return h.hexdigest()[:20]


def sysroot_lib():
    out = subprocess.run(["rustc", "+nightly", "--print", "sysroot"], capture_output=True, text=True, check=True)
    return os.path.join(out.stdout.strip(), "lib")


def build_driver():
    if os.path.exists(DRIVER_BIN):
        src_m = max(os.path.getmtime(os.path.join(DRIVER_DIR, "src", p)) for p in os.listdir(os.path.join(DRIVER_DIR, "src")))
        if os.path.getmtime(DRIVER_BIN) >= src_m:
            return
    env = dict(os.environ, CARGO_NET_OFFLINE="true")
    env.pop("RUSTC_WORKSPACE_WRAPPER", None)
    env.pop("RUSTFLAGS", None)
    r = subprocess.run(["cargo", "+nightly", "build", "--release", "--offline"], cwd=DRIVER_DIR, env=env,
                       capture_output=True, text=True)
    if r.returncode != 0:
        sys.stderr.write(r.stdout + r.stderr)
        raise SystemExit("driver build failed")


def _purge_member_fingerprints(target):
    fp = os.path.join(target, "debug", ".fingerprint")
    if not os.path.isdir(fp):
        return
    members = _workspace_member_names()
    for d in os.listdir(fp):
        base = d.rsplit("-", 1)[0]
        if base in members:
            shutil.rmtree(os.path.join(fp, d), ignore_errors=True)


def _workspace_member_names():
    names = set()
    for d, dirs, files in os.walk(REPO):
        dirs[:] = [x for x in dirs if x not in SKIP_DIRS]
        if "Cargo.toml" in files:
            try:
                txt = open(os.path.join(d, "Cargo.toml")).read()
            except OSError:
                continue
            in_pkg = False
            for line in txt.splitlines():
                s = line.strip()
                if s.startswith("["):
                    in_pkg = s == "[package]"
                elif in_pkg and s.startswith("name") and "=" in s:
                    names.add(s.split("=", 1)[1].strip().strip('"'))
                    break
    return names


def facts_dir(config="default", quiet=False):
    """Return the directory with facts for the current /repo tree, extracting if needed."""
    os.makedirs(CACHE, exist_ok=True)
    th = tree_hash()
    out = os.path.join(CACHE, "facts", th, config)
    marker = os.path.join(out, ".complete")
    if os.path.exists(marker):
        try:
            os.utime(os.path.dirname(out))     # least-recently-USED eviction in _gc_old
        except OSError:
            pass
        return out
    # one lock per (tree, config) so that two checks of the same tree share one extraction, and a small pool of cargo target
    # directories (each with its own lock) so that different trees — /repo and scratch copies carrying variants — extract in
    # parallel instead of queueing behind one global lock
    tree_lock = os.path.join(CACHE, "extract-%s-%s.lock" % (th, config))
    with open(tree_lock, "w") as tlk:
        fcntl.flock(tlk, fcntl.LOCK_EX)
        if os.path.exists(marker):
            return out
        build_driver()
        slots = int(os.environ.get("VERIF_EXTRACT_SLOTS", "4"))
        lk = None
        while lk is None:
            for k in range(slots):
                cand = open(os.path.join(CACHE, "extract-slot-%d.lock" % k), "w")
                try:
                    fcntl.flock(cand, fcntl.LOCK_EX | fcntl.LOCK_NB)
                    lk = cand
                    slot = k
                    break
                except OSError:
                    cand.close()
            if lk is None:
                time.sleep(1.0)
        if os.path.isdir(out):
            shutil.rmtree(out)
        os.makedirs(out)
        target = os.path.join(CACHE, "target" if slot == 0 else "target-%d" % slot)
        os.makedirs(target, exist_ok=True)
        _purge_member_fingerprints(target)
        env = dict(os.environ)
        env.update({
            "LD_LIBRARY_PATH": sysroot_lib() + ":" + env.get("LD_LIBRARY_PATH", ""),
            "RUSTFLAGS": "-Zmir-opt-level=0 -Awarnings",
            "RUSTC_WORKSPACE_WRAPPER": DRIVER_BIN,
            "PALLAS_FACTS_DIR": out,
            "CARGO_TARGET_DIR": target,
            "CARGO_NET_OFFLINE": "true",
            "CARGO_INCREMENTAL": "0",
        })
        t0 = time.time()
        cmd = ["cargo", "+nightly", "check", "--offline"] + CONFIGS[config]
        r = subprocess.run(cmd, cwd=REPO, env=env, capture_output=True, text=True)
        if r.returncode != 0:
            sys.stderr.write(r.stderr[-6000:])
            raise SystemExit("fact extraction failed (cargo check exit %d) for config %s" % (r.returncode, config))
        missing = [c for c in EXPECTED_CRATES[config]
                   if not os.path.exists(os.path.join(out, c + ".json")) or os.path.getsize(os.path.join(out, c + ".json")) < 100]
        if missing:
            sys.stderr.write(r.stderr[-3000:])
            raise SystemExit("fact extraction produced no facts for: %s (config %s)" % (missing, config))
        with open(marker, "w") as fh:
            fh.write("%.1f\n" % (time.time() - t0))
        if not quiet:
            print("[facts] extracted config=%s tree=%s in %.1fs" % (config, th, time.time() - t0))
        _gc_old(th)
        lk.close()
        try:
            os.remove(tree_lock)
        except OSError:
            pass
    return out


def _gc_old(keep):
    base = os.path.join(CACHE, "facts")
    ents = [(os.path.getmtime(os.path.join(base, d)), d) for d in os.listdir(base) if d != keep]
    ents.sort(reverse=True)
    for _, d in ents[int(os.environ.get('VERIF_FACTS_KEEP', '24')):]:
        shutil.rmtree(os.path.join(base, d), ignore_errors=True)


_loaded = {}


def load_crate(crate, config="default"):
    key = (crate, config)
    if key in _loaded:
        return _loaded[key]
    d = facts_dir(config)
    p = os.path.join(d, crate + ".json")
    if not os.path.exists(p):
        raise SystemExit("facts missing for crate %s (config %s)" % (crate, config))
    import gc
    gc.disable()
    try:
        with open(p) as fh:
            data = json.load(fh)
    finally:
        gc.enable()
    _loaded[key] = data
    return data


_loaded_hir = {}


def load_hir(crate, config="default"):
    """path -> HIR tree for every fn of the crate (duplicate paths: list order kept by #n suffix)."""
    key = (crate, config)
    if key in _loaded_hir:
        return _loaded_hir[key]
    d = facts_dir(config)
    p = os.path.join(d, crate + ".hir.json")
    import gc
    gc.disable()
    try:
        with open(p) as fh:
            lst = json.load(fh)
    finally:
        gc.enable()
    out = {}
    for path, h in lst:
        k = path
        n = 2
        while k in out:
            k = "%s#%d" % (path, n)
            n += 1
        out[k] = h
    _loaded_hir[key] = out
    return out
