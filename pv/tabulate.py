"""Engine E2: finite-domain partial evaluation of MIR ("tables written as code").

`paths(fn)` enumerates the acyclic CFG paths of a function with a path-sensitive symbolic environment.
Switches whose operand is determined by the environment are followed on the matching edge only; on
undetermined switches the evaluator forks and records the constraint.  Nothing is executed: values
are symbolic expressions over parameters, and only discriminants / constants are ever compared.
"""
import re

from .mir import pl_local, pl_proj, op_place, sym_str, _INT_RANGE
from .panic import strip_generics


class Path:
    __slots__ = ("conds", "calls", "writes", "ret", "blocks", "end", "env")

    def __init__(self):
        self.conds = []    # (sym, ("eq", v) | ("ne", [v...]), adt-type-or-None)
        self.calls = []    # (callee, [arg syms], bb, dest sym placeholder)
        self.writes = []   # (place sym, value sym)
        self.ret = None
        self.blocks = []
        self.end = None    # "return" | "diverge" | "loop"


class BudgetExceeded(Exception):
    pass


class Tabulator:
    def __init__(self, fn, prog=None, max_paths=4096, inline=None, opaque_calls=True):
        self.fn = fn
        self.prog = prog
        self.max_paths = max_paths
        self.out = []
        self.inline = inline  # optional callable(callee_path) -> Fn to splice tiny accessors

    # -- symbolic evaluation under an environment
    def ev_operand(self, env, o):
        c = o.get("k")
        if c is not None:
            if "v" in c:
                return ("const", c["v"], c["ty"])
            if "fn" in c:
                return ("fnconst", c["fn"])
            return ("constsym", c.get("sym"), c["ty"])
        p = op_place(o)
        return self.ev_place(env, p)

    def ev_place(self, env, p):
        l = pl_local(p)
        base = env.get(l)
        if base is None:
            if 1 <= l <= self.fn.argc:
                base = ("param", l, self.fn.local_name(l))
            else:
                base = ("local", l, self.fn.local_name(l))
        for e in pl_proj(p):
            k = e[0]
            if k == "deref":
                base = base[1] if base[0] == "ref" else ("deref", base)
            elif k == "field":
                if base[0] == "agg" and base[3] is not None and e[1] < len(base[3]):
                    base = base[3][e[1]]
                elif base[0] == "downcast" and base[1][0] == "agg" and e[1] < len(base[1][3]):
                    base = base[1][3][e[1]]
                else:
                    base = ("field", base, e[2] if e[2] is not None else e[1])
            elif k == "downcast":
                base = ("downcast", base, e[2] if e[2] is not None else e[1])
            elif k == "index":
                base = ("index", base, env.get(e[1], ("local", e[1], None)))
            elif k == "cindex":
                base = ("cindex", base, e[1], e[3])
            elif k == "subslice":
                base = ("subslice", base, e[1], e[2], e[3])
            else:
                base = (k, base)
        return base

    def ev_rvalue(self, env, rv):
        k = rv["k"]
        if k == "use":
            return self.ev_operand(env, rv["x"])
        if k in ("ref", "rawptr"):
            return ("ref", self.ev_place(env, rv["p"]))
        if k == "cast":
            inner = self.ev_operand(env, rv["x"])
            if inner[0] == "const" and rv["ck"] == "IntToInt" and rv["to"] in _INT_RANGE:
                return ("const", inner[1], rv["to"])
            return ("cast", inner, rv["from"], rv["to"], rv["ck"])
        if k == "bin":
            l, r = self.ev_operand(env, rv["l"]), self.ev_operand(env, rv["r"])
            if l[0] == "const" and r[0] == "const":
                v = _fold(rv["op"], l[1], r[1])
                if v is not None:
                    return ("const", v, "bool" if isinstance(v, bool) else l[2])
            return ("bin", rv["op"], l, r)
        if k == "un":
            x = self.ev_operand(env, rv["x"])
            if rv["op"] == "Not" and x[0] == "const" and x[2] == "bool":
                return ("const", 0 if int(x[1]) else 1, "bool")
            return ("un", rv["op"], x)
        if k == "discr":
            p = self.ev_place(env, rv["p"])
            if p[0] == "agg" and isinstance(p[2], str):
                # discriminant of a freshly built aggregate: known variant
                return ("variant", p[1], p[2])
            return ("discr", p, rv.get("pty"))
        if k == "agg":
            fields = tuple(self.ev_operand(env, f) for f in rv["fields"])
            if rv["ak"] == "adt":
                return ("agg", rv["adt"], rv["variant"], fields)
            return ("agg", rv["ak"], rv.get("def"), fields)
        if k == "repeat":
            return ("repeat", self.ev_operand(env, rv["x"]), rv["n"])
        return ("other", rv.get("s", k))

    # -- path enumeration
    def run(self):
        p = Path()
        self._walk(0, {}, {}, p, set())
        return self.out

    def _variant_index(self, adt_path, vname):
        if self.prog is None:
            return None
        a = self.prog.adt(strip_adt(adt_path))
        if a is None:
            return _std_variant_index(adt_path, vname)
        for v in a["variants"]:
            if v["name"] == vname:
                return v["idx"]
        return None

    def _walk(self, bb, env, known, path, onpath):
        if len(self.out) >= self.max_paths:
            raise BudgetExceeded("%s: more than %d paths" % (self.fn.path, self.max_paths))
        if bb in onpath:
            q = _copy(path)
            q.end = "loop"
            q.blocks.append(bb)
            self.out.append(q)
            return
        onpath = onpath | {bb}
        path.blocks.append(bb)
        b = self.fn.blocks[bb]
        for s in b["st"]:
            if s[0] == "a":
                val = self.ev_rvalue(env, s[2])
                pl = s[1]
                if isinstance(pl, int):
                    env[pl] = val
                else:
                    path.writes.append((self.ev_place(env, pl), val))
                    # a write through a local's projection invalidates its symbolic value only if we tracked an aggregate
                    l = pl_local(pl)
                    if l in env and not any(e[0] == "deref" for e in pl_proj(pl)):
                        env.pop(l, None)
            elif s[0] == "setdiscr":
                path.writes.append((self.ev_place(env, s[1]), ("setdiscr", s[2])))
        t = b["term"]
        k = t["k"]
        if k == "goto" or k == "drop" or k == "assert" or k == "yield":
            return self._walk(t["t"], env, known, path, onpath)
        if k == "return":
            q = _copy(path)
            q.ret = env.get(0, ("local", 0, None))
            q.end = "return"
            q.env = dict(env)
            self.out.append(q)
            return
        if k in ("unreachable", "resume", "terminate", "coroutine_drop", "asm", "tailcall"):
            q = _copy(path)
            q.end = "diverge"
            self.out.append(q)
            return
        if k == "call":
            callee = t.get("f") or t.get("g") or "<indirect>"
            args = [self.ev_operand(env, a) for a in t["args"]]
            val = ("call", callee, tuple(args), bb)
            path.calls.append((callee, args, bb))
            d = t["dest"]
            if isinstance(d, int):
                env[d] = val
            else:
                path.writes.append((self.ev_place(env, d), val))
            if t.get("t") is None:
                q = _copy(path)
                q.end = "diverge"
                self.out.append(q)
                return
            return self._walk(t["t"], env, known, path, onpath)
        if k == "switch":
            d = self.ev_operand(env, t["d"])
            targets = t["ts"]
            other = t["o"]
            # determined?
            val = None
            if d[0] == "const":
                try:
                    val = int(d[1])
                except (TypeError, ValueError):
                    val = None
            elif d[0] == "variant":
                val = self._variant_index(d[1], d[2])
            if val is not None:
                for v, tg in targets:
                    if int(v) == val:
                        return self._walk(tg, env, known, path, onpath)
                return self._walk(other, env, known, path, onpath)
            key = d
            kn = known.get(key)
            listed = [int(v) for v, _ in targets]
            # fork
            for v, tg in targets:
                v = int(v)
                if kn is not None:
                    if kn[0] == "eq" and kn[1] != v:
                        continue
                    if kn[0] == "ne" and v in kn[1]:
                        continue
                p2 = _copy(path)
                p2.conds.append((d, ("eq", v)))
                k2 = dict(known)
                k2[key] = ("eq", v)
                self._walk(tg, dict(env), k2, p2, onpath)
            # otherwise edge
            feasible = True
            if kn is not None and kn[0] == "eq":
                feasible = kn[1] not in listed
            if feasible and not self._unreachable_block(other):
                p2 = _copy(path)
                excl = sorted(set(listed) | (set(kn[1]) if kn is not None and kn[0] == "ne" else set()))
                if kn is not None and kn[0] == "eq":
                    p2.conds.append((d, ("eq", kn[1])))
                    k2 = dict(known)
                else:
                    p2.conds.append((d, ("ne", excl)))
                    k2 = dict(known)
                    k2[key] = ("ne", excl)
                self._walk(other, dict(env), k2, p2, onpath)
            return
        raise RuntimeError("unknown terminator " + k)

    def _unreachable_block(self, bb):
        b = self.fn.blocks[bb]
        return b["term"]["k"] == "unreachable" and not b["st"]


def _copy(p):
    q = Path()
    q.conds = list(p.conds)
    q.calls = list(p.calls)
    q.writes = list(p.writes)
    q.blocks = list(p.blocks)
    q.ret = p.ret
    q.end = p.end
    return q


def _fold(op, a, b):
    try:
        a, b = int(a), int(b)
    except (TypeError, ValueError):
        return None
    if op == "Eq":
        return 1 if a == b else 0
    if op == "Ne":
        return 1 if a != b else 0
    if op == "Lt":
        return 1 if a < b else 0
    if op == "Le":
        return 1 if a <= b else 0
    if op == "Gt":
        return 1 if a > b else 0
    if op == "Ge":
        return 1 if a >= b else 0
    if op == "BitAnd":
        return a & b
    if op == "BitOr":
        return a | b
    if op == "BitXor":
        return a ^ b
    if op == "Add":
        return a + b
    if op == "Sub":
        return a - b
    if op == "Mul":
        return a * b
    if op == "Shl":
        return a << b if 0 <= b < 128 else None
    if op == "Shr":
        return a >> b if 0 <= b < 128 else None
    return None


def strip_adt(p):
    """`core::option::Option<T>` -> `core::option::Option`; strips refs too."""
    p = p.strip()
    while p.startswith("&"):
        p = re.sub(r"^&('\w+ )?(mut )?", "", p)
    out = []
    depth = 0
    for ch in p:
        if ch == "<":
            depth += 1
        elif ch == ">":
            depth -= 1
        elif depth == 0:
            out.append(ch)
    return "".join(out)


_STD = {
    "core::option::Option": ["None", "Some"],
    "core::result::Result": ["Ok", "Err"],
    "core::cmp::Ordering": None,  # discriminants -1,0,1
    "core::ops::control_flow::ControlFlow": ["Continue", "Break"],
    "core::task::poll::Poll": ["Ready", "Pending"],
}


def _std_variant_index(adt, vname):
    adt = strip_adt(adt)
    if adt == "core::cmp::Ordering":
        return {"Less": -1, "Equal": 0, "Greater": 1}.get(vname)
    vs = _STD.get(adt)
    if vs and vname in vs:
        return vs.index(vname)
    return None


def variant_names(prog, ty):
    """[(idx, name)] of an enum type given its printed type."""
    adt = strip_adt(ty)
    a = prog.adt(adt) if prog is not None else None
    if a is not None:
        return [(v["idx"], v["name"]) for v in a["variants"]]
    if adt == "core::cmp::Ordering":
        return [(-1, "Less"), (0, "Equal"), (1, "Greater")]
    vs = _STD.get(adt)
    if vs:
        return list(enumerate(vs))
    if adt == "bool":
        return [(0, "false"), (1, "true")]
    return None


def cond_variants(prog, cond):
    """Expand one path condition on a discriminant into the set of variant names it admits.
    Returns (subject-string, set-of-names) or None if the subject is not a discriminant/bool."""
    d, c = cond
    if d[0] == "discr":
        names = variant_names(prog, d[2] or "")
        subj = sym_str(d[1], 200)
    elif d[0] in ("call", "local", "param", "field", "deref", "bin", "un") :
        names = [(0, "false"), (1, "true")]
        subj = sym_str(d, 200)
    else:
        return None
    if names is None:
        return None
    if c[0] == "eq":
        s = {n for i, n in names if i == c[1]}
        if not s:
            s = {"#%d" % c[1]}
    else:
        s = {n for i, n in names if i not in c[1]}
    return subj, s


def tabulate(fn, prog, max_paths=4096):
    return Tabulator(fn, prog, max_paths).run()
