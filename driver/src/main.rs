// pallas fact extractor: a rustc_private driver used as RUSTC_WORKSPACE_WRAPPER.
// For every local crate whose name starts with "pallas" it writes
// $PALLAS_FACTS_DIR/<crate>.json with items, MIR bodies and type-resolved HIR trees.
// It never runs pallas code; it only serialises what rustc's front end computed.
#![feature(rustc_private)]
#![allow(clippy::all)]

extern crate rustc_abi;
extern crate rustc_ast;
extern crate rustc_driver;
extern crate rustc_hir;
extern crate rustc_interface;
extern crate rustc_middle;
extern crate rustc_span;

mod hir_dump;
mod json;
mod mir_dump;

use json::J;
use rustc_driver::{Callbacks, Compilation};
use rustc_hir::def::DefKind;
use rustc_hir::def_id::{DefId, LOCAL_CRATE};
use rustc_interface::interface::Compiler;
use rustc_middle::ty::{self, Ty, TyCtxt};
use rustc_span::Span;

#[macro_export]
macro_rules! canon {
    ($e:expr) => {
        rustc_middle::ty::print::with_no_visible_paths!(rustc_middle::ty::print::with_no_trimmed_paths!(
            rustc_middle::ty::print::with_crate_prefix!($e)
        ))
    };
}

pub struct Cx<'tcx> {
    pub tcx: TyCtxt<'tcx>,
    pub krate: String,
}

pub fn fix_crate(s: String, krate: &str) -> String {
    // replace the token `crate` (as a path root) by the crate name
    if !s.contains("crate") {
        return s;
    }
    let b = s.as_bytes();
    let mut out = String::with_capacity(s.len() + 16);
    let mut i = 0;
    while i < b.len() {
        if b[i..].starts_with(b"crate::")
            && (i == 0 || !(b[i - 1].is_ascii_alphanumeric() || b[i - 1] == b'_'))
        {
            out.push_str(krate);
            out.push_str("::");
            i += 7;
        } else {
            // push one UTF-8 char
            let ch_len = match b[i] {
                x if x < 0x80 => 1,
                x if x >> 5 == 0b110 => 2,
                x if x >> 4 == 0b1110 => 3,
                _ => 4,
            };
            out.push_str(&s[i..i + ch_len]);
            i += ch_len;
        }
    }
    out
}

impl<'tcx> Cx<'tcx> {
    pub fn dpath(&self, did: DefId) -> String {
        let s = canon!(self.tcx.def_path_str(did));
        fix_crate(s, &self.krate)
    }
    pub fn dpath_args(&self, did: DefId, args: ty::GenericArgsRef<'tcx>) -> String {
        let s = canon!(self.tcx.def_path_str_with_args(did, args));
        fix_crate(s, &self.krate)
    }
    pub fn ty_s(&self, t: Ty<'tcx>) -> String {
        let s = canon!(format!("{}", t));
        fix_crate(s, &self.krate)
    }
    pub fn line(&self, sp: Span) -> i128 {
        let sm = self.tcx.sess.source_map();
        let sp = sp.source_callsite();
        if sp.is_dummy() {
            return 0;
        }
        sm.lookup_char_pos(sp.lo()).line as i128
    }
    pub fn file(&self, sp: Span) -> String {
        let sm = self.tcx.sess.source_map();
        let sp = sp.source_callsite();
        if sp.is_dummy() {
            return String::new();
        }
        let f = sm.lookup_char_pos(sp.lo()).file;
        format!("{}", f.name.prefer_local_unconditionally())
    }
    /// expansion chain, innermost first: "Bang:matches>Derive:Encode" or None
    pub fn expn(&self, sp: Span) -> Option<String> {
        if !sp.from_expansion() {
            return None;
        }
        let mut parts = vec![];
        let mut cur = sp;
        let mut guard = 0;
        while cur.from_expansion() && guard < 16 {
            let ed = cur.ctxt().outer_expn_data();
            let k = match ed.kind {
                rustc_span::ExpnKind::Macro(mk, name) => format!("{:?}:{}", mk, name),
                rustc_span::ExpnKind::Desugaring(d) => format!("Desugar:{:?}", d),
                rustc_span::ExpnKind::AstPass(p) => format!("AstPass:{:?}", p),
                rustc_span::ExpnKind::Root => "Root".to_string(),
            };
            parts.push(k);
            cur = ed.call_site;
            guard += 1;
        }
        Some(parts.join(">"))
    }
    /// Span annotation: [line, expn-or-null]
    pub fn span_j(&self, sp: Span) -> J {
        J::Arr(vec![J::Int(self.line(sp)), J::opt_s(self.expn(sp))])
    }
}

struct Cb;

impl Callbacks for Cb {
    fn after_analysis<'tcx>(&mut self, _c: &Compiler, tcx: TyCtxt<'tcx>) -> Compilation {
        let krate = tcx.crate_name(LOCAL_CRATE).to_string();
        let dir = match std::env::var("PALLAS_FACTS_DIR") {
            Ok(d) => d,
            Err(_) => return Compilation::Continue,
        };
        if !krate.starts_with("pallas") {
            return Compilation::Continue;
        }
        let cx = Cx { tcx, krate: krate.clone() };
        let mut bodies = vec![];
        let mut hirs = vec![];
        let mut n_fn = 0;
        for ldid in tcx.hir_body_owners() {
            let did = ldid.to_def_id();
            let kind = tcx.def_kind(did);
            if !matches!(
                kind,
                DefKind::Fn | DefKind::AssocFn | DefKind::Closure | DefKind::SyntheticCoroutineBody
            ) {
                continue;
            }
            n_fn += 1;
            bodies.push(dump_body(&cx, ldid, kind));
            if matches!(kind, DefKind::Fn | DefKind::AssocFn) {
                hirs.push(J::Arr(vec![J::s(cx.dpath(did)), hir_dump::dump_hir(&cx, ldid)]));
            }
        }
        let items = dump_items(&cx);
        let root = J::Obj(vec![
            ("crate", J::s(krate.clone())),
            ("n_bodies", J::Int(n_fn)),
            ("items", items),
            ("bodies", J::Arr(bodies)),
        ]);
        let mut out = String::with_capacity(1 << 24);
        root.write(&mut out);
        let path = format!("{}/{}.json", dir, krate);
        let tmp = format!("{}/.{}.json.tmp{}", dir, krate, std::process::id());
        std::fs::write(&tmp, out).expect("write facts");
        std::fs::rename(&tmp, &path).expect("rename facts");
        let mut out = String::with_capacity(1 << 24);
        J::Arr(hirs).write(&mut out);
        let path2 = format!("{}/{}.hir.json", dir, krate);
        let tmp2 = format!("{}/.{}.hir.json.tmp{}", dir, krate, std::process::id());
        std::fs::write(&tmp2, out).expect("write hir facts");
        std::fs::rename(&tmp2, &path2).expect("rename hir facts");
        eprintln!("FACTS crate={} bodies={} -> {}", krate, n_fn, path);
        Compilation::Continue
    }
}

fn dump_body<'tcx>(cx: &Cx<'tcx>, ldid: rustc_hir::def_id::LocalDefId, kind: DefKind) -> J {
    let tcx = cx.tcx;
    let did = ldid.to_def_id();
    let mut o: Vec<(&'static str, J)> = vec![];
    o.push(("path", J::s(cx.dpath(did))));
    o.push(("kind", J::s(format!("{:?}", kind))));
    let sp = tcx.def_span(did);
    o.push(("file", J::s(cx.file(sp))));
    o.push(("line", J::Int(cx.line(sp))));
    o.push(("expn", J::opt_s(cx.expn(sp))));
    o.push(("name", J::opt_s(tcx.opt_item_name(did).map(|s| s.to_string()))));
    o.push(("coroutine", J::Bool(tcx.is_coroutine(did))));
    if matches!(kind, DefKind::Fn | DefKind::AssocFn) {
        o.push(("vis", J::s(format!("{:?}", tcx.visibility(did)))));
        let sig = tcx.fn_sig(did).instantiate_identity().skip_norm_wip();
        o.push(("unsafe", J::Bool(sig.safety().is_unsafe())));
        o.push(("sig", J::s(fix_crate(canon!(format!("{}", sig)), &cx.krate))));
        o.push(("asyncness", J::Bool(tcx.asyncness(did).is_async())));
    }
    if matches!(kind, DefKind::Closure | DefKind::SyntheticCoroutineBody) {
        let root = tcx.typeck_root_def_id(did);
        o.push(("root", J::s(cx.dpath(root))));
        o.push(("parent", J::s(cx.dpath(tcx.parent(did)))));
    }
    if kind == DefKind::AssocFn {
        let parent = tcx.parent(did);
        match tcx.def_kind(parent) {
            DefKind::Impl { of_trait } => {
                let self_ty = tcx.type_of(parent).instantiate_identity().skip_norm_wip();
                o.push(("impl_self", J::s(cx.ty_s(self_ty))));
                if let ty::Adt(adt, _) = self_ty.kind() {
                    o.push(("impl_adt", J::s(cx.dpath(adt.did()))));
                }
                if of_trait {
                    let tr = tcx.impl_trait_ref(parent).instantiate_identity().skip_norm_wip();
                    o.push(("impl_trait", J::s(cx.dpath(tr.def_id))));
                    o.push(("impl_trait_full", J::s(fix_crate(canon!(format!("{}", tr)), &cx.krate))));
                }
                let isp = tcx.def_span(parent);
                o.push(("impl_expn", J::opt_s(cx.expn(isp))));
            }
            DefKind::Trait => {
                o.push(("trait_default", J::s(cx.dpath(parent))));
            }
            _ => {}
        }
    }
    // MIR
    o.push(("mir", mir_dump::dump_mir(cx, did)));
    J::Obj(o)
}

fn dump_items<'tcx>(cx: &Cx<'tcx>) -> J {
    let tcx = cx.tcx;
    let mut adts = vec![];
    let mut consts = vec![];
    let mut impls = vec![];
    for id in tcx.hir_crate_items(()).definitions() {
        let did = id.to_def_id();
        match tcx.def_kind(did) {
            DefKind::Struct | DefKind::Enum | DefKind::Union => {
                let adt = tcx.adt_def(did);
                let mut vars = vec![];
                for (vi, v) in adt.variants().iter_enumerated() {
                    let mut fields = vec![];
                    for f in v.fields.iter() {
                        let fty = tcx.type_of(f.did).instantiate_identity().skip_norm_wip();
                        fields.push(J::Obj(vec![
                            ("name", J::s(f.name.to_string())),
                            ("ty", J::s(cx.ty_s(fty))),
                            ("vis", J::s(format!("{:?}", f.vis))),
                        ]));
                    }
                    vars.push(J::Obj(vec![
                        ("name", J::s(v.name.to_string())),
                        ("idx", J::Int(vi.as_u32() as i128)),
                        ("ctor", J::opt_s(v.ctor_kind().map(|k| format!("{:?}", k)))),
                        ("fields", J::Arr(fields)),
                    ]));
                }
                let sp = tcx.def_span(did);
                adts.push(J::Obj(vec![
                    ("path", J::s(cx.dpath(did))),
                    ("kind", J::s(format!("{:?}", tcx.def_kind(did)))),
                    ("vis", J::s(format!("{:?}", tcx.visibility(did)))),
                    ("file", J::s(cx.file(sp))),
                    ("line", J::Int(cx.line(sp))),
                    ("variants", J::Arr(vars)),
                ]));
            }
            DefKind::Const { .. } | DefKind::AssocConst { .. } | DefKind::Static { .. } => {
                let mut val = J::Null;
                let generics = tcx.generics_of(did);
                if generics.count() == 0 && tcx.def_kind(did) != (DefKind::Static { safety: rustc_hir::Safety::Safe, mutability: rustc_ast::Mutability::Not, nested: false }) {
                    if let Ok(cv) = tcx.const_eval_poly(did) {
                        if let Some(si) = cv.try_to_scalar_int() {
                            let ty = tcx.type_of(did).instantiate_identity().skip_norm_wip();
                            val = scalar_to_j(si, ty);
                        }
                    }
                }
                let ty = tcx.type_of(did).instantiate_identity().skip_norm_wip();
                consts.push(J::Obj(vec![
                    ("path", J::s(cx.dpath(did))),
                    ("ty", J::s(cx.ty_s(ty))),
                    ("val", val),
                    ("line", J::Int(cx.line(tcx.def_span(did)))),
                    ("file", J::s(cx.file(tcx.def_span(did)))),
                ]));
            }
            DefKind::Impl { of_trait } => {
                let self_ty = tcx.type_of(did).instantiate_identity().skip_norm_wip();
                let mut o = vec![
                    ("self", J::s(cx.ty_s(self_ty))),
                    ("line", J::Int(cx.line(tcx.def_span(did)))),
                    ("file", J::s(cx.file(tcx.def_span(did)))),
                    ("expn", J::opt_s(cx.expn(tcx.def_span(did)))),
                ];
                if let ty::Adt(adt, _) = self_ty.kind() {
                    o.push(("adt", J::s(cx.dpath(adt.did()))));
                }
                if of_trait {
                    let tr = tcx.impl_trait_ref(did).instantiate_identity().skip_norm_wip();
                    o.push(("trait", J::s(cx.dpath(tr.def_id))));
                    o.push(("trait_full", J::s(fix_crate(canon!(format!("{}", tr)), &cx.krate))));
                }
                let mut fns = vec![];
                for it in tcx.associated_items(did).in_definition_order() {
                    fns.push(J::s(cx.dpath(it.def_id)));
                }
                o.push(("items", J::Arr(fns)));
                impls.push(J::Obj(o));
            }
            _ => {}
        }
    }
    J::Obj(vec![("adts", J::Arr(adts)), ("consts", J::Arr(consts)), ("impls", J::Arr(impls))])
}

pub fn scalar_to_j<'tcx>(si: ty::ScalarInt, ty: Ty<'tcx>) -> J {
    let size = si.size();
    match ty.kind() {
        ty::Int(_) => J::Int(si.to_int(size)),
        ty::Bool => J::Int(si.to_uint(size) as i128),
        ty::Char => J::Int(si.to_uint(size) as i128),
        ty::Uint(_) => {
            let u = si.to_uint(size);
            if u > i128::MAX as u128 {
                J::Str(u.to_string())
            } else {
                J::Int(u as i128)
            }
        }
        _ => {
            let u = si.to_uint(size);
            if u > i128::MAX as u128 {
                J::Str(u.to_string())
            } else {
                J::Int(u as i128)
            }
        }
    }
}

fn main() {
    let mut args: Vec<String> = std::env::args().collect();
    // As RUSTC_WORKSPACE_WRAPPER: argv[1] is the path of the real rustc.
    if args.len() > 1 && (args[1].ends_with("rustc") || args[1].contains("/rustc")) {
        args.remove(1);
    }
    rustc_driver::run_compiler(&args, &mut Cb);
}
