"""Result collection, evidence writing, known-findings protocol."""
import json
import os
import time

from .facts import VERIF, REPO


def out_dir():
    """Where reports and evidence go.  Runs against /repo write the committed records under /verif;
    runs pointed at a scratch copy (PALLAS_REPO=..., used for seeded mutations) write to
    $VERIF_OUT or <scratch>/.verif-out so they never overwrite the records of the real tree."""
    o = os.environ.get("VERIF_OUT")
    if o:
        return o
    if os.path.realpath(REPO) != "/repo":
        return os.path.join(REPO, ".verif-out")
    return VERIF


class Result:
    def __init__(self, prop, tier, level="other"):
        self.prop = prop
        self.tier = tier
        self.level = level
        self.t0 = time.time()
        self.violations = []      # dicts: key, msg, where
        self.obligations = []     # dicts: key, rule, status, detail
        self.analysed = {}        # counters
        self.samples = []
        self.rules = []
        self.assumptions = []
        self.trusted = []
        self.notes = []
        self.explanation = ""

    # -- recording
    def count(self, name, n=1):
        self.analysed[name] = self.analysed.get(name, 0) + n

    def ok(self, key, rule, detail=None):
        self.obligations.append({"key": key, "rule": rule, "status": "discharged", "detail": detail})

    def violation(self, key, msg, where=None, rule=None):
        """key: stable identifier of the violating construct (no line numbers)."""
        self.violations.append({"key": key, "msg": msg, "where": where, "rule": rule})
        self.obligations.append({"key": key, "rule": rule, "status": "VIOLATED", "detail": msg})

    def floor(self, name, got, minimum):
        """Fail closed if a rule matched fewer instances than were confirmed by hand."""
        self.analysed["floor:" + name] = got
        if got < minimum:
            self.violation("floor:" + name, "anchor lost: rule '%s' matched %d instances, floor is %d "
                           "(the construct the rule is anchored on was renamed or removed; the property cannot be decided)" % (name, got, minimum),
                           rule="floor")
        else:
            self.ok("floor:" + name, "floor", "%d >= %d" % (got, minimum))

    def sample(self, s):
        if len(self.samples) < 40:
            self.samples.append(s)


def load_known():
    p = os.path.join(VERIF, "known_findings.jsonl")
    known = {}
    fixed = []
    if os.path.exists(p):
        for line in open(p):
            line = line.strip()
            if not line or line.startswith("#"):
                continue
            e = json.loads(line)
            if e.get("status") == "fixed":
                fixed.append(e)
            else:
                known.setdefault(e["property"], {})[e["key"]] = e
    return known, fixed


SELFTEST = None     # set by ./check in the thorough tier: results of pv.selftest.run(prop)


def finish(res, explanation, rule_text, trusted_base=None, checker_cmd=None):
    """Print the verdict, write report + evidence, return exit code."""
    if SELFTEST is not None:
        for r in SELFTEST:
            k = "selftest:" + r["variant"]
            if r["outcome"] in ("MISSED", "FALSE-ALARM"):
                res.violation(k, "checker fault (fail closed): the rule %s on the recorded %s variant %s of the current tree — its verdict on /repo cannot be trusted" % (
                    "no longer fires" if r["outcome"] == "MISSED" else "raises a false alarm", r["kind"], r["variant"]), rule="selftest")
            elif r["outcome"] in ("reported", "silent"):
                res.ok(k, "selftest", "%s variant %s" % (r["kind"], r["outcome"]))
            else:
                res.notes.append("selftest %s: %s" % (r["variant"], r["outcome"]))
        res.analysed["selftest_variants_run"] = len([r for r in SELFTEST if r["outcome"] in ("reported", "silent", "MISSED", "FALSE-ALARM")])
    known, _ = load_known()
    kprop = known.get(res.prop, {})
    new = []
    seen_known = []
    for v in res.violations:
        if v["key"] in kprop:
            seen_known.append(v)
        else:
            new.append(v)
    wall = time.time() - res.t0
    rep_path = os.path.join(out_dir(), "reports", res.prop + ".json")
    os.makedirs(os.path.dirname(rep_path), exist_ok=True)
    with open(rep_path, "w") as fh:
        json.dump({
            "property": res.prop, "tier": res.tier,
            "violations": new, "known_findings_seen": seen_known,
            "obligations": res.obligations, "analysed": res.analysed, "notes": res.notes,
        }, fh, indent=1, default=str)
    for k, n in sorted(res.analysed.items()):
        print("[%s] analysed %s = %s" % (res.prop, k, n))
    for n in res.notes:
        print("[%s] note: %s" % (res.prop, n))
    for v in seen_known:
        print("KNOWN-FINDING: property=%s %s — %s" % (res.prop, v["key"], kprop[v["key"]].get("what", v["msg"])))
    for v in new:
        print("[%s] violation: %s: %s%s" % (res.prop, v["key"], v["msg"], (" @ " + v["where"]) if v.get("where") else ""))
    n_obl = len(res.obligations)
    n_dis = sum(1 for o in res.obligations if o["status"] == "discharged")
    distinct = len({o["key"] for o in res.obligations})
    cov = {
        "explanation": explanation,
        "rule": rule_text,
        "obligations": n_obl,
        "discharged": n_dis,
        "known_findings": len(seen_known),
        "evaluations": max(n_obl, 1),
        "distinct_nontrivial": max(distinct, 0),
        "samples": res.samples[:25] if res.samples else [o for o in res.obligations[:10]],
        "analysed": res.analysed,
        "checker_cmd": checker_cmd or ("./check %s --tier %s" % (res.prop, res.tier)),
        "trusted_base": (trusted_base or []) + res.trusted,
        "exhaustive": bool(getattr(res, "exhaustive", False)),
        "known_findings_seen": [v["key"] for v in seen_known],
        "new_violations": [v["key"] for v in new],
    }
    if SELFTEST is not None:
        cov["selftest"] = SELFTEST
    ev = {
        "property_id": res.prop,
        "tier": res.tier,
        "seed": int(os.environ.get("VERIF_SEED", "0") or 0),
        "level": res.level,
        "coverage": cov,
        "assumptions": res.assumptions,
        "wall_s": round(wall, 3),
        "violations": len(new),
    }
    ev_path = os.path.join(out_dir(), "evidence", res.prop + ".json")
    os.makedirs(os.path.dirname(ev_path), exist_ok=True)
    with open(ev_path, "w") as fh:
        json.dump(ev, fh, indent=1, default=str)
    print("[%s] obligations=%d discharged=%d known=%d new_violations=%d wall=%.1fs" % (
        res.prop, n_obl, n_dis, len(seen_known), len(new), wall))
    if new:
        print("VIOLATION property=%s replay=%s" % (res.prop, rep_path))
        return 1
    return 0
