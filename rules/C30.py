"""C30 — block traversal exposes each transaction with its own parts.

Decides: (a) era table: probe::block_era (wrapper tag -> outcome) o MultiEraBlock::decode (outcome -> decode_<era>) o what each
decode_<era> constructs o era() equals the wrapper-tag table for tags 0..7 and nothing else is accepted; (b) index coherence in the
three *_clone_tx_at functions: the same `index` reaches transaction_bodies.get, transaction_witness_sets.get, the
invalid_transactions membership test and the auxiliary_data_set key comparison, and `success` is the negation of that membership;
(c) tx_count / is_empty read transaction_bodies of the same block variant."""
import json
import os
import re
from pv.panic import place_field_steps
from pv.mir import op_place
from pv.program import Program
from pv.report import Result, finish
from pv.tabulate import tabulate, cond_variants
from pv.mir import sym_str, sym_walk
from pv.facts import VERIF
from pv import flow

T = "pallas_traverse::"


def closure_env_map(parent, child_path):
    """field index -> parent symbolic operand for the closure aggregate building `child_path` in `parent`."""
    for bi, si, s in parent.statements():
        if s[0] == "a" and s[2]["k"] == "agg" and s[2].get("ak") == "closure" and s[2].get("def") == child_path:
            return [parent.sym_operand(o) for o in s[2]["fields"]]
    return None


def _strip(sym):
    while sym[0] in ("ref", "deref", "cast"):
        sym = sym[1]
    return sym


def resolves_to_param(sym, env, param_name):
    """Is `sym` the parameter `param_name` itself, up to borrows and integer casts — directly (env is None: an expression of
    the function itself) or, in a closure body, a captured upvar whose parent value is that parameter (up to borrows/casts)?
    Arithmetic on the index (index + 1, ...) does not qualify."""
    sym = _strip(sym)
    if env is None:
        return sym[0] == "param" and sym[2] == param_name
    if sym[0] == "field" and isinstance(sym[2], (int, str)) and str(sym[2]).isdigit():
        base = _strip(sym[1])
        if base[0] == "param" and base[1] == 1 and int(sym[2]) < len(env):
            cap = _strip(env[int(sym[2])])
            return cap[0] == "param" and cap[2] == param_name
    return False


def index_uses(P, fn):
    """(membership test uses index, key comparison uses index, {closure path: True if it is a membership closure})
    searched in the function itself and in its closures (any spelling: contains / == / eq, direct or captured)."""
    found_contains = found_eq = False
    member_closures = set()
    bodies = [(fn, None)]
    for k in P.closure_children(fn):
        env = closure_env_map(fn, k.path) or closure_env_map(P.get(k.b.get("parent")) or fn, k.path)
        bodies.append((k, env if env is not None else []))
    for g, env in bodies:
        for bi, t in g.calls():
            name = flow.callee_name(t)
            if name.endswith("::contains") and len(t["args"]) > 1:
                if resolves_to_param(g.sym_operand(t["args"][1]), env, "index"):
                    found_contains = True
                    if g is not fn:
                        member_closures.add(g.path)
            if re.search(r"PartialEq::eq$|::eq$", name) and len(t["args"]) > 1:
                if any(resolves_to_param(g.sym_operand(a), env, "index") for a in t["args"]):
                    found_eq = True
        for bi, si, st in g.statements():
            if st[0] == "a" and st[2]["k"] == "bin" and st[2]["op"] == "Eq":
                if any(resolves_to_param(g.sym_operand(o), env, "index") for o in (st[2]["l"], st[2]["r"])):
                    found_eq = True
    return found_contains, found_eq, member_closures


def is_membership(sym, member_closures):
    """`sym` is the invalid-transactions membership test of the requested index: a contains(.., index) call, or an Option
    combinator fed by invalid_transactions whose closure performs that test (with `false` as the value for an absent list)."""
    direct = any(sub[0] == "call" and sub[1].endswith("::contains") and len(sub[2]) > 1 and resolves_to_param(sub[2][1], None, "index")
                 for sub in sym_walk(sym))
    via = any(sub[0] == "agg" and sub[1] == "closure" and sub[2] in member_closures for sub in sym_walk(sym))
    if not (direct or via):
        return False, "no membership test of the requested index"
    for sub in sym_walk(sym):
        if sub[0] == "call" and re.search(r"Option::(unwrap_or|map_or)$", flow.strip_generics(sub[1])):
            dflt = sub[2][1] if len(sub[2]) > 1 else None
            if dflt is not None and dflt[0] == "const" and int(dflt[1]) != 0:
                return False, "an absent invalid_transactions list counts as `invalid`"
    return True, "membership"


def run(tier):
    res = Result("C30", tier, level="other")
    spec = json.load(open(os.path.join(VERIF, "spec", "block_eras.json")))
    P = Program(crates=["pallas_traverse"])

    # (a) era table
    be = P.one(r"^pallas_traverse::probe::block_era$")
    tag_to_outcome = {}
    other_outcomes = set()
    for p in tabulate(be, P, 4096):
        if p.end != "return" or p.ret is None:
            continue
        last = p.conds[-1] if p.conds else None
        out = p.ret
        if out[0] != "agg":
            res.violation("block_era:non-constant", "block_era returns a non-constant outcome: %s" % sym_str(out), rule="R-TABLE")
            continue
        name = out[2]
        era = out[3][0][2] if name == "Matched" and out[3] and out[3][0][0] == "agg" else None
        is_tag_switch = last is not None and last[0][0] in ("field",) and "U8" in sym_str(last[0], 400)
        if is_tag_switch and last[1][0] == "eq":
            tag_to_outcome[int(last[1][1])] = (name, era)
        else:
            other_outcomes.add(name)
    if other_outcomes - {"Inconclusive"}:
        res.violation("block_era:fallthrough", "block_era yields %s on a path that does not test the wrapper tag" % sorted(other_outcomes), rule="R-TABLE")
    dec = P.one(r"MultiEraBlock<'b>>::decode$")
    outcome_to_fn = {}
    for p in tabulate(dec, P, 256):
        if p.end != "return" or p.ret is None:
            continue
        cv = [cond_variants(P, c) for c in p.conds]
        oc = next((list(v)[0] for k, v in cv if k.endswith("block_era(&*cbor)") and len(v) == 1), None)
        era = next((list(v)[0] for k, v in cv if k.endswith(".0") and len(v) == 1), None)
        if p.ret[0] == "call":
            outcome_to_fn[(oc, era)] = p.ret[1]
        elif p.ret[0] == "agg" and p.ret[2] == "Err":
            outcome_to_fn[(oc, era)] = "Err"
    eraf = P.one(r"MultiEraBlock<'b>>::era$")
    era_of_variant = {}
    for p in tabulate(eraf, P, 64):
        if p.end != "return":
            continue
        cv = dict(c for c in (cond_variants(P, c) for c in p.conds) if c)
        for v in cv.get("*self", ()):
            era_of_variant[v] = p.ret
    n_rows = 0
    for tag in range(0, 24):
        want = spec["tags"].get(str(tag))
        oc = tag_to_outcome.get(tag)
        key = "era:tag:%d" % tag
        if want is None:
            if oc is None or oc[0] == "Inconclusive":
                continue
            res.violation(key + "=>%s" % (oc,), "wrapper tag %d is accepted as %s but is not a known era tag" % (tag, oc), where="%s:%s" % (be.file, be.line), rule="R-TABLE")
            continue
        n_rows += 1
        if oc is None:
            res.violation(key + "=>rejected", "wrapper tag %d (%s) is not recognised by block_era" % (tag, want), where="%s:%s" % (be.file, be.line), rule="R-TABLE")
            continue
        fnp = outcome_to_fn.get((oc[0], oc[1]))
        g = P.get(fnp) if fnp else None
        if g is None:
            res.violation(key + "=>no-decoder", "outcome %s for tag %d has no decoder in MultiEraBlock::decode (%s)" % (oc, tag, fnp), where="%s:%s" % (dec.file, dec.line), rule="R-TABLE")
            continue
        built = set()
        for p in tabulate(g, P, 64):
            if p.end == "return" and p.ret is not None and p.ret[0] == "agg" and p.ret[2] == "Ok":
                inner = p.ret[3][0]
                if inner[0] == "agg" and inner[1] == T + "MultiEraBlock":
                    built.add((inner[2], tuple(f[2] for f in inner[3] if f[0] == "agg" and f[1] == T + "Era")))
        if len(built) != 1:
            res.violation(key + "=>ambiguous", "%s builds %s" % (fnp, sorted(built)), rule="R-TABLE")
            continue
        variant, eras = built.pop()
        er = era_of_variant.get(variant)
        if er is None:
            final = None
        elif er[0] == "agg":
            final = er[2]
        elif er[0] == "field" and eras:
            final = eras[0]
        else:
            final = None
        res.sample({"tag": tag, "outcome": oc, "decoder": fnp.split("::")[-1], "variant": variant, "era()": final, "spec": want})
        ebb_ok = (tag != spec["ebb_tag"]) or variant == "EpochBoundary"
        if final == want and ebb_ok:
            res.ok(key, "R-TABLE", "tag %d -> %s -> %s -> era() = %s" % (tag, oc[0], variant, final))
        else:
            res.violation(key + "=>%s" % final, "a block whose wrapper declares tag %d (%s) is traversed as %s with era() = %s" % (tag, want, variant, final),
                          where="%s:%s" % (g.file, g.line), rule="R-TABLE")
    res.floor("era table rows", n_rows, 8)

    # (b) index coherence
    n_fn = 0
    for fn in P.find(r"^pallas_traverse::support::\w+_clone_tx_at$"):
        n_fn += 1
        nm = fn.name
        gets = {}
        for bi, t in flow.calls_matching(fn, r"core::slice::get$"):
            ch = flow.arg_chain(fn, t, 0)
            idx = fn.sym_operand(t["args"][1])
            if ch and ch[1]:
                gets[ch[1][-1]] = idx
        for field in ("transaction_bodies", "transaction_witness_sets"):
            key = "index:%s:%s" % (nm, field)
            idx = gets.get(field)
            if idx is not None and resolves_to_param(idx, None, "index"):
                res.ok(key, "R-PROV", "%s.get(index)" % field)
            else:
                res.violation(key, "%s: %s is not looked up with the requested index (%s)" % (nm, field, sym_str(idx) if idx else "no get() call"), where="%s:%s" % (fn.file, fn.line), rule="R-PROV")
        found_contains, found_eq, member_closures = index_uses(P, fn)
        for ok, what in ((found_contains, "invalid_transactions membership"), (found_eq, "auxiliary_data_set key comparison")):
            key = "index:%s:%s" % (nm, what.split()[0])
            if ok:
                res.ok(key, "R-PROV", "%s uses the requested index" % what)
            else:
                res.violation(key, "%s: the %s does not use the requested index" % (nm, what), where="%s:%s" % (fn.file, fn.line), rule="R-PROV")
        # the auxiliary-data map is keyed by transaction index: no element of it may be selected by *position* (nth, values,
        # slice get/index, skip/take/zip/enumerate ...) — a positional fast path pairs a transaction with another key's data
        POSITIONAL = re.compile(r"::(nth|nth_back|values|into_values|skip|take|step_by|zip|enumerate|first|last|get_unchecked|split_at|chunks|windows|rev|last_key_value|first_key_value|pop_first|pop_last)$"
                                r"|^core::slice::get$|^core::slice::index::|Index::index$|^alloc::vec::.*::index$")
        bodies = [fn] + list(P.closure_children(fn))
        pos_hits = []
        for g in bodies:
            for bi, t in g.calls():
                if not t["args"]:
                    continue
                ch = flow.arg_chain(g, t, 0)
                if ch is None or "auxiliary_data_set" not in ch[1]:
                    continue
                name = flow.callee_name(t)
                if POSITIONAL.search(name):
                    pos_hits.append(name.split("::")[-1])
        key = "aux-keyed-only:%s" % nm
        if pos_hits:
            res.violation(key, "%s selects auxiliary data by position (%s) instead of by its transaction-index key: a transaction can be paired with the auxiliary data of another index" % (nm, ", ".join(sorted(set(pos_hits)))),
                          where="%s:%s" % (fn.file, fn.line), rule="R-PROV")
        else:
            res.ok(key, "R-PROV", "auxiliary_data_set is only searched by key")
        # success = !(index in invalid_transactions), decided per return path of the tabulated function so that the combinator
        # spelling (`!opt.map(|x| x.contains(..)).unwrap_or(false)`) and the match / if spellings are all accepted
        key = "success-negation:%s" % nm
        verdicts = []
        for p in tabulate(fn, P, 512):
            if p.end != "return" or p.ret is None or p.ret[0] != "agg" or p.ret[2] != "Some":
                continue
            tx = p.ret[3][0] if p.ret[3] else None
            if tx is None or tx[0] != "agg" or not str(tx[1]).endswith("::Tx"):
                continue
            i = flow.adt_field_index(P, tx[1], "success")
            if i is None:
                i = 2        # Tx lives in pallas_primitives: body, witness_set, success, auxiliary_data
            s_ = tx[3][i]
            if s_[0] == "un" and s_[1] == "Not":
                ok_, why = is_membership(s_[2], member_closures)
                verdicts.append((ok_, why if not ok_ else "success = !membership"))
            elif s_[0] == "const":
                val = int(s_[1])
                ok_, why = False, "success is the constant %s on a path that does not decide the membership" % bool(val)
                for d, c in p.conds:
                    truth = (c[0] == "eq" and int(c[1]) != 0) or (c[0] == "ne" and 0 in [int(x) for x in c[1]])
                    if d[0] == "discr" and "invalid_transactions" in sym_str(d, 2000) and c[0] == "eq" and int(c[1]) == 0 and val == 1:
                        ok_, why = True, "no invalid_transactions list: success = true"
                    m_, _ = is_membership(d, member_closures) if d[0] in ("call", "un") else (False, "")
                    if m_ and d[0] == "call" and val == (0 if truth else 1):
                        ok_, why = True, "success = %s under membership == %s" % (bool(val), truth)
                verdicts.append((ok_, why))
            else:
                verdicts.append((False, "success = %s" % sym_str(s_, 120)))
        if verdicts and all(v[0] for v in verdicts):
            res.ok(key, "R-PROV", "Tx.success = !(invalid_transactions contains index) on %d constructing path(s)" % len(verdicts))
        else:
            res.violation(key, "%s: `success` is not the negation of the invalid-transactions membership test (%s)" % (
                nm, "; ".join(v[1] for v in verdicts if not v[0]) or "no path constructs the transaction"), where="%s:%s" % (fn.file, fn.line), rule="R-PROV")
    res.floor("clone_tx_at functions", n_fn, 3)

    # (c) tx_count / is_empty per variant
    for fname in ("tx_count", "is_empty"):
        f = P.one(r"MultiEraBlock<'b>>::%s$" % fname)
        for p in tabulate(f, P, 64):
            if p.end != "return":
                continue
            cv = dict(c for c in (cond_variants(P, c) for c in p.conds) if c)
            for v in cv.get("*self", ()):
                key = "%s:%s" % (fname, v)
                r = p.ret
                if v == "EpochBoundary":
                    ok = r[0] == "const"
                else:
                    txt = sym_str(r, 400)
                    want_field = "tx_payload" if v == "Byron" else "transaction_bodies"
                    ok = (" as %s)" % v) in txt and want_field in txt
                if ok:
                    res.ok(key, "R-TABLE", "%s(%s) reads the bodies of the same variant" % (fname, v))
                else:
                    res.violation(key, "%s for variant %s does not read that variant's transaction bodies: %s" % (fname, v, sym_str(r, 200)), where="%s:%s" % (f.file, f.line), rule="R-TABLE")
    # (c2) txs(): each variant is traversed with its own era's cloner
    f = P.one(r"MultiEraBlock<'b>>::txs$")
    want_cloner = {"AlonzoCompatible": "clone_alonzo_txs", "Babbage": "clone_babbage_txs", "Byron": "clone_byron_txs", "Conway": "clone_conway_txs"}
    seen = {}
    for p in tabulate(f, P, 64):
        if p.end != "return":
            continue
        cv = dict(c for c in (cond_variants(P, c) for c in p.conds) if c)
        for v in cv.get("*self", ()):
            cl = [c[0].split("::")[-1] for c in p.calls if "support::clone_" in c[0]]
            seen[v] = cl
    for v, want in want_cloner.items():
        key = "txs:%s" % v
        if seen.get(v) == [want]:
            res.ok(key, "R-TABLE", "txs() of a %s block uses %s" % (v, want))
        else:
            res.violation(key, "txs() of a %s block uses %s, expected %s" % (v, seen.get(v), want), where="%s:%s" % (f.file, f.line), rule="R-TABLE")
    for g in P.find(r"^pallas_traverse::support::clone_(alonzo|babbage|conway)_txs$"):
        era = g.name.split("_")[1]
        kid_calls = [flow.callee_name(t).split("::")[-1] for k in P.closure_children(g) for _, t in k.calls()]
        lens = [flow.arg_chain(g, t, 0) for _, t in flow.calls_matching(g, r"::len$")]
        key = "cloner:%s" % g.name
        if ("%s_clone_tx_at" % era) in kid_calls and any(c and c[1] and c[1][-1] == "transaction_bodies" for c in lens):
            res.ok(key, "R-TABLE", "iterates 0..transaction_bodies.len() with %s_clone_tx_at" % era)
        else:
            res.violation(key, "%s does not iterate the block's transaction bodies with %s_clone_tx_at (calls %s)" % (g.name, era, kid_calls), where="%s:%s" % (g.file, g.line), rule="R-TABLE")
    res.trusted += ["spec/block_eras.json"]
    # (d) a transaction's parts do not depend on its validity flag: "the i-th traversed transaction consists of the i-th body, the
    # i-th witness set and the auxiliary data keyed by i ... marked invalid exactly when i is listed" — the flag is one more part,
    # it does not gate the others.  Only the UTxO-effect accessors of C31 (consumes / produces / produces_at) may branch on it.
    PT = Program(crates=["pallas_traverse"]) if "pallas_traverse" not in getattr(P, "crates", []) else P
    EFFECTS = {"consumes", "produces", "produces_at", "is_valid"}
    n_acc = 0
    for f in PT.find(r"^pallas_traverse::tx::<impl pallas_traverse::MultiEraTx<'b>>::\w+$"):
        if f.name in EFFECTS:
            continue
        n_acc += 1
        uses = [flow.callee_name(t) for bi, t in f.calls() if re.search(r"MultiEraTx.*::is_valid$|^pallas_traverse::tx::is_valid$", flow.callee_name(t) + " " + (t.get("f") or ""))]
        reads = any(st[0] == "a" and any(n == "success" for _, n in place_field_steps(f, st[2]["p"])) for bi, si, st in f.statements()
                    if st[0] == "a" and st[2]["k"] in ("ref",) and not isinstance(st[2]["p"], int)) or \
            any(st[0] == "a" and st[2]["k"] == "use" and (op_place(st[2]["x"]) is not None) and not isinstance(op_place(st[2]["x"]), int)
                and any(n == "success" for _, n in place_field_steps(f, op_place(st[2]["x"]))) for bi, si, st in f.statements())
        key = "parts-independent-of-validity:%s" % f.name
        if uses or reads:
            res.violation(key, "MultiEraTx::%s consults the phase-2 validity flag: a part of the transaction (body, witnesses, auxiliary data, ...) is exposed differently "
                          "for a transaction listed as invalid, although the block carries that part at its index all the same" % f.name,
                          where="%s:%s" % (f.file, f.line), rule="R-FRAME")
    if n_acc:
        res.ok("parts-independent-of-validity", "R-FRAME", "%d MultiEraTx accessors other than the UTxO-effect ones never consult the validity flag" % n_acc)
    res.floor("MultiEraTx accessors inspected", n_acc, 20)
    return finish(res,
                  explanation="Composes four code tables (tag probe, decoder dispatch, constructed variant/era, era()) and compares the result with the wrapper-tag table; "
                              "checks by provenance that one index selects body, witness set, validity flag and auxiliary data. Does not decide txs().len() == tx_count() for malformed blocks.",
                  rule_text="R-TABLE(era composition) + R-PROV(index coherence, success negation) + R-TABLE(tx_count/is_empty)",
                  trusted_base=["rustc MIR", "spec/block_eras.json"])
