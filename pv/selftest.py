"""Thorough-tier self-test of a rule: the rule must still *fire* on recorded breaking variants of /repo's current tree and
stay *silent* on recorded behaviour-preserving variants (variants/<Cnn>/{break,benign}-*.diff, seeded/<Cnn>*/patch.diff).

Nothing of pallas is executed: each variant is a patch applied to a scratch copy of /repo's working tree (outside /repo and
/verif, removed afterwards) that is then analysed by the same check (`PALLAS_REPO=<scratch> ./check Cnn --tier quick`).
A rule that no longer reports a recorded breaking variant has gone blind; a rule that reports a benign one has become
spelling-bound.  Either is reported by the thorough tier as a checker fault (fail closed), never silently."""
import glob
import json
import os
import shutil
import subprocess
import tempfile

from .facts import VERIF, REPO


def _variants(prop, max_break, max_benign):
    out = []
    vb = sorted(glob.glob(os.path.join(VERIF, "variants", prop, "break-*.diff")))
    vg = sorted(glob.glob(os.path.join(VERIF, "variants", prop, "benign-*.diff")))
    seeded = []
    for d in sorted(glob.glob(os.path.join(VERIF, "seeded", prop + "*"))):
        p = os.path.join(d, "patch.diff")
        meta = os.path.join(d, "meta.json")
        if not os.path.exists(p):
            continue
        documented_miss = False
        try:
            documented_miss = '"result": "MISSED' in open(meta).read()
        except OSError:
            pass
        if not documented_miss:
            seeded.append(p)
    for p in (seeded + vb)[:max_break]:
        out.append(("break", p))
    for p in vg[:max_benign]:
        out.append(("benign", p))
    return out


def run(prop, max_break=3, max_benign=2):
    results = []
    for kind, patch in _variants(prop, max_break, max_benign):
        name = os.path.relpath(patch, VERIF)
        scratch = tempfile.mkdtemp(prefix="pallas_selftest_", dir="/var/tmp")
        try:
            subprocess.run(["rsync", "-a", "--exclude", "target", "--exclude", ".git", "--exclude", ".verif-out", REPO.rstrip("/") + "/", scratch + "/"], check=True)
            r = subprocess.run(["patch", "-p1", "-s", "-f", "-i", patch], cwd=scratch, capture_output=True, text=True)
            if r.returncode != 0:
                results.append({"variant": name, "kind": kind, "outcome": "skipped: patch does not apply to the current tree"})
                continue
            env = dict(os.environ, PALLAS_REPO=scratch, VERIF_TIER="quick")
            env.pop("VERIF_OUT", None)
            c = subprocess.run([os.path.join(VERIF, "check"), prop, "--tier", "quick"], cwd=VERIF, env=env, capture_output=True, text=True)
            fired = c.returncode != 0 and "VIOLATION property=%s " % prop in c.stdout
            if "fact extraction failed" in (c.stdout + c.stderr):
                results.append({"variant": name, "kind": kind, "outcome": "skipped: variant does not compile on the current tree"})
                continue
            if kind == "break":
                results.append({"variant": name, "kind": kind, "outcome": "reported" if fired else "MISSED"})
            else:
                results.append({"variant": name, "kind": kind, "outcome": "silent" if not fired and c.returncode == 0 else "FALSE-ALARM"})
        finally:
            shutil.rmtree(scratch, ignore_errors=True)
    return results
