"""External decoders with an input-size precondition (used by C09).

External crates are trusted total unless listed.  This module lists third-party *decoding* functions that were shown
(with an exhibit) to panic on some inputs, and the guard a call to them needs.

base58 0.2.0 — `<str as base58::FromBase58>::from_base58` decodes into a fixed 132-byte buffer and finishes with
`bin[leading_zeros - zcount..]`; when the number of leading '1' characters plus the significant bytes exceeds 132 the
subtraction underflows (dev: "attempt to subtract with overflow", release: slice index out of range).  Exhibit:
`"1".repeat(133).from_base58()`.  A call is accepted only when a kill-checked dominating comparison bounds *from above*,
by a constant <= 132, a value computed from the very string that is decoded (its `len()`, a count over its
`bytes()`/`chars()`, or arithmetic on those).  What is verified is the presence, polarity and constant of such a size
test on the decoded string — not the arithmetic that maps characters to bytes.
"""
import re

from . import guards
from .panic import strip_generics, _is_const, _cv
from .mir import sym_walk

# regex on the stripped callee path -> (site label, largest admissible constant bound, description)
PRECONDITIONS = [
    (r"^str as base58::FromBase58::from_base58$", "base58-decode", 132,
     "base58 0.2.0 from_base58 panics when leading '1's + significant bytes exceed its 132-byte buffer"),
]
_RX = [(re.compile(rx), lab, bound, why) for rx, lab, bound, why in PRECONDITIONS]


def panic_api_entries():
    return [(rx, lab) for rx, lab, _, _ in PRECONDITIONS]


def _strip(x):
    while x[0] in ("ref", "deref"):
        x = x[1]
    return x


def _derived_from(sym, src):
    """Does `sym` contain a call that receives (a reference to) the same place as `src`?"""
    src = _strip(src)
    sc = guards.place_chain(src)
    for sub in sym_walk(sym):
        if sub[0] != "call":
            continue
        for a in sub[2]:
            a = _strip(a)
            if a == src:
                return True
            ac = guards.place_chain(a)
            if sc is not None and ac is not None and ac == sc:
                return True
    return False


def discharge(site):
    if not site.kind.startswith("call:"):
        return None
    lab = site.kind[5:]
    callee = strip_generics(site.term.get("f") or site.term.get("g") or "")
    for rx, l, bound, why in _RX:
        if l != lab or not rx.search(callee):
            continue
        fn = site.fn
        args = site.term.get("args") or []
        if not args:
            return None
        src = fn.sym_operand(args[0])
        for f in guards.facts_at_term(fn, site.bb):
            for op, a, b in f.oriented():
                if not _is_const(b) or not _derived_from(a, src):
                    continue
                c = _cv(b)
                if (op == "Lt" and c <= bound) or (op == "Le" and c <= bound - 1) or (op == "Eq" and c <= bound - 1):
                    return ("dominating size test on the decoded string: derived value %s %d (<= %d) before the call; %s"
                            % (op, c, bound, why))
        return None
    return None
