"""Shared helpers for the networking properties C20 / C21 / C25 (new module; nothing else imports it).

* `Origins`      — flow-insensitive backward slice of a MIR value ("which calls / parameters / constants may this value
                   originate from"), looking through moves, copies, borrows, projections, provenance-transparent calls and
                   the saved locals / upvars of an `async fn` coroutine body (post-transform MIR).
* `postdominators`, `control_deps` — control dependence on the MIR CFG.
* `eval_int`     — evaluate a symbolic integer expression (consts, one free variable, `& | ^ ! as`) so two expressions can
                   be compared extensionally over the whole 16-bit domain instead of by spelling.
* `ErrFlow`      — the R-EOI path engine: on every path on which a given `Result` is `Err`, the function must return a
                   value that still carries that very error (any spelling of propagation), unless the path is the `false`
                   side of an `is_end_of_input()` test on it.
"""
import re

from .mir import pl_local, pl_proj, op_place
from .panic import strip_generics


def cname(t):
    return strip_generics(t.get("f") or t.get("g") or "<indirect>")


def where(fn, span):
    line = span[0] if isinstance(span, (list, tuple)) and span else fn.line
    return "%s:%s" % (fn.file, line)


def term_where(fn, bb):
    t = fn.blocks[bb]["term"]
    return where(fn, t.get("s") or [fn.line])


# ------------------------------------------------------------------------------------------------ CFG: post-dominators

def postdominators(fn):
    """pdom[b] = set of blocks that post-dominate b (every path from b to a function exit passes through them)."""
    c = getattr(fn, "_x_pdom", None)
    if c is not None:
        return c
    live = list(fn.live_blocks())
    liveset = set(live)
    EXIT = -1
    succ = {}
    for b in live:
        ss = [s for s in fn.succ(b) if s in liveset]
        succ[b] = ss if ss else [EXIT]
    allb = set(live) | {EXIT}
    pdom = {b: set(allb) for b in live}
    pdom[EXIT] = {EXIT}
    changed = True
    while changed:
        changed = False
        for b in reversed(live):
            new = set.intersection(*[pdom[s] for s in succ[b]]) | {b}
            if new != pdom[b]:
                pdom[b] = new
                changed = True
    fn._x_pdom = pdom
    return pdom


def control_deps(fn, bb):
    """Switch blocks S (with the successor edge taken) on which bb is directly control dependent:
    bb post-dominates successor s of S but not S itself.  -> [(S, s)]"""
    pdom = postdominators(fn)
    out = []
    for S in fn.live_blocks():
        ss = fn.succ(S)
        if len(ss) < 2:
            continue
        if bb in pdom.get(S, ()) and S != bb:
            continue
        for s in ss:
            if s == bb or bb in pdom.get(s, ()):
                out.append((S, s))
    return out


def transitive_control_deps(fn, bb, within=None):
    """All (S, s) edges bb is transitively control dependent on (optionally only switches inside `within`)."""
    seen = set()
    out = []
    work = [bb]
    while work:
        x = work.pop()
        for S, s in control_deps(fn, x):
            if within is not None and S not in within:
                continue
            if (S, s) in seen:
                continue
            seen.add((S, s))
            out.append((S, s))
            work.append(S)
    return out


# ------------------------------------------------------------------------------------------------ origins (backward slice)

TRANSPARENT = re.compile(
    r"(::iter|::iter_mut|::into_iter|::deref|::deref_mut|::as_ref|::as_mut|::as_slice|::as_mut_slice|::clone|::to_vec|::to_owned|"
    r"::borrow|::borrow_mut|::into|::from|::as_deref|::by_ref|::copied|::cloned|::as_bytes|::unwrap|::expect|"
    r"Try::branch|IntoFuture::into_future|Pin::new_unchecked|Pin::new|::get_mut|::as_mut_ptr|::unwrap_or_default|"
    r"::next|::map|::rev|::enumerate|::peekable|::by_ref|::collect|::unzip|::index|::index_mut|::get|::first|::last)$")


APPEND_CALLS = re.compile(r"(Extend::extend|::extend_from_slice|::append|::push_str|::extend_from_within)$")


def is_coroutine_state_ty(ty):
    return "{async fn body" in ty or "{async block" in ty or "{async closure" in ty


def is_env_ty(ty):
    """coroutine state or the environment of a plain closure: places `(*env).k` are captured variables (upvars)"""
    return is_coroutine_state_ty(ty) or "{closure@" in ty


def closure_site(prog, g):
    """For a plain closure body g: (parent body, block, captured operands) of the statement that builds the closure."""
    parent = prog.fns.get(g.b.get("parent") or "")
    if parent is None:
        return None
    want = re.sub(r"#\d+$", "", g.path)
    for bi, si, s in parent.statements():
        if s[0] == "a" and s[2]["k"] == "agg" and s[2].get("ak") == "closure" and (s[2].get("def") or "") == want:
            return parent, bi, s[2]["fields"]
    return None


def lift_operand(prog, g, o):
    """An argument inside closure body g that is (a reborrow / copy of) a captured variable, expressed in the parent:
    -> (parent body, block of the closure construction, parent operand) or None."""
    sym = SymX(g).operand(o)
    while sym[0] in ("ref", "deref", "cast"):
        sym = sym[1]
    if sym[0] != "upvar":
        return None
    cs = closure_site(prog, g)
    if cs is None or sym[1] >= len(cs[2]):
        return None
    return cs[0], cs[1], cs[2][sym[1]]


class Origins:
    """May-originate-from slice.  `of_operand(o)` / `of_place(p)` return a set of leaves:
       ("call", callee, bb)      result of a (non-transparent) call
       ("param", i, name)        a parameter of the function (for coroutine bodies: ("upvar", k, name-or-None))
       ("const", value, ty) / ("constsym", s, ty) / ("fn", path)
       ("agg", adt-or-kind, variant, bb)   a value built here (fields are followed too)
       ("bin", op, bb) / ("un", op, bb) / ("cast", bb) ...   arithmetic (operands are followed too)
    Flow-insensitive: every definition of a local is followed.  `extra_transparent` adds callee regexes."""

    def __init__(self, fn, extra_transparent=None, opaque=None, max_nodes=4000, append_flows=False):
        self.fn = fn
        self.append_flows = append_flows
        self.extra = re.compile(extra_transparent) if extra_transparent else None
        self.opaque = re.compile(opaque) if opaque else None
        self.max_nodes = max_nodes
        self._defs = None

    # pseudo-locals for coroutine state
    def _key(self, p):
        """Slicing key of a place: plain local -> int; coroutine saved local -> ("cs", variant, idx); upvar -> ("up", k);
        other projections -> the root local (field-insensitive)."""
        l = pl_local(p)
        proj = pl_proj(p)
        if proj and is_env_ty(self.fn.local_ty(l)) and (l == 1 or is_coroutine_state_ty(self.fn.local_ty(l))):
            ks = [e for e in proj if e[0] in ("downcast", "field")]
            if len(ks) >= 2 and ks[0][0] == "downcast" and ks[1][0] == "field":
                return ("cs", ks[0][1], ks[1][1])
            if ks and ks[0][0] == "field":
                return ("up", ks[0][1])
        return l

    def defs(self):
        if self._defs is not None:
            return self._defs
        d = {}
        fn = self.fn
        for bi in fn.live_blocks():
            b = fn.blocks[bi]
            for si, s in enumerate(b["st"]):
                if s[0] == "a":
                    d.setdefault(self._key(s[1]), []).append(("st", bi, si, s))
            t = b["term"]
            if t["k"] == "call":
                d.setdefault(self._key(t["dest"]), []).append(("call", bi, -1, t))
        if self.append_flows:
            # x.extend(y) / x.append(&mut y) / x.extend_from_slice(&y): y also flows into x
            flows = []
            for bi in fn.live_blocks():
                t = fn.blocks[bi]["term"]
                if t["k"] == "call" and APPEND_CALLS.search(cname(t)) and len(t["args"]) >= 2:
                    rk = self._recv_root(t["args"][0], d)
                    if rk is not None:
                        flows.append((rk, bi, t))
            for rk, bi, t in flows:
                d.setdefault(rk, []).append(("flow", bi, -1, t))
        self._defs = d
        return d

    def _recv_root(self, o, d):
        """slicing key of x in a `&mut x` receiver argument (through single-definition borrow temporaries)"""
        p = op_place(o)
        for _ in range(6):
            if p is None:
                return None
            k = self._key(p)
            if not isinstance(k, int) or self.fn.local_name(k):
                return k
            ds = [x for x in d.get(k, []) if x[0] == "st"]
            if len(ds) != 1 or ds[0][3][2]["k"] not in ("ref", "rawptr", "use"):
                return k
            rv = ds[0][3][2]
            p = rv["p"] if rv["k"] in ("ref", "rawptr") else op_place(rv["x"])
        return None

    def of_operand(self, o):
        out = set()
        self._operand(o, out, set(), [0])
        return out

    def of_place(self, p):
        out = set()
        self._place(p, out, set(), [0])
        return out

    def of_local(self, l):
        return self.of_place(l)

    def _operand(self, o, out, seen, n):
        c = o.get("k")
        if c is not None:
            if "v" in c:
                out.add(("const", c["v"], c["ty"]))
            elif "fn" in c:
                out.add(("fn", c["fn"]))
            else:
                out.add(("constsym", c.get("sym"), c["ty"]))
            return
        p = op_place(o)
        if p is not None:
            self._place(p, out, seen, n)

    def _place(self, p, out, seen, n):
        k = self._key(p)
        # index locals of projections are not provenance of the value
        if k in seen:
            return
        seen.add(k)
        n[0] += 1
        if n[0] > self.max_nodes:
            out.add(("budget",))
            return
        fn = self.fn
        if isinstance(k, int) and 1 <= k <= fn.argc and not is_coroutine_state_ty(fn.local_ty(k)):
            out.add(("param", k, fn.local_name(k)))
        if isinstance(k, tuple) and k[0] == "up":
            out.add(("upvar", k[1], None))
        for kind, bi, si, payload in self.defs().get(k, []):
            if kind == "flow":
                for a in payload["args"][1:]:
                    self._operand(a, out, seen, n)
                continue
            if kind == "call":
                t = payload
                name = cname(t)
                if (TRANSPARENT.search(name) or (self.extra and self.extra.search(name))) and not (self.opaque and self.opaque.search(name)):
                    for a in t["args"]:
                        self._operand(a, out, seen, n)
                else:
                    out.add(("call", name, bi))
                continue
            rv = payload[2]
            rk = rv["k"]
            if rk == "repeat":
                out.add(("repeat", str(rv.get("n")), bi))
            if rk in ("use", "repeat"):
                self._operand(rv["x"], out, seen, n)
            elif rk == "cast":
                self._operand(rv["x"], out, seen, n)
            elif rk in ("ref", "rawptr"):
                self._place(rv["p"], out, seen, n)
            elif rk == "discr":
                out.add(("discr", bi))
            elif rk == "bin":
                out.add(("bin", rv["op"], bi))
                self._operand(rv["l"], out, seen, n)
                self._operand(rv["r"], out, seen, n)
            elif rk == "un":
                out.add(("un", rv["op"], bi))
                self._operand(rv["x"], out, seen, n)
            elif rk == "agg":
                out.add(("agg", rv.get("adt") or rv.get("ak"), rv.get("variant"), bi))
                for f in rv["fields"]:
                    self._operand(f, out, seen, n)
            else:
                out.add(("other", rk, bi))


def origin_calls(orig, rx):
    rx = re.compile(rx) if isinstance(rx, str) else rx
    return [o for o in orig if o[0] == "call" and rx.search(o[1])]


def root_key(fn, o):
    """Slicing key (see Origins._key) of the place behind an operand after looking through `&`/`&mut` temporaries:
    `&mut _40` passed as an argument -> 40.  Returns None for constants."""
    p = op_place(o)
    if p is None:
        return None
    og = Origins(fn)
    seen = set()
    while True:
        k = og._key(p)
        if k in seen or not isinstance(k, int):
            return k
        seen.add(k)
        ds = og.defs().get(k, [])
        if len(ds) == 1 and ds[0][0] == "st" and ds[0][3][2]["k"] in ("ref", "rawptr") and not fn.local_name(k):
            p = ds[0][3][2]["p"]
            continue
        if len(ds) == 1 and ds[0][0] == "st" and ds[0][3][2]["k"] == "use" and not fn.local_name(k):
            q = op_place(ds[0][3][2]["x"])
            if q is not None:
                p = q
                continue
        return k


def root_key_sym(fn, sym):
    """Root local of a symbolic place expression (`&local`, `&*local`, a multi-def local) or None."""
    while sym[0] in ("ref", "deref"):
        sym = sym[1]
    if sym[0] == "local":
        return sym[1]
    if sym[0] == "param":
        return sym[1]
    return None


# ------------------------------------------------------------------------------------------------ integer expressions

class NotEvaluable(Exception):
    pass


_MASK = {"u8": 0xff, "u16": 0xffff, "u32": 0xffffffff, "u64": 2**64 - 1, "usize": 2**64 - 1}


def eval_int(sym, var, consts=None, width=16):
    """Value of a symbolic integer expression with every parameter / opaque leaf bound to `var`.
    Supports const, param/local leaves (= var), BitAnd/BitOr/BitXor/Add/Sub, Not, integer casts, named consts."""
    m = (1 << width) - 1
    k = sym[0]
    if k == "const":
        return int(sym[1]) & m
    if k == "constsym":
        if consts and sym[1] in consts:
            return int(consts[sym[1]]) & m
        raise NotEvaluable("named constant %s" % (sym[1],))
    if k in ("param", "local", "field", "deref", "call", "downcast", "upvar"):
        if var is None:
            raise NotEvaluable("free leaf")
        if callable(var):
            return var(sym) & m
        return var & m
    if k == "ref":
        return eval_int(sym[1], var, consts, width)
    if k == "cast":
        return eval_int(sym[1], var, consts, width)
    if k == "un" and sym[1] == "Not":
        return (~eval_int(sym[2], var, consts, width)) & m
    if k == "bin":
        a = eval_int(sym[2], var, consts, width)
        b = eval_int(sym[3], var, consts, width)
        op = sym[1]
        if op == "BitAnd":
            return a & b
        if op == "BitOr":
            return a | b
        if op == "BitXor":
            return a ^ b
        if op in ("Add", "AddWithOverflow", "AddUnchecked"):
            return (a + b) & m
        if op in ("Sub", "SubWithOverflow", "SubUnchecked"):
            return (a - b) & m
        if op == "Shl":
            return (a << b) & m
        if op == "Shr":
            return (a >> b) & m
    if k == "field" or k == "cindex":
        return eval_int(sym[1], var, consts, width)
    raise NotEvaluable("unsupported expression %s" % (k,))


def same_function_u16(sym_a, sym_b, consts=None):
    """Do two expressions over one free u16 variable denote the same function on the whole 16-bit domain?"""
    for v in range(0, 0x10000, 1):
        if eval_int(sym_a, v, consts) != eval_int(sym_b, v, consts):
            return False
    return True


# ------------------------------------------------------------------------------------------------ R-EOI path engine

RES_DECODE = re.compile(r"^(&(mut )?)?core::result::Result<.*, minicbor::decode::error::Error>$")
ERR_DECODE = re.compile(r"^(&(mut )?)?minicbor::decode::error::Error$")
CF_DECODE = re.compile(r"^core::ops::control_flow::ControlFlow<core::result::Result<core::convert::Infallible, minicbor::decode::error::Error>")

# calls whose result still carries the error carried by an argument (the error kind, hence is_end_of_input(), is preserved)
CARRY_CALLS = re.compile(
    r"^(core::result::Result as core::ops::try_trait::Try::branch|"
    r"core::result::Result as core::ops::try_trait::FromResidual::from_residual|"
    r"minicbor::decode::error::Error::with_message|minicbor::decode::error::Error::at|"
    r"core::result::Result::map|core::result::Result::and_then|core::result::Result::inspect|core::result::Result::inspect_err|"
    r"T as core::convert::From::from|T as core::convert::Into::into|core::convert::identity|"
    r"core::result::Result::map_err#checked)$")
IS_EOI = re.compile(r"^minicbor::decode::error::Error::is_end_of_input$")
# the other kind predicates of minicbor's decode error: when one of them holds the error is *not* end-of-input, so what the
# code does on that side is irrelevant to reassembly (minicbor-derive skips an unknown variant of an optional field this way)
IS_OTHER_KIND = re.compile(r"^minicbor::decode::error::Error::is_(unknown_variant|type_mismatch|tag_mismatch|message|custom|missing_value)$")


class ErrFlow:
    """Walk every path from a start point on which `carriers` hold an Err(decode error); report paths that return
    without it (a value, a fresh error), diverge, or loop without ever returning it."""

    def __init__(self, fn, budget=20000):
        self.fn = fn
        self.budget = budget
        self.fail = []     # (kind, bb)
        self.n_paths = 0
        self.guarded = 0   # paths released by an is_end_of_input()==false edge
        self._ref_of = None

    def ref_of(self, l):
        """if local l is (only) `&x` / `&mut x` of a whole local x: x"""
        if self._ref_of is None:
            self._ref_of = {}
            for bi, si, s in self.fn.statements():
                if s[0] == "a" and isinstance(s[1], int) and s[2]["k"] in ("ref", "rawptr"):
                    p = s[2]["p"]
                    proj = pl_proj(p)
                    if not proj:
                        self._ref_of.setdefault(s[1], set()).add(pl_local(p))
                    elif all(e[0] == "deref" for e in proj):
                        self._ref_of.setdefault(s[1], set()).add(("via", pl_local(p)))
        r = self._ref_of.get(l)
        if r and len(r) == 1:
            x = next(iter(r))
            if isinstance(x, tuple):
                return self.ref_of(x[1]) if self.ref_of(x[1]) is not None else x[1]
            return x
        return None

    def run(self, bb, si, carriers, known, bools=None):
        """Start at statement index si of block bb.  carriers: locals holding (a wrapper of) the error;
        known: {local: variant index}; bools: {local: True/False} known boolean values."""
        fn = self.fn
        start = (bb, si, frozenset(carriers), frozenset(known.items()), frozenset((bools or {}).items()), frozenset(), frozenset())
        seen = set()
        work = [start]
        steps = 0
        while work:
            st = work.pop()
            if st in seen:
                continue
            seen.add(st)
            steps += 1
            if steps > self.budget:
                self.fail.append(("budget", st[0]))
                return
            for nxt in self._step(st):
                work.append(nxt)

    def _carrier_place(self, p, car):
        l = pl_local(p)
        if l in car:
            return True
        r = self.ref_of(l)
        return r is not None and r in car

    def _step(self, st):
        fn = self.fn
        bb, si0, car, known, bools, discr_of, eoi = st
        car = set(car)
        known = dict(known)
        bools = dict(bools)
        discr_of = dict(discr_of)     # local -> local whose discriminant it holds
        eoi = dict(eoi)               # bool local -> polarity (True: value == is_end_of_input, False: negated)
        b = fn.blocks[bb]
        for si in range(si0, len(b["st"])):
            s = b["st"][si]
            if s[0] != "a":
                continue
            dst, rv = s[1], s[2]
            if not isinstance(dst, int):
                continue
            k = rv["k"]
            made = False
            n_known = n_bool = n_eoi = n_discr = None
            if k in ("use", "cast"):
                p = op_place(rv["x"])
                if p is not None:
                    src = pl_local(p)
                    if self._carrier_place(p, car):
                        made = True
                        if not pl_proj(p) and src in known:
                            n_known = known[src]
                    if not pl_proj(p):
                        n_bool = bools.get(src)
                        n_eoi = eoi.get(src)
                        n_discr = discr_of.get(src)
            elif k in ("ref", "rawptr"):
                if self._carrier_place(rv["p"], car):
                    made = True
            elif k == "discr":
                pl = rv["p"]
                l = pl_local(pl)
                if not pl_proj(pl):
                    n_discr = l
                elif all(e[0] == "deref" for e in pl_proj(pl)):
                    n_discr = self.ref_of(l)
            elif k == "un" and rv["op"] == "Not":
                p = op_place(rv["x"])
                if p is not None and not pl_proj(p):
                    src = pl_local(p)
                    if src in bools:
                        n_bool = not bools[src]
                    if src in eoi:
                        n_eoi = not eoi[src]
            elif k == "agg" and rv.get("ak") == "adt":
                adt = rv.get("adt") or ""
                if (adt.startswith("core::result::Result") and rv.get("variant") == "Err") or \
                   (adt.startswith("core::ops::control_flow::ControlFlow") and rv.get("variant") == "Break"):
                    for f in rv["fields"]:
                        p = op_place(f)
                        if p is not None and self._carrier_place(p, car):
                            made = True
                    if made:
                        n_known = 1
            for m_, v_ in ((known, n_known), (bools, n_bool), (eoi, n_eoi), (discr_of, n_discr)):
                if v_ is None:
                    m_.pop(dst, None)
                else:
                    m_[dst] = v_
            if made:
                car.add(dst)
            else:
                car.discard(dst)
        t = b["term"]
        k = t["k"]

        def state(nb):
            return (nb, 0, frozenset(car), frozenset(known.items()), frozenset(bools.items()),
                    frozenset(discr_of.items()), frozenset(eoi.items()))

        if k in ("goto", "drop", "assert", "yield"):
            return [state(t["t"])]
        if k == "return":
            self.n_paths += 1
            if 0 not in car:
                self.fail.append(("returns-without-error", bb))
            return []
        if k in ("unreachable",):
            return []
        if k in ("resume", "terminate", "coroutine_drop", "asm", "tailcall"):
            self.fail.append(("diverges", bb))
            return []
        if k == "call":
            name = cname(t)
            d = t["dest"]
            dl = pl_local(d) if isinstance(d, int) else None
            arg_car = []
            for a in t["args"]:
                p = op_place(a)
                arg_car.append(p is not None and self._carrier_place(p, car))
            if dl is not None:
                car.discard(dl)
                known.pop(dl, None)
                bools.pop(dl, None)
                eoi.pop(dl, None)
                discr_of.pop(dl, None)
            if any(arg_car) and dl is not None:
                if IS_EOI.match(name):
                    eoi[dl] = True
                elif IS_OTHER_KIND.match(name):
                    eoi[dl] = False       # true side: certainly not end-of-input (released); false side must still propagate
                elif CARRY_CALLS.match(name):
                    ok = True
                    if name.endswith("from_residual"):
                        ok = bool(RES_DECODE.match(fn.local_ty(dl)))
                    elif name.endswith("::from") or name.endswith("::into"):
                        ok = bool(ERR_DECODE.match(fn.local_ty(dl)) or RES_DECODE.match(fn.local_ty(dl)))
                    if ok:
                        car.add(dl)
                        if name.endswith("Try::branch"):
                            known[dl] = 1
                        elif RES_DECODE.match(fn.local_ty(dl)):
                            known[dl] = 1
                elif name == "core::result::Result::is_err":
                    bools[dl] = True
                elif name == "core::result::Result::is_ok":
                    bools[dl] = False
            if t.get("t") is None:
                self.fail.append(("diverges", bb))
                return []
            return [state(t["t"])]
        if k == "switch":
            p = op_place(t["d"])
            dl = pl_local(p) if p is not None and not pl_proj(p) else None
            val = None
            if dl is not None:
                if dl in eoi:
                    # only the end-of-input side must propagate; the other side is free
                    want = 1 if eoi[dl] else 0
                    self.guarded += 1
                    return [state(self._edge(t, want))]
                if dl in bools:
                    val = 1 if bools[dl] else 0
                elif dl in discr_of and discr_of[dl] in known:
                    val = known[discr_of[dl]]
            if val is not None:
                return [state(self._edge(t, val))]
            outs = []
            for s in fn.succ(bb):
                outs.append(state(s))
            return outs
        return []

    @staticmethod
    def _edge(t, val):
        for v, tg in t["ts"]:
            if int(v) == val:
                return tg
        return t["o"]


def closure_fn_of_operand(prog, fn, o):
    """The closure body passed as operand o (a closure aggregate built in fn), or None."""
    p = op_place(o)
    if p is None:
        c = o.get("k")
        if c is not None and "fn" in c:
            return prog.fns.get(c["fn"])
        # zero-sized closure constants print as constsym of closure type
        return None
    l = pl_local(p)
    for kind, bi, si, payload in [(x[2], x[0], x[1], x[3]) for x in fn.defs().get(l, [])]:
        if kind == "assign" and payload[2]["k"] == "agg" and payload[2].get("ak") == "closure":
            return prog.fns.get(payload[2].get("def"))
        if kind == "assign" and payload[2]["k"] == "use":
            return closure_fn_of_operand(prog, fn, payload[2]["x"])
    ty = fn.local_ty(l)
    m = re.search(r"\{closure@", ty)
    return None


# ------------------------------------------------------------------------------------------------ async bodies

def async_body(prog, fn):
    """The coroutine body of an `async fn` (its MIR is the post-transform state machine), or fn itself for a sync fn."""
    if fn is None:
        return None
    if is_coroutine_state_ty(fn.local_ty(0)):
        g = prog.fns.get(fn.path + "::{closure#0}")
        if g is not None:
            return g
    return fn


def upvar_params(prog, body):
    """For a coroutine body: {upvar index: (parent parameter index, name)} read off the parent's coroutine aggregate."""
    parent = prog.fns.get(body.b.get("parent") or "")
    out = {}
    if parent is None:
        return out
    for bi, si, s in parent.statements():
        if s[0] == "a" and s[2]["k"] == "agg" and s[2].get("ak") in ("coroutine", "closure") and (s[2].get("def") or "") == re.sub(r"#\d+$", "", body.path):
            for k, fo in enumerate(s[2]["fields"]):
                p = op_place(fo)
                if p is not None and not pl_proj(p) and 1 <= pl_local(p) <= parent.argc:
                    out[k] = (pl_local(p), parent.local_name(pl_local(p)))
    return out


class LogicalCFG:
    """CFG of a coroutine body with the state-machine plumbing undone: the dispatch switch in bb0 only enters the
    un-resumed start, and every suspension (`discriminant = N; return Pending`) continues at resume point N.  On this
    graph dominance / reachability mean what they mean in the source `async fn`.  For ordinary bodies it is the CFG."""

    def __init__(self, fn):
        self.fn = fn
        self.resume = {}
        self.is_co = False
        t0 = fn.blocks[0]["term"]
        if fn.argc >= 1 and is_coroutine_state_ty(fn.local_ty(1)) and t0["k"] == "switch":
            self.is_co = True
            self.dispatch = {int(v): tg for v, tg in t0["ts"]}
        self._succ = {}
        self._dom = None

    def succ(self, bb):
        if bb in self._succ:
            return self._succ[bb]
        fn = self.fn
        if not self.is_co:
            r = list(fn.succ(bb))
        elif bb == 0:
            r = [self.dispatch[0]] if 0 in self.dispatch else list(fn.succ(0))
        else:
            r = list(fn.succ(bb))
            if fn.blocks[bb]["term"]["k"] == "return":
                for s in fn.blocks[bb]["st"]:
                    if s[0] == "setdiscr" and int(s[2]) >= 3 and int(s[2]) in self.dispatch:
                        r = [self.dispatch[int(s[2])]]
        self._succ[bb] = r
        return r

    def reachable(self, src=0, avoid=()):
        seen = {src}
        st = [src]
        while st:
            x = st.pop()
            for s in self.succ(x):
                if s not in seen and s not in avoid and not self.fn.blocks[s].get("cleanup"):
                    seen.add(s)
                    st.append(s)
        return seen

    def can_reach(self, a, b, avoid=()):
        if a == b:
            return True
        return b in self.reachable(a, avoid)

    def dominators(self):
        if self._dom is not None:
            return self._dom
        reach = self.reachable(0)
        pred = {b: [] for b in reach}
        for b in reach:
            for s in self.succ(b):
                if s in reach:
                    pred[s].append(b)
        order = sorted(reach)
        dom = {b: set(reach) for b in reach}
        dom[0] = {0}
        changed = True
        while changed:
            changed = False
            for b in order:
                if b == 0:
                    continue
                ps = pred[b]
                if not ps:
                    continue
                new = set.intersection(*[dom[p] for p in ps]) | {b}
                if new != dom[b]:
                    dom[b] = new
                    changed = True
        self._dom = dom
        return dom

    def dominates(self, a, b):
        return a in self.dominators().get(b, ())

    def in_loop(self, bb):
        return any(self.can_reach(s, bb) for s in self.succ(bb))


def named_field_path(fn, o, max_hops=8):
    """(root key, [field names/indices]) of the place an operand reads, following single-definition temporaries
    (`_7 = copy _4`, `_x = &(*_s).a.b`).  Field-sensitive counterpart of Origins for one value."""
    og = Origins(fn)
    p = op_place(o)
    fields = []
    hops = 0
    while p is not None and hops < max_hops:
        hops += 1
        proj = pl_proj(p)
        l = pl_local(p)
        here = []
        key = og._key(p)
        skip = 0
        if isinstance(key, tuple):
            # drop the projections that only select the coroutine slot
            n = 0
            for e in proj:
                if e[0] in ("downcast", "field"):
                    n += 1
                    if (key[0] == "cs" and n == 2) or (key[0] == "up" and n == 1):
                        skip = proj.index(e) + 1
                        break
        for e in proj[skip:]:
            if e[0] == "field":
                here.append(e[2] if e[2] is not None else e[1])
        fields = here + fields
        if isinstance(key, tuple):
            ds = og.defs().get(key, [])
            if len(ds) == 1 and ds[0][0] == "st" and ds[0][3][2]["k"] in ("use", "ref", "rawptr", "cast"):
                rv = ds[0][3][2]
                p = rv["p"] if rv["k"] in ("ref", "rawptr") else op_place(rv["x"])
                continue
            return key, fields
        ds = og.defs().get(l, [])
        if len(ds) == 1 and ds[0][0] == "st" and ds[0][3][2]["k"] in ("use", "ref", "rawptr", "cast") and not (1 <= l <= fn.argc):
            rv = ds[0][3][2]
            q = rv["p"] if rv["k"] in ("ref", "rawptr") else op_place(rv["x"])
            if q is None:
                return l, fields
            p = q
            continue
        return l, fields
    return None, fields


# ------------------------------------------------------------------------------------------------ symbolic values incl. coroutine slots

class SymX:
    """Symbolic expansion of MIR values like Fn.sym_operand, but it also looks through the saved locals of a coroutine
    body (`(*state as variant).idx`), so `let channel = channel | mode; … .await … use(channel)` expands to the `|`."""

    def __init__(self, fn, depth=40):
        self.fn = fn
        self.og = Origins(fn)
        self.depth = depth

    def operand(self, o, d=None):
        d = self.depth if d is None else d
        c = o.get("k")
        if c is not None:
            if "v" in c:
                return ("const", c["v"], c["ty"])
            if "fn" in c:
                return ("fnconst", c["fn"])
            return ("constsym", c.get("sym"), c["ty"])
        p = op_place(o)
        if p is None:
            return ("unknown",)
        return self.place(p, d)

    def place(self, p, d):
        fn = self.fn
        key = self.og._key(p)
        proj = pl_proj(p)
        rest = proj
        if isinstance(key, tuple):
            n = 0
            for i, e in enumerate(proj):
                if e[0] in ("downcast", "field"):
                    n += 1
                    if (key[0] == "cs" and n == 2) or (key[0] == "up" and n == 1):
                        rest = proj[i + 1:]
                        break
            base = ("upvar", key[1]) if key[0] == "up" else self._slot(key, d)
        else:
            l = key
            base = self._slot(l, d)
        for e in rest:
            k = e[0]
            if k == "deref":
                base = base[1] if base[0] == "ref" else ("deref", base)
            elif k == "field":
                if base[0] == "agg" and base[3] is not None and e[1] < len(base[3]):
                    base = base[3][e[1]]
                else:
                    base = ("field", base, e[2] if e[2] is not None else e[1])
            elif k == "downcast":
                base = ("downcast", base, e[2] if e[2] is not None else e[1])
            elif k == "index":
                base = ("index", base, self._slot(e[1], d - 1))
            elif k == "cindex":
                base = ("index", base, ("const", e[1], "usize")) if not e[3] else ("cindex", base, e[1], e[3])
            else:
                base = (k, base)
        return base

    def _slot(self, key, d):
        fn = self.fn
        if isinstance(key, int) and 1 <= key <= fn.argc and not is_coroutine_state_ty(fn.local_ty(key)):
            return ("param", key, fn.local_name(key))
        if d <= 0:
            return ("local", key, None)
        ds = self.og.defs().get(key, [])
        if len(ds) != 1:
            return ("local", key, fn.local_name(key) if isinstance(key, int) else None)
        kind, bi, si, payload = ds[0]
        if kind == "call":
            t = payload
            return ("call", t.get("f") or t.get("g") or "<indirect>", tuple(self.operand(a, d - 1) for a in t["args"]), bi)
        rv = payload[2]
        k = rv["k"]
        if k == "use":
            return self.operand(rv["x"], d - 1)
        if k in ("ref", "rawptr"):
            return ("ref", self.place(rv["p"], d - 1))
        if k == "cast":
            return ("cast", self.operand(rv["x"], d - 1), rv["from"], rv["to"], rv["ck"])
        if k == "bin":
            return ("bin", rv["op"], self.operand(rv["l"], d - 1), self.operand(rv["r"], d - 1))
        if k == "un":
            return ("un", rv["op"], self.operand(rv["x"], d - 1))
        if k == "discr":
            return ("discr", self.place(rv["p"], d - 1))
        if k == "agg":
            fields = tuple(self.operand(f, d - 1) for f in rv["fields"])
            if rv["ak"] == "adt":
                return ("agg", rv["adt"], rv["variant"], fields)
            return ("agg", rv["ak"], rv.get("def"), fields)
        if k == "repeat":
            return ("repeat", self.operand(rv["x"], d - 1), rv.get("n"))
        return ("other", k)


def edge_dominates(L, S, s, B):
    """Does every (logical) path from the entry to block B traverse the edge S -> s?"""
    if B == s and False:
        return True
    seen = {0}
    st = [0]
    while st:
        x = st.pop()
        if x == B:
            return False
        for y in L.succ(x):
            if x == S and y == s:
                continue
            if y not in seen and not L.fn.blocks[y].get("cleanup"):
                seen.add(y)
                st.append(y)
    return B not in seen


def slice_keys(fn, o, transparent=None, opaque=None):
    """Slicing keys (locals / coroutine slots / upvars) visited by the backward slice of operand o."""
    og = Origins(fn, extra_transparent=transparent, opaque=opaque)
    out = set()
    seen = set()
    og._operand(o, out, seen, [0])
    return seen, out
