#!/usr/bin/env python3
"""Prints candidate `raw` / `defindef` rows for tables/keepraw_fields.json from the current tree (review before use;
the check itself never writes tables).  Usage: python3 tools/c06_suggest_table.py"""
import json
import os
import sys

sys.path.insert(0, os.path.join(os.path.dirname(os.path.abspath(__file__)), ".."))
from pv import facts
from pv.x_codec import parse_type, type_str
from pv.x_preserve import Classes, fields_of

from rules.C06 import in_scope, load_preserve_table, row_status, CRATE


def main():
    table = load_preserve_table()
    data = facts.load_crate(CRATE, "default")
    adts = {a["path"]: a for a in data["items"]["adts"]}
    K = Classes(table, CRATE + "::", adts)
    rows = {"raw": [], "defindef": []}
    for path, a in sorted(adts.items()):
        if not in_scope(a):
            continue
        cand = set()
        for fk, vname, fname, ty in fields_of(a):
            t = parse_type(ty)
            for n, anc in K.occurrences(t):
                if K.cls(n) not in ("leaf", "adt") and n[0] != "tuple":
                    continue
                if not anc:
                    continue
                # payload position: every node between the nearest raw/preserving wrapper and n is itself a wrapper ADT
                i = len(anc) - 1
                while i >= 0 and anc[i][0] in ("lossy", "transparent") and anc[i][1] not in ("tuple", "array"):
                    i -= 1
                if i < 0 or anc[i][0] not in ("raw", "preserving"):
                    continue
                kind = "raw" if any(c == "raw" for c, _ in anc) else "defindef"
                cand.add((kind, type_str(n), vname if a.get("kind") == "Enum" else None))
        for kind, holds, variant in sorted(cand, key=lambda x: (x[0], x[1], x[2] or "")):
            row = {"in": path, "holds": holds}
            st = row_status(K, adts, row, kind)
            if st[0] != "ok" and variant:
                row["variant"] = variant
                st = row_status(K, adts, row, kind)
            if st[0] == "ok" and row not in rows[kind]:
                rows[kind].append(row)
    print(json.dumps(rows, indent=1))


if __name__ == "__main__":
    main()
