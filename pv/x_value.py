"""Helpers for the value-conservation (C34) and size/fee (C36) rules.

  * exact-arithmetic census: every construct in a closure that computes on 64/128-bit quantities and can silently leave the
    integers (MIR Assert{Overflow} sites = wrap in release, operator-trait calls on primitives or on a generic `T`, explicit
    wrapping_/saturating_/overflowing_ ops, Iterator::sum/product, lossy `as` casts), with CFG-verified discharge;
  * success guards: "this point is only reached when call c returned Ok" (Try::branch / match / is_ok / is_err spellings);
  * polynomial normal form of symbolic integer expressions (casts and `.0` of checked ops are transparent);
  * additive ingredients of a ledger `Value` (which sources flow, through the value-adding helpers, into a sum).

Nothing here executes pallas code; everything reads MIR facts."""
import re

from .mir import sym_str, sym_walk, short_path, op_place, pl_local, pl_proj, _INT_RANGE
from . import guards, panic
from .panic import strip_generics, Site

QUANT_TYS = ("u64", "i64", "u128", "i128")
_PRIM = r"(?:u8|u16|u32|u64|u128|usize|i8|i16|i32|i64|i128|isize)"

# ------------------------------------------------------------------------------------------------ small utilities


def cname(t):
    return strip_generics(t.get("f") or t.get("g") or "<indirect>")


def strip_refs(s):
    while s[0] in ("ref", "deref"):
        s = s[1]
    return s


def is_arith_trait(name):
    """`u64 as core::ops::arith::Mul::mul`, `&i64 as core::ops::arith::Add::add`, `core::ops::arith::Add::add` (generic)."""
    m = re.search(r"(?:^|(?P<ty>\S+) as )core::ops::arith::(?P<tr>Add|Sub|Mul|Neg)(?P<asg>Assign)?::(?P<m>\w+)$", name)
    if not m:
        return None
    return m.group("tr"), (m.group("ty") or "").lstrip("&"), bool(m.group("asg"))


def is_widening_conv(name):
    """<u128 as From<u64>>::from / <u64 as Into<u128>>::into between primitive integers (value preserving by construction:
    std only implements the lossless ones)."""
    return re.search(r"^%s as core::convert::(From::from|Into::into)$|^core::convert::num::(from|into)$" % _PRIM, name) is not None


def widening_source(full):
    """Source integer type of a lossless From/Into conversion, from the callee's full path."""
    m = re.search(r"From<(%s)> for %s>::from$" % (_PRIM, _PRIM), full) or re.search(r"as core::convert::From<(%s)>>::from$" % _PRIM, full) or \
        re.search(r"^<(%s) as core::convert::Into<%s>>::into$" % (_PRIM, _PRIM), full)
    return m.group(1) if m else None


# ------------------------------------------------------------------------------------------------ exact-arithmetic census

_EXPLICIT_INEXACT = re.compile(r"^core::num::(?:wrapping|saturating|overflowing|unchecked|carrying|borrowing|strict)_"
                               r"(add|sub|mul|neg|pow|abs|add_signed|sub_unsigned|add_unsigned)$|^core::num::(pow|abs|abs_diff|unsigned_abs)$")
_DEFAULTING = re.compile(r"^core::(option::Option|result::Result)::(unwrap_or|unwrap_or_default|unwrap_or_else)$")
_FALLIBLE_NUM = re.compile(r"^core::num::checked_\w+$|(^| as )core::convert::(TryFrom::try_from|TryInto::try_into)$|^core::convert::num::.*try_from$")
_SUM = re.compile(r"^core::iter::traits::iterator::Iterator::(sum|product)$")


def _operand_ty(fn, o):
    return panic._operand_ty(fn, o)


def _mk(fn, bi, kind, sig, detail, line, expn, term, counts):
    s = Site()
    s.fn, s.bb, s.kind, s.sig, s.detail, s.line, s.expn, s.term = fn, bi, kind, sig, detail, line, expn, term
    k = (kind, sig)
    s.ordinal = counts.get(k, 0)
    counts[k] = s.ordinal + 1
    return s


def lossy_cast(frm, to):
    if frm not in _INT_RANGE or to not in _INT_RANGE:
        return False
    (flo, fhi), (tlo, thi) = _INT_RANGE[frm], _INT_RANGE[to]
    return flo < tlo or fhi > thi


def exact_sites(fn):
    """Sites of one body where a 64/128-bit (or generic) quantity computation can leave the integers."""
    out = []
    counts = {}
    for bi in fn.live_blocks():
        b = fn.blocks[bi]
        for si, s in enumerate(b["st"]):
            if s[0] == "a" and s[2]["k"] == "cast" and s[2].get("ck") == "IntToInt":
                rv = s[2]
                if rv["from"] in QUANT_TYS and lossy_cast(rv["from"], rv["to"]):
                    x = fn.sym_operand(rv["x"])
                    if x[0] == "const":
                        continue
                    st = _mk(fn, bi, "Cast", "%s->%s" % (rv["from"], rv["to"]), sym_str(x, 120), s[3][0] if len(s) > 3 else 0,
                             s[3][1] if len(s) > 3 else None, {"k": "cast", "x": rv["x"], "from": rv["from"], "to": rv["to"], "si": si}, counts)
                    out.append(st)
        t = b["term"]
        if t["k"] == "assert":
            kind = t["kind"]
            m = re.match(r"^Overflow:(Add|Sub|Mul)$", kind)
            if m or kind == "OverflowNeg":
                ty = _operand_ty(fn, t["ops"][0]) or "?"
                if ty in QUANT_TYS:
                    ops = ", ".join(sym_str(fn.sym_operand(o), 80) for o in t["ops"])
                    out.append(_mk(fn, bi, kind, panic._assert_sig(fn, t), ops, t["s"][0], t["s"][1], t, counts))
        elif t["k"] in ("call", "tailcall"):
            name = cname(t)
            sp = t.get("s") or [0, None]
            detail = ", ".join(sym_str(fn.sym_operand(a), 80) for a in t.get("args", []))
            at = is_arith_trait(name)
            if at:
                tr, ty, _ = at
                selfty = (t.get("selfty") or ty or "").lstrip("&")
                selfty = re.sub(r"^'\w+ ", "", selfty)
                if selfty in QUANT_TYS:
                    out.append(_mk(fn, bi, "ArithTrait:" + tr, selfty, detail, sp[0], sp[1], t, counts))
                elif re.match(r"^[A-Z]\w*$", selfty) and not t.get("f"):
                    # operator on a type parameter: the body is instantiated with whatever the callers choose
                    out.append(_mk(fn, bi, "ArithGeneric:" + tr, selfty, detail, sp[0], sp[1], t, counts))
                continue
            full = t.get("ffull") or t.get("gfull") or ""
            if _EXPLICIT_INEXACT.search(name):
                m = re.search(r"core::num::<impl (\w+)>", full)
                ty = m.group(1) if m else "?"
                if ty in QUANT_TYS or ty == "?":
                    out.append(_mk(fn, bi, "Inexact:" + name.split("::")[-1], ty, detail, sp[0], sp[1], t, counts))
                continue
            if _DEFAULTING.search(name) and t.get("args"):
                recv = fn.sym_operand(t["args"][0])
                if any(x[0] == "call" and _FALLIBLE_NUM.search(strip_generics(x[1])) for x in sym_walk(recv)):
                    out.append(_mk(fn, bi, "Defaulted:" + name.split("::")[-1], "checked", detail, sp[0], sp[1], t, counts))
                continue
            if _SUM.search(name):
                targs = t.get("targs") or []
                ty = targs[-1] if targs else "?"
                if ty in QUANT_TYS or not re.match(r"^%s$" % _PRIM, ty):
                    out.append(_mk(fn, bi, "IterSum:" + name.split("::")[-1], ty, detail, sp[0], sp[1], t, counts))
    return out


# -- magnitude bounds for 128-bit widened arithmetic ---------------------------------------------------------------

def _mag_bound(fn, sym, depth=6, seen=()):
    """An integer B with |value| <= B guaranteed by construction, or None.  Values widened from a <=64-bit type are below
    2^64; an accumulator local (all of whose definitions are constants or itself plus/minus a bounded term) is bounded by
    2^64 iterations (an in-memory collection cannot be longer) times the term bound."""
    if depth <= 0:
        return None
    s = strip_refs(sym)
    k = s[0]
    if k == "const":
        try:
            return abs(int(s[1]))
        except (TypeError, ValueError):
            return None
    if k == "cast":
        frm = s[2]
        inner = _mag_bound(fn, s[1], depth - 1, seen)
        if frm in _INT_RANGE and _INT_RANGE[frm][1] < 2 ** 64:
            tmax = max(abs(_INT_RANGE[frm][0]), _INT_RANGE[frm][1])
            return tmax if inner is None else min(inner, tmax)
        return inner
    if k == "call" and is_widening_conv(strip_generics(s[1])) and len(s[2]) == 1:
        src = widening_source(s[1])
        inner = _mag_bound(fn, s[2][0], depth - 1, seen)
        if src in _INT_RANGE and _INT_RANGE[src][1] < 2 ** 64:
            tmax = max(abs(_INT_RANGE[src][0]), _INT_RANGE[src][1])
            return tmax if inner is None else min(inner, tmax)
        return inner
    if k == "field" and s[2] in (0, "0") and s[1][0] == "bin" and s[1][1].endswith("WithOverflow"):
        return _mag_bound(fn, ("bin", s[1][1][:-12], s[1][2], s[1][3]), depth, seen)
    if k == "bin" and s[1] in ("Add", "Sub", "Mul"):
        a, b = _mag_bound(fn, s[2], depth - 1, seen), _mag_bound(fn, s[3], depth - 1, seen)
        if a is None or b is None:
            return None
        return a * b if s[1] == "Mul" else a + b
    if k == "local" and len(s) > 1 and s[1] not in seen:
        l = s[1]
        terms = []
        for bi, si, kind, payload in fn.defs().get(l, []):
            if kind != "assign":
                return None
            rv = payload[2]
            e = fn.sym_rvalue(rv, 12)
            e = strip_refs(e)
            if e[0] == "field" and e[2] in (0, "0") and e[1][0] == "bin" and e[1][1].endswith("WithOverflow"):
                e = ("bin", e[1][1][:-12], e[1][2], e[1][3])
            if e[0] == "bin" and e[1] in ("Add", "Sub"):
                x, y = strip_refs(e[2]), strip_refs(e[3])
                other = None
                if x[0] == "local" and x[1] == l:
                    other = y
                elif y[0] == "local" and y[1] == l and e[1] == "Add":
                    other = x
                if other is not None:
                    bnd = _mag_bound(fn, other, depth - 1, seen + (l,))
                    if bnd is None:
                        return None
                    terms.append(bnd * (2 ** 64 - 1))
                    continue
            bnd = _mag_bound(fn, e, depth - 1, seen + (l,))
            if bnd is None:
                return None
            terms.append(bnd)
        return sum(terms) if terms else None
    return None


def discharge_exact(site):
    """Reason string if the site provably stays within the integers, else None."""
    fn, t, k = site.fn, site.term, site.kind
    if k.startswith("Overflow:") or k == "OverflowNeg":
        r = panic.auto_discharge(site)
        if r:
            return r
        ty = _operand_ty(fn, t["ops"][0])
        if ty in ("u128", "i128") and k != "OverflowNeg":
            op = k.split(":")[1]
            a, b = (_mag_bound(fn, fn.sym_operand(o)) for o in t["ops"])
            if a is not None and b is not None:
                v = a * b if op == "Mul" else a + b
                if v <= _INT_RANGE[ty][1]:
                    if op == "Sub" and ty == "u128":
                        return None      # unsigned subtraction needs a guard, handled by auto_discharge
                    return "128-bit widened arithmetic: operands bounded by construction (|result| <= %s::MAX)" % ty
        return None
    if k == "Cast":
        x = fn.sym_operand(t["x"])
        facts = guards.facts_at(fn, site.bb)
        end = (site.bb, t["si"])
        facts = [f for f in facts if not guards._killed(fn, f, end)]
        frm, to = t["from"], t["to"]
        tlo, thi = _INT_RANGE[to]
        flo, fhi = _INT_RANGE[frm]
        need_lo = flo < tlo
        need_hi = fhi > thi
        ok_lo = not need_lo
        ok_hi = not need_hi
        for f in facts:
            for op, l, r in f.oriented():
                if l != x or r[0] != "const":
                    continue
                try:
                    c = int(r[1])
                except (TypeError, ValueError):
                    continue
                if op == "Ge" and c >= tlo or op == "Gt" and c >= tlo - 1:
                    ok_lo = True
                if op == "Le" and c <= thi or op == "Lt" and c <= thi + 1:
                    ok_hi = True
                if op == "Eq" and tlo <= c <= thi:
                    ok_lo = ok_hi = True
        if not ok_hi:
            ub = panic._upper_bound(x, facts)
            if ub is not None and ub <= thi:
                ok_hi = True
        if ok_lo and ok_hi:
            return "dominating guard bounds the operand inside %s" % to
        return None
    return None


def _base_ty(ty):
    ty = re.sub(r"^(&(?:'\w+ )?(?:mut )?)+", "", (ty or "").strip())
    out, d = [], 0
    for ch in ty:
        if ch == "<":
            d += 1
        elif ch == ">":
            d -= 1
        elif d == 0:
            out.append(ch)
    return "".join(out).strip()


def refined_callees(prog, f):
    """prog.callees(f) without the class-hierarchy edges that cannot exist: an unresolved trait-method call whose receiver type
    is concrete (`<i128 as From<A>>::from`, `<Vec<T> as Clone>::clone`) can only dispatch to impls for that very type, so
    workspace impls for other self types are dropped.  A receiver that is a type parameter / dyn / opaque type stays
    conservative (all workspace impls of the method)."""
    out = []
    for g, t, bi in prog.callees(f):
        if t.get("f") is None and t.get("selfty") and g.b.get("impl_self"):
            base = _base_ty(t["selfty"])
            generic = bool(re.match(r"^[A-Z]\w*$", base)) or base.startswith(("dyn ", "impl ")) or base in ("Self",) or not base
            if not generic and base != _base_ty(g.b["impl_self"]):
                continue
        out.append(g)
    return out + prog.closure_children(f)


def refined_closure(prog, entries, stop=None):
    seen = {}
    work = []
    for e in entries:
        if e.path not in seen:
            seen[e.path] = (e, None)
            work.append(e)
    while work:
        f = work.pop()
        for g in refined_callees(prog, f):
            if g.path in seen or (stop and stop(g)):
                continue
            seen[g.path] = (g, f.path)
            work.append(g)
    return seen


def exact_census(prog, entries, stop=None):
    closure = refined_closure(prog, entries, stop=stop)
    sites = []
    for path, (fn, parent) in closure.items():
        sites.extend(exact_sites(fn))
    return closure, sites


# ------------------------------------------------------------------------------------------------ success guards

def ok_sources(fn):
    """Program points where the return place may receive an Ok-capable value: [(bb, how)].
    `_0 = Ok(..)`, `_0 = <call>` for any call that is not from_residual / an Err constructor, `_0 = move local`."""
    out = []
    for bi in fn.live_blocks():
        b = fn.blocks[bi]
        for si, s in enumerate(b["st"]):
            if s[0] != "a" or pl_local(s[1]) != 0:
                continue
            rv = s[2]
            if rv["k"] == "agg" and rv.get("ak") == "adt" and rv["adt"] == "core::result::Result":
                if rv["variant"] == "Ok":
                    out.append((bi, "Ok(..)"))
                continue
            out.append((bi, "assign"))
        t = b["term"]
        if t["k"] == "call" and pl_local(t["dest"]) == 0:
            n = cname(t)
            if n.endswith("FromResidual::from_residual"):
                continue
            out.append((bi, "call " + short_path(n)))
    return out


def ok_line(fn, bb):
    """Source line of the statement / call that writes the return place in block bb."""
    for st in fn.blocks[bb]["st"]:
        if st[0] == "a" and pl_local(st[1]) == 0 and len(st) > 3:
            return st[3][0]
    t = fn.blocks[bb]["term"]
    return (t.get("s") or [fn.line])[0]


def _call_in(sym, pred):
    for sub in sym_walk(sym):
        if sub[0] == "call" and pred(sub[1]):
            return sub
    return None


def success_facts(fn, bb, pred, after_call=False):
    """Calls c (callee satisfying pred) such that control can only be at the entry of bb (after_call: at its terminator's
    successor) if c returned Ok/true: list of call syms."""
    out = []
    for f in guards.facts_at(fn, bb, kill=False):
        for op, l, r in f.oriented():
            if r[0] != "const":
                continue
            try:
                c = int(r[1])
            except (TypeError, ValueError):
                continue
            ll = l
            if ll[0] == "discr":
                hit = _call_in(ll[1], pred)
                if hit is not None and ((op == "Eq" and c == 0) or (op == "Ne" and c == 1)):
                    # discriminant 0 = Ok / Continue; make sure nothing between the call and the discriminant maps Err to Ok
                    if _only_transparent_to(ll[1], hit):
                        out.append(hit)
            elif ll[0] == "call":
                n = strip_generics(ll[1])
                if n.endswith("Result::is_ok") and ((op == "Eq" and c == 1) or (op == "Ne" and c == 0)):
                    hit = _call_in(ll[2][0], pred)
                    if hit is not None and _only_transparent_to(ll[2][0], hit):
                        out.append(hit)
                elif n.endswith("Result::is_err") and ((op == "Eq" and c == 0) or (op == "Ne" and c == 1)):
                    hit = _call_in(ll[2][0], pred)
                    if hit is not None and _only_transparent_to(ll[2][0], hit):
                        out.append(hit)
                elif pred(ll[1]) and ((op == "Eq" and c == 1) or (op == "Ne" and c == 0)):
                    out.append(ll)      # boolean predicate returned true
    return out


_RESULT_TRANSPARENT = re.compile(r"(Try::branch|::as_ref|::as_mut|::map_err|::clone)$")


def _only_transparent_to(sym, hit):
    """Between `sym` and the call `hit` inside it there are only refs/fields/downcasts and Result-preserving calls."""
    s = sym
    while True:
        if s is hit or s == hit:
            return True
        k = s[0]
        if k in ("ref", "deref", "downcast", "field", "cast"):
            s = s[1]
        elif k == "call" and _RESULT_TRANSPARENT.search(strip_generics(s[1])) and s[2]:
            s = s[2][0]
        else:
            return False


def must_succeed(prog, fn, targets, depth=3, _memo=None):
    """Does every Ok-capable return of `fn` require that some function of `targets` (a set of paths) returned Ok?
    Returns (True, why) / (False, why-not).  A workspace callee that itself satisfies this counts like a target."""
    if _memo is None:
        _memo = {}
    if fn.path in _memo:
        return _memo[fn.path]
    _memo[fn.path] = (False, "recursion")
    if fn.path in targets:
        _memo[fn.path] = (True, "is the rule function")
        return _memo[fn.path]
    good = set(targets)
    if depth > 0:
        for g, t, bi in prog.callees(fn):
            if g.path not in good and g.path != fn.path and g.kind not in ("Closure",):
                ok, _ = must_succeed(prog, g, targets, depth - 1, _memo)
                if ok:
                    good.add(g.path)
    srcs = ok_sources(fn)
    if not srcs:
        _memo[fn.path] = (False, "no Ok-capable return found")
        return _memo[fn.path]
    pred = lambda callee: (callee in good)
    n_direct = 0
    for bi, how in srcs:
        t = fn.blocks[bi]["term"]
        if how.startswith("call") and (t.get("f") in good):
            n_direct += 1
            continue            # the rule function's own Result is returned
        if success_facts(fn, bi, pred):
            continue
        if how == "assign":
            # `_0 = move x` where x is the result of a target call
            ok_ = False
            for si, s in enumerate(fn.blocks[bi]["st"]):
                if s[0] == "a" and pl_local(s[1]) == 0:
                    v = fn.sym_rvalue(s[2], 20)
                    hit = _call_in(v, pred)
                    if hit is not None and _only_transparent_to(v, hit):
                        ok_ = True
            if ok_:
                continue
        _memo[fn.path] = (False, "an Ok-capable return (%s, bb%d, line %s) is reachable without a successful call" % (
            how, bi, (fn.blocks[bi]["term"].get("s") or ["?"])[0]))
        return _memo[fn.path]
    _memo[fn.path] = (True, "%d Ok-capable return(s), each only reachable after the rule function returned Ok" % len(srcs))
    return _memo[fn.path]


# ------------------------------------------------------------------------------------------------ error-variant anchors

def constructs_variant(fn, adt_rx, variant):
    rx = re.compile(adt_rx)
    for bi, si, s in fn.statements():
        if s[0] == "a" and s[2]["k"] == "agg" and s[2].get("ak") == "adt" and rx.search(s[2]["adt"]) and s[2]["variant"] == variant:
            return True
    return False


def fns_constructing(prog, crate, mod_rx, adt_rx, variant):
    rx = re.compile(mod_rx)
    return [f for f in prog.by_crate.get(crate, []) if rx.search(f.path) and "::tests::" not in f.path and constructs_variant(f, adt_rx, variant)]


# ------------------------------------------------------------------------------------------------ polynomial normal form

def _padd(a, b, sign=1):
    out = dict(a)
    for m, c in b.items():
        out[m] = out.get(m, 0) + sign * c
        if out[m] == 0:
            del out[m]
    return out


def _pmul(a, b):
    out = {}
    for m1, c1 in a.items():
        for m2, c2 in b.items():
            m = tuple(sorted(m1 + m2, key=repr))
            out[m] = out.get(m, 0) + c1 * c2
            if out[m] == 0:
                del out[m]
    return out


def poly(sym, leaf=None):
    """Polynomial over opaque leaves: {monomial(tuple of leaf keys): coefficient}.  Integer casts, widening conversions, refs and
    the value component of checked operations are transparent (their *range* behaviour is the arithmetic census' business)."""
    s = strip_refs(sym)
    k = s[0]
    if k == "const":
        try:
            v = int(s[1])
        except (TypeError, ValueError):
            return {((("opaque", repr(s)),)): 1}
        return {(): v} if v else {}
    if k == "cast" and s[4] == "IntToInt":
        return poly(s[1], leaf)
    if k == "field" and s[2] in (0, "0") and s[1][0] == "bin" and s[1][1].endswith("WithOverflow"):
        return poly(("bin", s[1][1][:-12], s[1][2], s[1][3]), leaf)
    if k == "bin" and s[1] in ("Add", "Sub", "Mul", "AddUnchecked", "SubUnchecked", "MulUnchecked"):
        a, b = poly(s[2], leaf), poly(s[3], leaf)
        op = s[1][:3]
        return _padd(a, b) if op == "Add" else _padd(a, b, -1) if op == "Sub" else _pmul(a, b)
    if k in ("field", "downcast", "call"):
        u = unwrap_chain(s)
        if u[0] == "call" and len(u[2]) == 2:
            m = re.search(r"^core::num::checked_(add|sub|mul)(_signed|_unsigned)?$", strip_generics(u[1]))
            if m and (u is not s or True):
                # the carried value of a checked operation that returned Some
                a, b = poly(u[2][0], leaf), poly(u[2][1], leaf)
                return _padd(a, b) if m.group(1) == "add" else _padd(a, b, -1) if m.group(1) == "sub" else _pmul(a, b)
        if u[0] == "call":
            c = _carried_through(u)
            if c is not None:
                return poly(c, leaf)
    if k == "call":
        n = strip_generics(s[1])
        at = is_arith_trait(n)
        if at and len(s[2]) == 2 and not at[2]:
            a, b = poly(s[2][0], leaf), poly(s[2][1], leaf)
            return _padd(a, b) if at[0] == "Add" else _padd(a, b, -1) if at[0] == "Sub" else _pmul(a, b)
        if is_widening_conv(n) and len(s[2]) == 1:
            return poly(s[2][0], leaf)
        if re.search(r"::(clone|deref|borrow|as_ref)$", n) and len(s[2]) == 1:
            return poly(s[2][0], leaf)
    key = leaf(s) if leaf else s
    if isinstance(key, dict):
        return key
    return {(key,): 1}


def _subst_env(sym, captures):
    """In a closure body: replace reads of the environment's k-th captured variable by the captured expression."""
    if not isinstance(sym, tuple) or not sym:
        return sym
    if sym[0] == "field" and isinstance(sym[1], tuple):
        r = strip_refs(sym[1])
        if r and r[0] == "param" and r[1] == 1:
            try:
                kx = int(sym[2])
            except (TypeError, ValueError):
                kx = None
            if kx is not None and kx < len(captures):
                return captures[kx]
    if isinstance(sym[0], str):
        return tuple(_subst_env(x, captures) if isinstance(x, tuple) else x for x in sym)
    return tuple(_subst_env(x, captures) for x in sym)


def _carried_through(u, budget=3):
    """The value carried by `u` when it is Some/Ok, for two transparent shapes: `x.and_then(|v| f(v))` / `x.map(|v| f(v))`
    with a straight-line closure (the closure's result with v := the value carried by x), and a call to a straight-line
    workspace helper (its result with the parameters replaced by the arguments).  None otherwise."""
    from .mir import _PROGRAM
    prog = _PROGRAM[0]
    if prog is None or budget <= 0:
        return None
    n = strip_generics(u[1])
    if re.search(r"(Option|Result)::(and_then|map)$", n) and len(u[2]) == 2:
        c = unwrap_chain(u[2][1])
        if c[0] == "agg" and c[1] == "closure":
            cf = prog.get(c[2])
            if cf is None:
                return None
            from .tabulate import tabulate
            try:
                paths = [p for p in tabulate(cf, prog, 8) if p.end == "return"]
            except Exception:
                return None
            if len(paths) != 1 or paths[0].conds or paths[0].ret is None:
                return None
            body = _subst_env(paths[0].ret, list(c[3]))
            return sym_subst(body, {2: u[2][0]})
        return None
    if prog.get(u[1]) is not None:
        return inline_pure(prog, u)
    return None


def poly_str(p):
    if not p:
        return "0"
    parts = []
    for m, c in sorted(p.items(), key=lambda x: repr(x[0])):
        ms = "*".join(x if isinstance(x, str) else sym_str(x, 60) for x in m) or "1"
        parts.append(("%+d*" % c if c not in (1,) else "+") + ms if m else "%+d" % c)
    return " ".join(parts)


# ------------------------------------------------------------------------------------------------ resolved expansion

def expand_locals(fn, sym, depth=8, seen=()):
    """All leaf-complete variants of `sym` where multi-definition locals are replaced by each of their definitions
    (bounded).  Used to look *through* `let mut` accumulators and iterator variables for role markers."""
    out = [sym]
    if depth <= 0:
        return out
    res = []
    locs = []
    for sub in sym_walk(sym):
        if sub[0] == "local" and len(sub) > 1 and sub[1] not in seen and sub[1] not in locs:
            locs.append(sub[1])
    for l in locs:
        for bi, si, kind, payload in fn.defs().get(l, []):
            if kind == "call":
                t = payload
                e = ("call", t.get("f") or t.get("g") or "<indirect>", tuple(fn.sym_operand(a) for a in t["args"]), bi)
            elif kind == "assign":
                e = fn.sym_rvalue(payload[2], 30)
            else:
                continue
            res.append(e)
            res.extend(expand_locals(fn, e, depth - 1, seen + (l,))[1:])
    return out + res


def param_ty(fn, i):
    return fn.local_ty(i) if 1 <= i <= fn.argc else None


# ------------------------------------------------------------------------------------------------ origins

UNWRAP = re.compile(r"(Try::branch|Option::ok_or|Option::ok_or_else|Option::unwrap|Option::expect|Result::unwrap|Result::expect|"
                    r"Option::unwrap_or_default|Result::ok|Option::map_err|Result::map_err|::clone|::into|::from|::to_owned|::borrow|::deref|::as_ref)$")


def unwrap_chain(sym):
    """Strip refs, casts, `.0` of Some/Ok/Continue, and Result/Option-unwrapping calls: the value that is being carried."""
    s = sym
    while True:
        k = s[0]
        if k in ("ref", "deref", "cast", "downcast"):
            s = s[1]
        elif k == "field" and s[1][0] == "downcast" and s[1][2] in ("Some", "Ok", "Continue") and s[2] in (0, "0"):
            s = s[1][1]
        elif k == "call" and UNWRAP.search(strip_generics(s[1])) and s[2]:
            s = s[2][0]
        elif k == "agg" and s[1] in ("core::option::Option", "core::result::Result") and s[2] in ("Some", "Ok") and s[3]:
            s = s[3][0]
        else:
            return s


def local_defs(fn, l):
    out = []
    for bi, si, kind, payload in fn.defs().get(l, []):
        if kind == "call":
            t = payload
            out.append(("call", t.get("f") or t.get("g") or "<indirect>", tuple(fn.sym_operand(a) for a in t["args"]), bi))
        elif kind == "assign":
            out.append(fn.sym_rvalue(payload[2], 30))
    return out


def trace_origins(prog, fn, sym, depth=5, seen=None):
    """Where does the carried value come from?  Follows parameters up to every caller, multi-definition locals to each
    definition, and unwrapping chains.  Returns [(fn, sym)] with sym a call / aggregate / constant / unresolvable leaf."""
    if seen is None:
        seen = set()
    s = unwrap_chain(sym)
    key = (fn.path, repr(s)[:300])
    if key in seen or depth < 0:
        return []
    seen.add(key)
    if s[0] == "param":
        out = []
        callers = prog.callers_of("^" + re.escape(fn.path) + "$")
        for g, bi, t in callers:
            if s[1] - 1 < len(t["args"]):
                out.extend(trace_origins(prog, g, g.sym_operand(t["args"][s[1] - 1]), depth - 1, seen))
        return out or [(fn, s)]
    if s[0] == "local" and len(s) > 1:
        out = []
        for d in local_defs(fn, s[1]):
            out.extend(trace_origins(prog, fn, d, depth - 1, seen))
        return out or [(fn, s)]
    return [(fn, s)]


# ------------------------------------------------------------------------------------------------ relations from facts

def relations_at(fn, bb, target, leaf, at_term=False):
    """Which comparisons `E rel 0` with E == target (a polynomial, compared up to a positive/negative integer factor) are
    known at bb?  Returns a set of rel in {Lt, Le, Gt, Ge, Eq, Ne} oriented so that they speak about +target."""
    out = set()
    facts = guards.facts_at_term(fn, bb) if at_term else guards.facts_at(fn, bb)
    for f in facts:
        if f.op == "In":
            continue
        try:
            d = _padd(poly(f.l, leaf), poly(f.r, leaf), -1)
        except Exception:
            continue
        c = _proportional(d, target)
        if c is None:
            continue
        out.add(f.op if c > 0 else guards.SWAP[f.op])
    return out


def _proportional(d, target):
    if not d or not target or set(d) != set(target):
        return None
    c = None
    for m, v in target.items():
        if d[m] % v != 0 and v % d[m] != 0:
            return None
        r = d[m] / v
        if c is None:
            c = r
        elif c != r:
            return None
    return c


# ------------------------------------------------------------------------------------------------ inlining of pure helpers

def sym_subst(sym, mapping):
    """Replace ("param", i, name) leaves by mapping[i]."""
    if not isinstance(sym, tuple) or not sym:
        return sym
    if sym[0] == "param" and sym[1] in mapping:
        return mapping[sym[1]]
    if isinstance(sym[0], str):
        return tuple(sym_subst(x, mapping) if isinstance(x, tuple) else x for x in sym)
    return tuple(sym_subst(x, mapping) for x in sym)


def inline_pure(prog, sym, budget=2):
    """If sym is a call to a workspace function with exactly one (condition-free) return path, return that function's result
    expression with the parameters replaced by the arguments; else None.  (`fn min_fee(size, pps) -> u64 { a*size + b }`.)"""
    if sym[0] != "call" or budget <= 0:
        return None
    g = prog.get(sym[1]) if prog is not None else None
    if g is None or len(g.blocks) > 40:
        return None
    from .tabulate import tabulate
    try:
        paths = [p for p in tabulate(g, prog, 8) if p.end == "return"]
    except Exception:
        return None
    if len(paths) != 1 or paths[0].conds or paths[0].ret is None:
        return None
    # only arithmetic helpers: no calls other than arithmetic/conversions in the result
    mapping = {i + 1: a for i, a in enumerate(sym[2])}
    return sym_subst(paths[0].ret, mapping)


# ------------------------------------------------------------------------------------------------ additive ingredients

ADD2 = re.compile(r"^pallas_validate::utils::(conway_)?add_values$")
ADDM = re.compile(r"^pallas_validate::utils::(add_minted_value|conway_add_minted_value|conway_add_minted_non_zero)$")
EMPTYV = re.compile(r"^pallas_validate::utils::empty_value$")
_COLLECT = re.compile(r"::(push|push_back|insert|extend|extend_from_slice)$")
TXBODY_OTHER = ("withdrawals", "withdrawal", "donation", "treasury_value", "collateral", "collateral_return", "total_collateral",
                "certificates", "reference_inputs")


def _is_value_ty(ty):
    return ty is not None and re.search(r"::model::Value\b|::Value$|::Value>|::Value,", ty) is not None


def expansions(fn, sym, limit=400):
    """sym plus, transitively, every definition of every multi-definition local mentioned in it, and every value pushed /
    inserted into a local collection mentioned in it (Vec::push(&mut v, x) contributes x)."""
    out = []
    seen_l = set()
    work = [sym]
    pushes = None
    while work and len(out) < limit:
        s = work.pop()
        out.append(s)
        for sub in sym_walk(s):
            if sub[0] == "local" and len(sub) > 1 and sub[1] not in seen_l:
                l = sub[1]
                seen_l.add(l)
                work.extend(local_defs(fn, l))
                if pushes is None:
                    pushes = {}
                    for bi, t in fn.calls():
                        if _COLLECT.search(cname(t)) and t["args"]:
                            a0 = strip_refs(fn.sym_operand(t["args"][0]))
                            if a0[0] == "local":
                                pushes.setdefault(a0[1], []).extend(fn.sym_operand(a) for a in t["args"][1:])
                work.extend(pushes.get(l, []))
    return out


def markers(fn, sym):
    """Role markers found in (the expansions of) a value expression: which public inputs of the validation it reads."""
    out = set()
    for e in expansions(fn, sym):
        for sub in sym_walk(e):
            if sub[0] == "field":
                name = sub[2]
                oc = _root_param(sub)
                if oc is None:
                    continue
                ty = fn.local_ty(oc) or ""
                if "TransactionBody" in ty or re.search(r"byron::model::Tx\b", ty):
                    if name == "fee":
                        out.add("FEE")
                    elif name == "mint":
                        out.add("MINT")
                    elif name == "outputs":
                        out.add("OUTPUTS")
                    elif name == "inputs":
                        out.add("INPUTS")
                    elif name in TXBODY_OTHER:
                        out.add("OTHER:" + name)
                elif "ProtParams" in ty and name in ("key_deposit", "pool_deposit"):
                    out.add("DEPOSIT")
                elif "ProtParams" in ty and isinstance(name, str) and not name.isdigit():
                    out.add("PARAMETER:" + name)
            elif sub[0] == "call" and re.search(r"HashMap::get$", strip_generics(sub[1])) and sub[2]:
                typed = False
                for x in sym_walk(sub[2][0]):
                    if x[0] == "param" and "MultiEraInput" in (fn.local_ty(x[1]) or "") and "MultiEraOutput" in (fn.local_ty(x[1]) or ""):
                        out.add("UTXO")
                        typed = True
                if not typed:
                    out.add("HMGET")        # a map lookup on a captured / passed-in map: a UTxO lookup iff that map is the UTxO set
            elif sub[0] == "param":
                ty = fn.local_ty(sub[1]) or ""
                if "MultiEraInput" in ty and "MultiEraOutput" in ty and "HashMap" in ty:
                    out.add("UTXOREF")
    return out


def _root_param(s):
    """Parameter index at the root of a field/deref/ref/downcast/transparent-call chain, else None."""
    from .flow import origin_chain
    oc = origin_chain(s)
    if oc is not None and oc[0][0] == "param":
        return oc[0][1]
    return None


def classify_markers(m, what=""):
    """Role of a leaf value from the set of public inputs it reads."""
    m = set(m)
    if "HMGET" in m and "UTXOREF" in m:
        m.add("UTXO")
    core = {x for x in m if x in ("FEE", "MINT", "OUTPUTS", "UTXO", "DEPOSIT") or x.startswith("OTHER:")}
    if "UTXO" in core:
        rest = core - {"UTXO"}
        if not rest and "INPUTS" in m:
            return "CONSUMED"
        if not rest:
            return "UNKNOWN:utxo-lookup-not-keyed-by-the-inputs"
        return "UNKNOWN:mixed(%s)" % ",".join(sorted(core))
    if len(core) == 1:
        c = next(iter(core))
        return c if not c.startswith("OTHER:") else "UNKNOWN:" + c[6:]
    if not core:
        return "UNKNOWN:%s" % (what or "value of unrecognised origin")
    return "UNKNOWN:mixed(%s)" % ",".join(sorted(core))


def classify_leaf(fn, sym):
    s = unwrap_chain(sym)
    if s[0] == "const":
        try:
            return "EMPTY" if int(s[1]) == 0 else "UNKNOWN:constant %s" % s[1]
        except (TypeError, ValueError):
            pass
    return classify_markers(markers(fn, sym), sym_str(s, 60))


def _params_in(fn, sym):
    ps = set()
    for e in expansions(fn, sym):
        for x in sym_walk(e):
            if x[0] == "param":
                ps.add(x[1])
    return frozenset(ps)


def _leaf_item(fn, s, tag="LEAF"):
    """An addend that is not itself a sum: the public inputs it reads here (markers) and the parameters of this function it
    is derived from (the caller adds what it passes for them).  A constant 0 is EMPTY."""
    u = unwrap_chain(s)
    if u[0] == "const":
        try:
            if int(u[1]) == 0:
                return "EMPTY"
        except (TypeError, ValueError):
            pass
        return (tag, frozenset({"CONST:%s" % (u[1],)}), frozenset(), sym_str(u, 40))
    return (tag, frozenset(markers(fn, s)), _params_in(fn, s), sym_str(u, 60))


def _subst_leaf(fn, item, arg_of):
    """Re-express a callee's leaf item in the caller: markers of the arguments passed for the parameters it depends on are
    added, and it now depends on the caller's parameters behind those arguments."""
    tag, m, ps, what = item
    m2, ps2 = set(m), set()
    for p in ps:
        a = arg_of(p)
        if a is None:
            continue
        for x in a:
            m2 |= markers(fn, x)
            ps2 |= _params_in(fn, x)
    return (tag, frozenset(m2), frozenset(ps2), what)


_FOLDS = re.compile(r"::(fold|try_fold)$")
_ADAPTORS = re.compile(r"::(fold|try_fold|reduce|try_reduce|map|sum|for_each|try_for_each|filter_map|flat_map)$")


def ingredients(prog, fn, sym, depth=10, seen=None):
    """Set of addends that flow (through the value-adding helpers, helper functions, accumulators and folds) into the value
    `sym` of function fn.  Items: 'EMPTY'; ('PARAM', i) = the value the caller passes as parameter i; ('LEAF'|'MINTARG',
    markers, params, text) = a value that is not a sum, with the public inputs it reads and the parameters it derives from."""
    if seen is None:
        seen = set()
    s = unwrap_chain(sym)
    key = (fn.path, repr(s)[:200])
    if key in seen:
        return set()
    seen.add(key)
    if depth <= 0:
        return {("LEAF", frozenset({"CONST:too-deep"}), frozenset(), "too deep")}
    k = s[0]
    if k == "local" and len(s) > 1:
        out = set()
        for d in local_defs(fn, s[1]):
            out |= ingredients(prog, fn, d, depth, seen)
        return out or {_leaf_item(fn, s)}
    if k == "param":
        if _is_value_ty(fn.local_ty(s[1])):
            return {("PARAM", s[1])}
        return {_leaf_item(fn, s)}
    if k == "call":
        name = s[1]
        if ADD2.search(name) and len(s[2]) >= 2:
            return ingredients(prog, fn, s[2][0], depth, seen) | ingredients(prog, fn, s[2][1], depth, seen)
        if ADDM.search(name) and len(s[2]) >= 2:
            return ingredients(prog, fn, s[2][0], depth, seen) | {_leaf_item(fn, s[2][1], "MINTARG")}
        if EMPTYV.search(name):
            return {"EMPTY"}
        g = prog.get(name)
        if g is not None and g.kind not in ("Closure",):
            summ = fn_ingredients(prog, g, depth - 1)
            if summ is not None:
                out = set()
                arg_of = lambda p: [s[2][p - 1]] if p - 1 < len(s[2]) else None
                for r in summ:
                    if isinstance(r, tuple) and r[0] == "PARAM":
                        if r[1] - 1 < len(s[2]):
                            out |= ingredients(prog, fn, s[2][r[1] - 1], depth, seen)
                    elif isinstance(r, tuple):
                        out.add(_subst_leaf(fn, r, arg_of))
                    else:
                        out.add(r)
                return out
        # iterator adaptors taking a closure: the closure's result, its environment standing for the captured values, its
        # accumulator parameter for the seed and its item parameter(s) for the iterated collection
        clos = [a for a in s[2] if unwrap_chain(a)[0] == "agg" and unwrap_chain(a)[1] == "closure"]
        if clos and _ADAPTORS.search(strip_generics(name)):
            others = [a for a in s[2] if a not in clos]
            recv = others[:1]
            seed = others[1:2] if _FOLDS.search(strip_generics(name)) else []
            out = set()
            for a in seed:
                out |= ingredients(prog, fn, a, depth, seen)
            for c in clos:
                cu = unwrap_chain(c)
                cf = prog.get(cu[2])
                if cf is None:
                    out.add(("LEAF", frozenset({"CONST:closure"}), frozenset(), "opaque closure"))
                    continue
                captures = list(cu[3])

                def arg_of(p, captures=captures, recv=recv, seed=seed):
                    if p == 1:
                        return captures
                    if seed and p == 2:
                        return seed
                    return recv
                for r in fn_ingredients(prog, cf, depth - 1) or set():
                    if isinstance(r, tuple) and r[0] == "PARAM":
                        if seed and r[1] == 2:
                            continue            # the accumulator: already counted through the seed
                        for a in arg_of(r[1]) or []:
                            out.add(_leaf_item(fn, a))
                    elif isinstance(r, tuple):
                        out.add(_subst_leaf(fn, r, arg_of))
                    else:
                        out.add(r)
            return out
        return {_leaf_item(fn, s)}
    return {_leaf_item(fn, s)}


_FN_INGR = {}


def fn_ingredients(prog, g, depth=8):
    """Ingredients of the Value a function returns (through Ok / directly), in terms of its own parameters."""
    key = (id(prog), g.path)
    if key in _FN_INGR:
        return _FN_INGR[key]
    _FN_INGR[key] = set()
    out = set()
    found = False
    for bi in g.live_blocks():
        b = g.blocks[bi]
        for si, s in enumerate(b["st"]):
            if s[0] == "a" and pl_local(s[1]) == 0 and not pl_proj(s[1]):
                rv = s[2]
                if rv["k"] == "agg" and rv.get("ak") == "adt" and rv["adt"] in ("core::result::Result", "core::option::Option", "core::ops::control_flow::ControlFlow"):
                    if rv["variant"] in ("Ok", "Some", "Continue") and rv["fields"]:
                        found = True
                        out |= ingredients(prog, g, g.sym_operand(rv["fields"][0]), depth)
                    continue
                found = True
                out |= ingredients(prog, g, g.sym_rvalue(rv, 30), depth)
        t = b["term"]
        if t["k"] == "call" and pl_local(t["dest"]) == 0 and not cname(t).endswith("FromResidual::from_residual"):
            found = True
            out |= ingredients(prog, g, ("call", t.get("f") or t.get("g") or "<indirect>", tuple(g.sym_operand(a) for a in t["args"]), bi), depth)
    res = out if found else None
    _FN_INGR[key] = res
    return res


def resolve_roles(fn, items):
    """Final roles of the addends of a sum in the function where the sum is compared."""
    out = set()
    for r in items:
        if not isinstance(r, tuple):
            out.add(r)
        elif r[0] == "PARAM":
            out.add("UNKNOWN:value passed in as parameter `%s`" % fn.local_name(r[1]))
        elif r[0] == "MINTARG":
            m = r[1]
            out.add("MINT" if "MINT" in m and not (m & {"FEE", "OUTPUTS", "UTXO"}) else "UNKNOWN:minted-operand(%s)" % ",".join(sorted(m)))
        else:
            m = {x for x in r[1] if not x.startswith("CONST:")}
            consts = [x for x in r[1] if x.startswith("CONST:")]
            if consts and not m:
                out.add("UNKNOWN:%s" % consts[0][6:])
            else:
                out.add(classify_markers(m, r[3]))
    return out


# ------------------------------------------------------------------------------------------------ tabulation with helpers inlined

def _norm(sym):
    """deref(ref(x)) -> x, ref(deref(ref x)) stays a ref of x: keeps substituted expressions structurally comparable."""
    if not isinstance(sym, tuple) or not sym:
        return sym
    if isinstance(sym[0], str):
        t = tuple(_norm(x) if isinstance(x, tuple) else x for x in sym)
        if t[0] == "deref" and isinstance(t[1], tuple) and t[1] and t[1][0] == "ref":
            return t[1][1]
        if t[0] == "call" and len(t) > 3:
            t = t[:3]           # drop the block id: the same call reached on two paths is the same value
        return t
    return tuple(_norm(x) for x in sym)


def _replace(sym, old, new):
    if sym == old:
        return new
    if not isinstance(sym, tuple) or not sym:
        return sym
    return tuple(_replace(x, old, new) if isinstance(x, tuple) else x for x in sym)


def _merge_conds(conds):
    """Conjunction of (sym, ('eq', v) | ('ne', [v..])) constraints; None if contradictory.  Constant subjects are evaluated."""
    known = {}
    for d, c in conds:
        if d[0] == "const":
            try:
                v = int(d[1])
            except (TypeError, ValueError):
                return None
            if (c[0] == "eq" and v != c[1]) or (c[0] == "ne" and v in c[1]):
                return None
            continue
        k = known.get(d)
        if k is None:
            known[d] = c if c[0] == "eq" else ("ne", sorted(set(c[1])))
        elif k[0] == "eq":
            if (c[0] == "eq" and c[1] != k[1]) or (c[0] == "ne" and k[1] in c[1]):
                return None
        else:
            if c[0] == "eq":
                if c[1] in k[1]:
                    return None
                known[d] = c
            else:
                known[d] = ("ne", sorted(set(k[1]) | set(c[1])))
    return list(known.items())


def tabulate_inlined(prog, f, depth=3, max_rows=512, inline=None):
    """Return rows [(conds, ret)] of f with every call to a workspace function accepted by `inline` (default: all; whose own
    rows can be computed) replaced by that function's rows: conditions are conjoined, contradictory combinations dropped.  Nothing is executed."""
    from .tabulate import tabulate
    rows = []
    for p in tabulate(f, prog, 256):
        if p.end != "return" or p.ret is None:
            continue
        conds = _merge_conds([(_norm(d), c) for d, c in p.conds])
        if conds is None:
            continue
        rows.append((conds, _norm(p.ret)))
    if depth <= 0:
        return rows
    cache = {}
    changed = True
    guard = 0
    while changed and guard < 32:
        changed = False
        guard += 1
        out = []
        for conds, ret in rows:
            call = None
            for sy in [d for d, _ in conds] + [ret]:
                for sub in sym_walk(sy):
                    if sub[0] == "call" and prog.get(sub[1]) is not None and prog.get(sub[1]).path != f.path and sub[1] not in cache.get("bad", ()) \
                            and (inline is None or inline(prog.get(sub[1]))):
                        call = sub
                        break
                if call:
                    break
            if call is None:
                out.append((conds, ret))
                continue
            g = prog.get(call[1])
            if g.path not in cache:
                try:
                    cache[g.path] = tabulate_inlined(prog, g, depth - 1, max_rows, inline)
                except Exception:
                    cache[g.path] = None
            grows = cache[g.path]
            if not grows:
                cache.setdefault("bad", set()).add(call[1])
                out.append((conds, ret))
                changed = True
                continue
            mapping = {i + 1: a for i, a in enumerate(call[2])}
            for gconds, gret in grows:
                gret_s = _norm(sym_subst(gret, mapping))
                new_conds = [(_norm(_replace(d, call, gret_s)), c) for d, c in conds] + [(_norm(sym_subst(d, mapping)), c) for d, c in gconds]
                merged = _merge_conds(new_conds)
                if merged is None:
                    continue
                out.append((merged, _norm(_replace(ret, call, gret_s))))
            changed = True
            if len(out) > max_rows:
                raise RuntimeError("too many rows while inlining %s" % f.path)
        rows = out
    return rows
