#!/bin/bash
# Acceptance protocol: every check's quick (or $1=thorough) command on /repo's current tree, each with its
# evidence file removed first; then validate MANIFEST and every rewritten evidence record.
# Run this (and commit the rewritten evidence) before every commit of /verif.
set -u
cd "$(dirname "$0")/.."
tier=${1:-quick}
export CARGO_NET_OFFLINE=true VERIF_TIER=$tier VERIF_SEED=${VERIF_SEED:-1}
unset PALLAS_REPO VERIF_OUT
bad=0
for id in $(jq -r '.checks[].property_id' MANIFEST.json); do
  cmd=$(jq -r ".checks[]|select(.property_id==\"$id\")|.${tier}_cmd" MANIFEST.json)
  ev=$(jq -r ".checks[]|select(.property_id==\"$id\")|.evidence_file" MANIFEST.json)
  rm -f "$ev"
  log=$(mktemp); s=$(date +%s)
  sh -c "$cmd" > $log 2>&1; rc=$?
  v=$(grep -c '^VIOLATION' $log); k=$(grep -c '^KNOWN-FINDING' $log)
  echo "$id rc=$rc t=$(( $(date +%s)-s ))s violation_lines=$v known_finding_lines=$k evidence=$([ -f "$ev" ] && echo rewritten || echo MISSING)"
  if [ $rc -ne 0 ] || [ $v -ne 0 ] || [ ! -f "$ev" ]; then bad=1; tail -20 $log; fi
  rm -f $log
done
/opt/veriftools/pyvenv/bin/python tools/validate.py || bad=1
exit $bad
