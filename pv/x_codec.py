"""E4 — codec-shape abstract interpreter for hand-written minicbor `impl Encode` / `impl Decode` pairs.

Input: the type-resolved HIR of the impl bodies (driver/src/hir_dump.rs), *not* MIR.  Why HIR: the shape of a codec is
its statement structure — `match self { V(..) => { e.array(3)?.u16(0)?; .. } }`, `for x in xs { .. }`, `e.encode((a, b))` —
and HIR keeps exactly that (resolved callee paths, resolved variant paths in patterns, `?` and `for` marked as such, literal
constants, per-node types), whereas MIR has already exploded `?` into Try::branch switches, loops into iterator state
machines and method chains into temporaries, so the success path and the per-iteration shape would have to be
re-discovered from the CFG.  Nothing is executed: the functions are interpreted abstractly, path by path.

What is computed
  * For every encoder *arm* (a path through `encode`, normally one per `match self` arm, plus forks on other tests)
    a CBOR *shape*: a token sequence over
        arr(n) map(n)            definite headers, n constant or linear in `len(<place>)`
        begin(arr|map|bytes|str) .. end
        tag(t)                   prefix of the next item
        item(kinds, const?, rust type, arity)   one opaque data item (`e.u16(0)`, `e.encode(field)`, ...)
        loop(count, body)        `for x in xs { .. }` summarised by its per-iteration shape, count = len(xs)
        raw(v)                   bytes written through `writer_mut().write_all` (counted as one item; assumption)
    Tuples / array literals are expanded by arity, integer literals become constant items, `x.encode(e, ctx)`,
    `e.encode(x)`, `e.encode_with(x, ctx)` are the same thing, workspace helpers that receive the encoder are spliced,
    small pure workspace helpers (`self.ord()`) are evaluated.
  * (i) well-formedness of each arm (`wellformed`): every definite container gets exactly its declared number of items
    (2n for maps), indefinite ones are closed, tags prefix an item, and the arm emits exactly `arity` top-level items
    (1 unless the type is a listed *fragment* encoder such as `Mismatch`).
  * (ii) duality: the decoder is interpreted *against the arm's token stream* (a product construction: `d.array()`
    consumes a header, `d.u16()` a compatible item and yields its constant if it has one, `d.decode::<T>()`/`skip` a
    whole item, `d.datatype()` peeks the set of possible head types, `position/set_position/probe` save and restore
    the cursor, `for _ in 0..len` is matched against a `loop` token).  Determined tests follow one branch; a
    `match d.datatype()` forks *universally* over every head type the encoder item can have (each must be accepted);
    tests on unknown data fork *speculatively*.  The arm passes when the non-speculative leaf (or, if the run forked
    on unknown data, at least one leaf) ends `Ok(value of the same variant)` with the whole stream consumed, and no
    universal leaf fails.
  * Anything not understood that touches the encoder/decoder makes the arm *unanalysable* (fail closed).

API (for other rules: C22, C03(f), later C06/C07)
    m = Model(["pallas_codec", "pallas_network", ...])          # loads items + HIR of the crates
    m.codec_types(file_prefixes=[...], crates=[...])            # ADTs with a non-derive Encode and/or Decode impl
    r = m.analyse(adt_path)                                     # -> TypeReport (arms, wf problems, duality problems, unanalysable)
    m.encoder_arms(impl)                                        # -> [Arm] (label, tokens, status) of one encoder impl
    m.head_kinds(type_string), m.arity(type_string)             # head data::Type set / number of top-level items of a Rust type
    shape_str(tokens)                                           # printable shape
    check_types(res, m, adts, table, prop)                      # record obligations / violations into a pv.report.Result
Tables: tables/codec_opaque.json = {"opaque": {"<adt>|enc|dec:<arm>": reason}, "fragments": {"<adt>": reason}}.
"""
import json
import os
import re

from . import facts

RESULT = "core::result::Result"
OPTION = "core::option::Option"
ENC_T = "minicbor::encode::encoder::Encoder"
DEC_T = "minicbor::decode::decoder::Decoder"
ENC_TRAIT = "minicbor::encode::Encode"
DEC_TRAIT = "minicbor::decode::Decode"
DTYPE = "minicbor::data::Type"
IANA = "minicbor::data::IanaTag"
MAX_PATHS = 3000
MAX_DEPTH = 3

_spec = None


def spec():
    global _spec
    if _spec is None:
        _spec = json.load(open(os.path.join(facts.VERIF, "spec", "minicbor_duality.json")))
    return _spec


class Unanalysable(Exception):
    pass


# ------------------------------------------------------------------------------------------------ type strings
def _split_top(s, sep=","):
    out, depth, cur = [], 0, []
    for ch in s:
        if ch in "<([":
            depth += 1
        elif ch in ">)]":
            depth -= 1
        if ch == sep and depth == 0:
            out.append("".join(cur).strip())
            cur = []
        else:
            cur.append(ch)
    t = "".join(cur).strip()
    if t:
        out.append(t)
    return out


PRIMS = {"u8", "u16", "u32", "u64", "u128", "usize", "i8", "i16", "i32", "i64", "i128", "isize", "bool", "char", "str", "f32", "f64", "!"}
_tcache = {}


def parse_type(s):
    """type string -> ('prim', name) | ('tuple', [T]) | ('array', T, n) | ('slice', T) | ('adt', path, [T]) | ('param', name)
    | ('other', s).  References, `mut`, lifetimes and `dyn`/`impl` sugar are stripped (a reference encodes as its target)."""
    if s in _tcache:
        return _tcache[s]
    o = s
    s = s.strip()
    while True:
        if s.startswith("&"):
            s = s[1:].strip()
            if s.startswith("'"):
                s = s.split(" ", 1)[1] if " " in s else ""
            if s.startswith("mut "):
                s = s[4:]
            s = s.strip()
            continue
        break
    if s == "()":
        r = ("tuple", [])
    elif s.startswith("(") and s.endswith(")"):
        r = ("tuple", [parse_type(x) for x in _split_top(s[1:-1])])
    elif s.startswith("[") and s.endswith("]"):
        inner = s[1:-1]
        parts = _split_top(inner, ";")
        if len(parts) == 2:
            r = ("array", parse_type(parts[0]), parts[1].strip())
        else:
            r = ("slice", parse_type(inner))
    elif s in PRIMS:
        r = ("prim", s)
    elif s.startswith("<") or s.startswith("dyn ") or s.startswith("impl ") or s.startswith("fn(") or s.startswith("for<") or not s:
        r = ("other", s)
    else:
        m = re.match(r"^([A-Za-z_][A-Za-z0-9_:]*?)(?:::)?(<.*>)?$", s)
        if not m:
            r = ("other", s)
        else:
            path, args = m.group(1), m.group(2)
            al = []
            if args:
                for a in _split_top(args[1:-1]):
                    if a.startswith("'"):
                        continue
                    al.append(parse_type(a))
            if "::" not in path and not al:
                r = ("param", path)
            else:
                r = ("adt", path, al)
    _tcache[o] = r
    return r


def type_str(t):
    k = t[0]
    if k in ("prim", "param", "other"):
        return t[1]
    if k == "tuple":
        return "(" + ", ".join(type_str(x) for x in t[1]) + ")"
    if k == "array":
        return "[%s; %s]" % (type_str(t[1]), t[2])
    if k == "slice":
        return "[%s]" % type_str(t[1])
    return t[1] + ("<" + ", ".join(type_str(x) for x in t[2]) + ">" if t[2] else "")


# ------------------------------------------------------------------------------------------------ abstract values
UNIT = ("c", ())
NONE = ("var", OPTION, "None", [])
TRUE = ("c", True)
FALSE = ("c", False)


def C(v):
    return ("c", v)


def sym(key, ty=None):
    return ("sym", key, ty)


def ok(v):
    return ("var", RESULT, "Ok", [v])


def err(v):
    return ("var", RESULT, "Err", [v])


def some(v):
    return ("var", OPTION, "Some", [v])


def lin(const, terms):
    terms = tuple(sorted((k, c) for k, c in terms if c != 0))
    if not terms:
        return ("c", const)
    return ("lin", const, terms)


def as_lin(v):
    """value -> (const, {key: coef}) or None"""
    if v is None:
        return None
    if v[0] == "c" and isinstance(v[1], int) and not isinstance(v[1], bool):
        return v[1], {}
    if v[0] == "lin":
        return v[1], dict(v[2])
    return None


def lin_add(a, b, sign=1):
    la, lb = as_lin(a), as_lin(b)
    if la is None or lb is None:
        return None
    t = dict(la[1])
    for k, c in lb[1].items():
        t[k] = t.get(k, 0) + sign * c
    return lin(la[0] + sign * lb[0], t.items())


def lin_mul(a, k):
    la = as_lin(a)
    if la is None:
        return None
    return lin(la[0] * k, [(x, c * k) for x, c in la[1].items()])


def val_str(v):
    if v is None:
        return "?"
    k = v[0]
    if k == "c":
        return repr(v[1]) if not isinstance(v[1], tuple) else "()"
    if k == "sym":
        return v[1]
    if k == "lin":
        parts = ["%s%s" % ("" if c == 1 else "%d*" % c, key) for key, c in v[2]]
        if v[1]:
            parts.append(str(v[1]))
        return "+".join(parts)
    if k == "var":
        return "%s%s" % (v[2], "(" + ",".join(val_str(x) for x in _vargs(v)) + ")" if v[3] else "")
    if k == "tup":
        return "(" + ",".join(val_str(x) for x in v[1]) + ")"
    if k == "tag":
        return val_str(v[1])
    return k


def _vargs(v):
    a = v[3]
    return list(a.values()) if isinstance(a, dict) else a


# ------------------------------------------------------------------------------------------------ tokens
class Tok:
    """One element of an encoder shape.  kind: arr | map | begin | end | tag | item | loop | raw."""
    __slots__ = ("kind", "n", "ctype", "val", "kinds", "ty", "arity", "how", "rng", "body", "line", "key", "head")

    def __init__(self, kind, **kw):
        self.kind = kind
        self.n = self.ctype = self.val = self.kinds = self.ty = self.how = self.rng = self.body = self.line = self.key = None
        self.head = None      # the item's first byte as an abstract value, when a rule fixes the head form (C03 clause d)
        self.arity = 1
        for k, v in kw.items():
            setattr(self, k, v)

    def clone(self, **kw):
        t = Tok(self.kind)
        for s in Tok.__slots__:
            setattr(t, s, getattr(self, s))
        for k, v in kw.items():
            setattr(t, k, v)
        return t


def shape_str(toks):
    out = []
    for t in toks:
        if t.kind in ("arr", "map"):
            out.append("%s(%s)" % ("array" if t.kind == "arr" else "map", val_str(t.n)))
        elif t.kind == "begin":
            out.append("begin_%s" % {"arr": "array", "map": "map", "bytes": "bytes", "str": "str"}[t.ctype])
        elif t.kind == "end":
            out.append("end")
        elif t.kind == "tag":
            out.append("tag(%s)" % val_str(t.val))
        elif t.kind == "item":
            s = t.how or "item"
            if t.val is not None and t.val[0] == "c":
                s += "=%s" % val_str(t.val)
            elif t.ty and t.how in ("encode", None):
                s += "<%s>" % _short_ty(t.ty)
            if t.arity != 1:
                s += "x%d" % t.arity
            out.append(s)
        elif t.kind == "loop":
            out.append("for[%s]{%s}" % (val_str(t.n), shape_str(t.body)))
        elif t.kind == "raw":
            out.append("raw")
    return " ".join(out)


def _short_ty(s):
    return re.sub(r"[A-Za-z_][A-Za-z0-9_]*::", "", s)


def int_kinds_for_const(v):
    if v >= 0:
        return frozenset(["U8" if v <= 0xff else "U16" if v <= 0xffff else "U32" if v <= 0xffffffff else "U64"])
    n = -1 - v
    return frozenset(["I8" if n < 0x80 else "I16" if n < 0x8000 else "I32" if n < 0x80000000 else "I64" if n < 2 ** 63 else "Int"])


# ------------------------------------------------------------------------------------------------ well-formedness
class Problem:
    def __init__(self, code, msg, line=None):
        self.code = code      # stable, no line numbers
        self.msg = msg
        self.line = line

    def __repr__(self):
        return "Problem(%s: %s)" % (self.code, self.msg)


def _count_items(toks, i, want, is_map, problems, ctx):
    """Consume tokens from i as the content of a definite container declaring `want` (a value) entries.
    Returns the index after the content.  Items are consumed until the running count equals the declaration."""
    target = lin_mul(want, 2) if is_map else want
    if as_lin(target) is None:
        problems.append(Problem("%s:length-not-determinable" % ctx, "%s: the declared length %s is not a constant or a collection length" % (ctx, val_str(want))))
        return len(toks)
    acc = C(0)
    start = i
    while True:
        if acc == target:
            return i
        if i >= len(toks) or toks[i].kind == "end":
            problems.append(Problem("%s:declares=%s:receives=%s" % (ctx, val_str(target if not is_map else want), _half(acc, is_map)),
                                    "%s declares %s %s but receives %s" % (ctx, val_str(want), "pairs" if is_map else "items",
                                                                           (_half(acc, is_map) + " pairs") if is_map else (val_str(acc) + " items")),
                                    toks[start - 1].line if start > 0 else None))
            return i
        la, lt = as_lin(acc), as_lin(target)
        # overshoot on the constant part when no symbolic term can compensate
        if not lt[1] and not la[1] and la[0] > lt[0]:
            problems.append(Problem("%s:declares=%s:receives>=%s" % (ctx, val_str(want), _half(acc, is_map)),
                                    "%s declares %s %s but an item in it takes more than one slot (receives at least %s)" % (ctx, val_str(want), "pairs" if is_map else "items", val_str(acc))))
            return i
        j, n = _one_entry(toks, i, problems, ctx)
        if n is None:
            return len(toks)
        acc = lin_add(acc, n)
        i = j


def _half(v, is_map):
    if not is_map:
        return val_str(v)
    la = as_lin(v)
    if la and not la[1] and la[0] % 2 == 0:
        return str(la[0] // 2)
    return val_str(v) + "/2"


def _one_entry(toks, i, problems, ctx):
    """Consume one content entry at i: a complete item (count = its arity) or a loop (count = iterations * items per
    iteration).  Returns (next index, count value) or (_, None) when hopeless."""
    t = toks[i]
    if t.kind == "loop":
        sub = []
        n_body = _top_level(t.body, sub, ctx + ">loop")
        problems.extend(sub)
        if n_body is None:
            return len(toks), None
        cnt = as_lin(t.n)
        if cnt is None:
            cnt = (0, {"iter:%s" % (t.key or "?"): 1})
            tot = lin(0, [(k, c * n_body) for k, c in cnt[1].items()])
        else:
            tot = lin_mul(t.n, n_body)
        return i + 1, tot
    j = _one_item(toks, i, problems, ctx)
    if j is None:
        return len(toks), None
    return j, C(toks[i].arity if toks[i].kind == "item" else 1)


def _one_item(toks, i, problems, ctx):
    """Consume exactly one complete data item starting at i; returns the next index or None."""
    if i >= len(toks):
        problems.append(Problem("%s:item-missing" % ctx, "%s: an item is expected but the encoder writes nothing more" % ctx))
        return None
    t = toks[i]
    if t.kind in ("item", "raw"):
        return i + 1
    if t.kind == "tag":
        if i + 1 >= len(toks) or toks[i + 1].kind in ("end", "loop"):
            problems.append(Problem("%s:tag-without-item" % ctx, "%s: tag(%s) is not followed by the item it tags" % (ctx, val_str(t.val)), t.line))
            return None
        return _one_item(toks, i + 1, problems, ctx)
    if t.kind in ("arr", "map"):
        name = "%s>%s(%s)" % (ctx, "array" if t.kind == "arr" else "map", val_str(t.n))
        return _count_items(toks, i + 1, t.n, t.kind == "map", problems, name)
    if t.kind == "begin":
        name = "%s>begin_%s" % (ctx, t.ctype)
        j = i + 1
        total = C(0)
        while True:
            if j >= len(toks):
                problems.append(Problem("%s:not-closed" % name, "%s is never closed with end()" % name, t.line))
                return None
            if toks[j].kind == "end":
                break
            j2, n = _one_entry(toks, j, problems, name)
            if n is None:
                return None
            total = lin_add(total, n)
            j = j2
        if t.ctype == "map":
            la = as_lin(total)
            if la and (la[0] % 2 or any(c % 2 for c in la[1].values())):
                problems.append(Problem("%s:odd-number-of-items" % name, "%s receives %s items, not key/value pairs" % (name, val_str(total)), t.line))
        return j + 1
    if t.kind == "end":
        problems.append(Problem("%s:stray-end" % ctx, "%s: end() without an open indefinite container" % ctx, t.line))
        return None
    if t.kind == "loop":
        problems.append(Problem("%s:loop-outside-container" % ctx, "%s: a data-dependent number of items is written where exactly one item is expected" % ctx, t.line))
        return None
    return None


def _top_level(toks, problems, ctx):
    """number of complete top-level items in toks (int) or None"""
    i = n = 0
    while i < len(toks):
        t = toks[i]
        if t.kind == "loop":
            problems.append(Problem("%s:loop-at-top-level" % ctx, "%s: a data-dependent number of top-level items" % ctx, t.line))
            return None
        j = _one_item(toks, i, problems, ctx)
        if j is None:
            return None
        n += t.arity if t.kind == "item" else 1
        i = j
    return n


def wellformed(toks, arity=1, ctx="encode"):
    """-> (problems, top-level item count or None)"""
    problems = []
    n = _top_level(toks, problems, ctx)
    if n is not None and not problems and arity is not None and n != arity:
        problems.append(Problem("%s:top-level-items=%d" % (ctx, n), "%s writes %d top-level items, exactly %d expected" % (ctx, n, arity)))
    return problems, n


# ------------------------------------------------------------------------------------------------ interpreter state
class St:
    __slots__ = ("env", "facts", "out", "cur", "status", "spec", "labels", "refine", "ncond", "nread", "streams", "exp_min", "inner")

    def __init__(self):
        self.env = {}        # local id -> value
        self.facts = {}      # sym key -> ('variant', adt, name) | ('notvar', frozenset) | ('eq', const) | ('ne', frozenset)
        self.out = []        # encoder tokens
        self.cur = {}        # decoder id -> index into streams[id]
        self.streams = {}    # decoder id -> stream (list of STok)
        self.status = None   # None | ('ret', v) | ('break',) | ('cont',) | ('panic', what) | ('unan', why)
        self.spec = False    # forked on data the analysis does not know
        self.labels = []     # readable fork history (unknown conditions)
        self.refine = {}     # id(stream token) -> narrowed kinds (universal datatype forks)
        self.ncond = 0
        self.nread = 0
        self.exp_min = {}
        self.inner = False   # forked over the arms of an opaque item's own encoder (data the outer arm does not fix)

    def copy(self):
        s = St()
        s.env = dict(self.env)
        s.facts = dict(self.facts)
        s.out = list(self.out)
        s.cur = dict(self.cur)
        s.streams = dict(self.streams)
        s.status = self.status
        s.spec = self.spec
        s.labels = list(self.labels)
        s.refine = dict(self.refine)
        s.ncond = self.ncond
        s.nread = self.nread
        s.exp_min = dict(self.exp_min)
        s.inner = self.inner
        return s


class STok:
    """decoder-side stream element: hdr | item | tag | loop | end | raw"""
    __slots__ = ("kind", "ctype", "n", "tok", "skip_to", "body", "val")

    def __init__(self, kind, **kw):
        self.kind = kind
        self.ctype = self.n = self.tok = self.skip_to = self.body = self.val = None
        for k, v in kw.items():
            setattr(self, k, v)


def build_stream(toks):
    """flatten well-formed tokens into a stream where every item start knows where the item ends"""
    out = []

    def item(i):
        t = toks[i]
        pos = len(out)
        if t.kind in ("item", "raw"):
            out.append(STok("item" if t.kind == "item" else "raw", tok=t, val=t.val))
            out[pos].skip_to = pos + 1
            return i + 1
        if t.kind == "tag":
            out.append(STok("tag", tok=t, val=t.val))
            j = item(i + 1)
            out[pos].skip_to = len(out)
            return j
        if t.kind in ("arr", "map"):
            out.append(STok("hdr", ctype=t.kind, n=t.n, tok=t))
            target = lin_mul(t.n, 2) if t.kind == "map" else t.n
            acc = C(0)
            j = i + 1
            while acc != target:
                j, n = entry(j)
                acc = lin_add(acc, n)
            out[pos].skip_to = len(out)
            return j
        if t.kind == "begin":
            out.append(STok("hdr", ctype=t.ctype, n=None, tok=t))
            j = i + 1
            while toks[j].kind != "end":
                j, _ = entry(j)
            out.append(STok("end", tok=toks[j]))
            out[-1].skip_to = len(out)
            out[pos].skip_to = len(out)
            return j + 1
        raise Unanalysable("stream: unexpected token %s" % t.kind)

    def entry(i):
        t = toks[i]
        if t.kind == "loop":
            body = build_stream(t.body)
            nb = sum(1 for _ in _top_items(body))
            out.append(STok("loop", n=t.n, body=body, tok=t))
            out[-1].skip_to = len(out)
            cnt = t.n if as_lin(t.n) is not None else lin(0, [("iter:%s" % (t.key or "?"), 1)])
            return i + 1, lin_mul(cnt, _body_count(t.body))
        j = item(i)
        return j, C(t.arity if t.kind == "item" else 1)

    i = 0
    while i < len(toks):
        i = item(i)
    return out


def _body_count(toks):
    p = []
    return _top_level(toks, p, "loop") or 0


def _top_items(stream):
    i = 0
    while i < len(stream):
        yield stream[i]
        i = stream[i].skip_to


# ------------------------------------------------------------------------------------------------ the interpreter
class FnCtx:
    def __init__(self, key, hir, crate):
        self.key = key
        self.hir = hir
        self.types = hir["types"]
        self.crate = crate


class Interp:
    """Path-enumerating abstract interpreter over one HIR body (plus spliced workspace helpers).
    mode 'enc': calls on the Encoder append tokens to St.out.  mode 'dec': calls on the Decoder consume St.streams."""

    def __init__(self, model, fx, mode, owner=None):
        self.m = model
        self.owner = owner          # ADT whose codec is being interpreted (for generic-parameter contracts)
        self.fstack = [fx]
        self.mode = mode
        self.npaths = 0
        self.seq_id = 0

    # -- helpers
    @property
    def fx(self):
        return self.fstack[-1]

    def ty(self, node):
        t = node.get("t")
        if t is None:
            return None
        try:
            return self.fx.types[t]
        except (IndexError, TypeError):
            return None

    def unan(self, st, why):
        if st.status is None or st.status[0] != "unan":
            st.status = ("unan", why)

    def fork(self, st):
        self.npaths += 1
        if self.npaths > MAX_PATHS:
            raise Unanalysable("more than %d paths" % MAX_PATHS)
        return st.copy()

    # -- evaluation
    def seq(self, nodes, st):
        """evaluate nodes left to right -> [(st, [values])]"""
        acc = [(st, [])]
        for n in nodes:
            nxt = []
            for s, vs in acc:
                if s.status is not None:
                    nxt.append((s, vs + [UNIT]))
                    continue
                for s2, v in self.eval(n, s):
                    nxt.append((s2, vs + [v]))
            acc = nxt
        return acc

    def eval(self, n, st):
        if st.status is not None:
            return [(st, UNIT)]
        k = n.get("k")
        f = getattr(self, "e_" + k, None)
        if f is None:
            return self.e_default(n, st)
        return f(n, st)

    def e_default(self, n, st):
        from .hirwalk import children
        kids = [c for c in children(n) if isinstance(c, dict) and "k" in c]
        out = []
        for s, vs in self.seq(kids, st):
            if s.status is None and any(self.is_handle(v) for v in vs):
                self.unan(s, "the encoder/decoder flows into an expression the interpreter does not model (%s)" % n.get("k"))
            out.append((s, sym("expr@%s" % n.get("k"), self.ty(n))))
        return out

    def is_handle(self, v, depth=0):
        if not isinstance(v, tuple) or not v:
            return False
        if v[0] in ("enc", "dec", "writer"):
            return True
        if depth > 3:
            return False
        if v[0] in ("tup", "arrv"):
            return any(self.is_handle(x, depth + 1) for x in v[1])
        if v[0] == "struct":
            return any(self.is_handle(x, depth + 1) for x in v[2].values())
        if v[0] == "var":
            return any(self.is_handle(x, depth + 1) for x in _vargs(v))
        return False

    def e_lit(self, n, st):
        v = n["v"]
        if "int" in v:
            return [(st, C(v["int"]))]
        if "bool" in v:
            return [(st, C(v["bool"]))]
        if "str" in v:
            return [(st, ("str", v["str"]))]
        if "bigint" in v:
            return [(st, C(int(v["bigint"])))]
        return [(st, sym("lit", self.ty(n)))]

    def e_path(self, n, st):
        rk = n.get("rk")
        if rk == "Local":
            v = st.env.get(n["lid"])
            if v is None:
                v = sym("local:%s" % n.get("local"), self.ty(n))
            return [(st, v)]
        if n.get("variant"):
            return [(st, ("var", n["adt"], n["variant"], []))]
        if rk in ("Const", "AssocConst", "Static"):
            cv = self.m.consts.get(n.get("def"))
            if cv is not None:
                return [(st, C(cv))]
            return [(st, sym("const:%s" % n.get("def"), self.ty(n)))]
        if rk and rk.startswith("Ctor:Struct"):
            return [(st, ("struct", n.get("adt"), {}))]
        if rk == "Struct" or (n.get("adt") and not n.get("variant")):
            return [(st, ("struct", n.get("adt"), {}))]
        if rk == "ConstParam":
            return [(st, sym("constparam:%s" % (n.get("def") or "?").rsplit("::", 1)[-1], self.ty(n)))]
        return [(st, ("fn", n.get("def")))]

    def e_block(self, n, st):
        cur = [st]
        for s_ in n.get("stmts", []):
            nxt = []
            for s in cur:
                if s.status is not None:
                    nxt.append(s)
                    continue
                if s_["k"] == "let":
                    if s_.get("init") is None:
                        for s2, okk in self.match_pat(s_["pat"], sym("uninit"), s):
                            nxt.append(s2)
                        continue
                    for s2, v in self.eval(s_["init"], s):
                        if s2.status is not None:
                            nxt.append(s2)
                            continue
                        for s3, okk in self.match_pat(s_["pat"], v, s2):
                            if okk:
                                nxt.append(s3)
                            elif s_.get("els") is not None:
                                for s4, _ in self.eval(s_["els"], s3):
                                    nxt.append(s4)
                            # refutable let without else cannot fail in Rust: drop the impossible state
                else:
                    for s2, _ in self.eval(s_["e"], s):
                        nxt.append(s2)
            cur = nxt
        out = []
        for s in cur:
            if s.status is not None or n.get("expr") is None:
                out.append((s, UNIT))
            else:
                out.extend(self.eval(n["expr"], s))
        return out

    def e_tup(self, n, st):
        return [(s, ("tup", vs)) for s, vs in self.seq(n["xs"], st)]

    def e_array(self, n, st):
        return [(s, ("arrv", vs)) for s, vs in self.seq(n["xs"], st)]

    def e_ref(self, n, st):
        return self.eval(n["e"], st)

    def e_cast(self, n, st):
        return self.eval(n["a"], st)

    def e_un(self, n, st):
        out = []
        for s, v in self.eval(n["a"], st):
            op = n.get("op")
            if op == "Deref":
                out.append((s, v))
            elif op == "Not":
                if v[0] == "c" and isinstance(v[1], bool):
                    out.append((s, C(not v[1])))
                else:
                    out.append((s, ("not", v)))
            elif op == "Neg" and v[0] == "c" and isinstance(v[1], int):
                out.append((s, C(-v[1])))
            else:
                out.append((s, sym("un", self.ty(n))))
        return out

    def e_bin(self, n, st):
        op = n["op"]
        if op in ("And", "Or"):
            out = []
            for s, b in self.eval_cond(n, st):
                out.append((s, C(b)))
            return out
        out = []
        for s, (a, b) in self.seq([n["a"], n["b"]], st):
            if s.status is not None:
                out.append((s, UNIT))
                continue
            a, b = self.resolve(a, s), self.resolve(b, s)
            if op in ("Eq", "Ne", "Lt", "Le", "Gt", "Ge"):
                r = self.compare(op, a, b, s)
                out.append((s, C(r) if r is not None else ("cmp", op, a, b)))
            elif op == "Add":
                r = lin_add(a, b)
                out.append((s, r if r is not None else sym("arith", self.ty(n))))
            elif op == "Sub":
                r = lin_add(a, b, -1)
                out.append((s, r if r is not None else sym("arith", self.ty(n))))
            elif op == "Mul" and a[0] == "c" and isinstance(a[1], int) and as_lin(b) is not None:
                out.append((s, lin_mul(b, a[1])))
            elif op == "Mul" and b[0] == "c" and isinstance(b[1], int) and as_lin(a) is not None:
                out.append((s, lin_mul(a, b[1])))
            else:
                out.append((s, sym("arith", self.ty(n))))
        return out

    def resolve(self, v, st):
        """substitute an equality fact for a symbolic place"""
        if v is not None and v[0] == "sym":
            f = st.facts.get(v[1])
            if f and f[0] == "eq":
                return C(f[1])
            if f and f[0] == "variant" and f[1] in (OPTION,) and f[2] == "None":
                return NONE
        if v is not None and v[0] == "tag":
            return ("tag", self.resolve(v[1], st))
        return v

    def compare(self, op, a, b, st):
        if a[0] == "tag" and b[0] == "tag":
            a, b = a[1], b[1]
        if a[0] == "c" and b[0] == "c" and not isinstance(a[1], tuple) and not isinstance(b[1], tuple):
            try:
                return {"Eq": a[1] == b[1], "Ne": a[1] != b[1], "Lt": a[1] < b[1], "Le": a[1] <= b[1], "Gt": a[1] > b[1], "Ge": a[1] >= b[1]}[op]
            except TypeError:
                return None
        if op in ("Eq", "Ne"):
            if a == b and a[0] in ("sym", "lin", "var", "dtype"):
                if a[0] == "dtype" and len(a[1]) != 1:
                    return None
                return op == "Eq"
            # sym vs const with a disequality fact
            for x, y in ((a, b), (b, a)):
                if x[0] == "sym" and y[0] == "c":
                    f = st.facts.get(x[1])
                    if f and f[0] == "ne" and y[1] in f[1]:
                        return op == "Ne"
            if a[0] == "var" and b[0] == "var" and a[1] == b[1] and a[2] != b[2]:
                return op == "Ne"
            if a[0] == "dtype" and b[0] == "var" and b[1] == DTYPE:
                ak = st.refine.get(a[2], a[1]) if len(a) > 2 else a[1]
                if b[2] not in ak:
                    return op == "Ne"
                if ak == frozenset([b[2]]):
                    return op == "Eq"
            if b[0] == "dtype" and a[0] == "var" and a[1] == DTYPE:
                return self.compare(op, b, a, st)
        # lengths are non-negative
        la, lb = as_lin(a), as_lin(b)
        if la is not None and lb is not None and la[1] == lb[1]:
            x, y = la[0], lb[0]
            return {"Eq": x == y, "Ne": x != y, "Lt": x < y, "Le": x <= y, "Gt": x > y, "Ge": x >= y}[op]
        return None

    def e_field(self, n, st):
        out = []
        name = n["name"]
        for s, v in self.eval(n["e"], st):
            out.append((s, self.project(v, name, self.ty(n), s)))
        return out

    def project(self, v, name, ty, st):
        if v[0] == "struct" and name in v[2]:
            return v[2][name]
        if v[0] == "tup" and name.isdigit() and int(name) < len(v[1]):
            return v[1][int(name)]
        if v[0] == "var" and isinstance(v[3], dict) and name in v[3]:
            return v[3][name]
        if v[0] == "sym":
            return self.resolve(sym("%s.%s" % (v[1], name), ty), st)
        return sym("field:%s" % name, ty)

    def e_index(self, n, st):
        out = []
        for s, (a, i) in self.seq([n["e"], n["i"]], st):
            if s.status is None and (self.is_handle(a) or self.is_handle(i)):
                self.unan(s, "index expression on the encoder/decoder")
            if i[0] == "struct" and str(i[1]).endswith("RangeFull") and a[0] in ("arrv", "bebytes", "byteseq"):
                out.append((s, a))
                continue
            if a[0] == "sym" and a[1] == "input-bytes" and i[0] == "range" and i[1] is not None and i[2] is not None and i[1][0] == "pos" and i[2][0] == "pos":
                out.append((s, ("inslice", i[1], i[2])))
                continue
            if a[0] == "sym" and a[1] == "input-bytes" and i[0] == "pos":
                hb = self.head_byte(s, i)
                if hb is None:
                    s.status = ("panic", "index past the end of the input")
                    out.append((s, UNIT))
                else:
                    out.append((s, hb))
                continue
            k = a[1] if a[0] == "sym" else "?"
            out.append((s, sym("%s[..]" % k, self.ty(n))))
        return out

    def e_struct(self, n, st):
        names = [f[0] for f in n["fields"]]
        nodes = [f[1] for f in n["fields"]]
        out = []
        for s, vs in self.seq(nodes, st):
            d = dict(zip(names, vs))
            if n.get("variant"):
                out.append((s, ("var", n["adt"], n["variant"], d)))
            elif n.get("adt") == "core::ops::range::Range":
                out.append((s, ("range", d.get("start"), d.get("end"))))
            else:
                out.append((s, ("struct", n.get("adt") or self.ty(n), d)))
        return out

    def e_closure(self, n, st):
        return [(st, ("clo", n, self.fx, dict(st.env)))]

    def e_ret(self, n, st):
        if n.get("e") is None:
            st.status = ("ret", UNIT)
            return [(st, UNIT)]
        out = []
        for s, v in self.eval(n["e"], st):
            if s.status is None:
                s.status = ("ret", v)
            out.append((s, UNIT))
        return out

    def e_break(self, n, st):
        st.status = ("break",)
        return [(st, UNIT)]

    def e_continue(self, n, st):
        st.status = ("cont",)
        return [(st, UNIT)]

    def e_assign(self, n, st):
        out = []
        for s, v in self.eval(n["rhs"], st):
            if s.status is None:
                self.assign_to(n["lhs"], v, s)
            out.append((s, UNIT))
        return out

    def assign_to(self, lhs, v, s):
        node = lhs
        direct = True
        while isinstance(node, dict) and node.get("k") in ("field", "un", "index", "ref"):
            node = node.get("e") or node.get("a")
            direct = False
        if isinstance(node, dict) and node.get("k") == "path" and node.get("rk") == "Local":
            if direct or (lhs.get("k") == "un" and lhs.get("op") == "Deref" and lhs["a"] is node):
                s.env[node["lid"]] = v
            else:
                s.env[node["lid"]] = sym("mutated:%s" % node.get("local"))

    def e_assignop(self, n, st):
        out = []
        for s, v in self.eval(n["rhs"], st):
            if s.status is None:
                self.assign_to(n["lhs"], sym("assignop"), s)
            out.append((s, UNIT))
        return out

    def e_try(self, n, st):
        out = []
        for s, v in self.eval(n["e"], st):
            if s.status is not None:
                out.append((s, UNIT))
                continue
            if v[0] == "var" and v[1] == RESULT:
                if v[2] == "Ok":
                    out.append((s, _vargs(v)[0]))
                else:
                    s.status = ("ret", v)
                    out.append((s, UNIT))
            elif v[0] == "var" and v[1] == OPTION:
                if v[2] == "Some":
                    out.append((s, _vargs(v)[0]))
                else:
                    s.status = ("ret", v)
                    out.append((s, UNIT))
            elif self.is_handle(v):
                out.append((s, v))
            else:
                # unknown Result: continue on its success projection (a failure exit does not change the shape)
                key = v[1] if v[0] == "sym" else "try"
                out.append((s, sym(key if key.endswith("?") else key + "?", self.ty(n))))
        return out

    def e_if(self, n, st):
        out = []
        for s, b in self.eval_cond(n["c"], st):
            if s.status is not None:
                out.append((s, UNIT))
            elif b:
                out.extend(self.eval(n["then"], s))
            elif n.get("else") is not None:
                out.extend(self.eval(n["else"], s))
            else:
                out.append((s, UNIT))
        return out

    def e_letx(self, n, st):
        return [(s, C(b)) for s, b in self.eval_cond(n, st)]

    def eval_cond(self, n, st):
        """-> [(st, bool)]"""
        k = n.get("k")
        if k == "letx":
            out = []
            for s, v in self.eval(n["init"], st):
                if s.status is not None:
                    out.append((s, False))
                    continue
                out.extend(self.match_pat(n["pat"], v, s))
            return out
        if k == "bin" and n["op"] in ("And", "Or"):
            out = []
            for s, a in self.eval_cond(n["a"], st):
                if s.status is not None:
                    out.append((s, False))
                elif (n["op"] == "And") == a:
                    out.extend(self.eval_cond(n["b"], s))
                else:
                    out.append((s, a))
            return out
        if k == "un" and n.get("op") == "Not":
            return [(s, not b) for s, b in self.eval_cond(n["a"], st)]
        if k == "block" and not n.get("stmts") and n.get("expr") is not None:
            return self.eval_cond(n["expr"], st)
        out = []
        for s, v in self.eval(n, st):
            if s.status is not None:
                out.append((s, False))
                continue
            out.extend(self.truth(v, s))
        return out

    def truth(self, v, s):
        neg = False
        while v[0] == "not":
            v = v[1]
            neg = not neg
        if v[0] == "c" and isinstance(v[1], bool):
            return [(s, v[1] != neg)]
        if v[0] == "isvar":
            key, want_some = v[1], v[2]
            s2 = self.fork(s)
            s.facts[key] = ("variant", OPTION, "Some")
            s2.facts[key] = ("variant", OPTION, "None")
            if not key.startswith("self"):
                s.spec = s2.spec = True
            return [(s, want_some != neg), (s2, (not want_some) != neg)]
        if v[0] == "cmp":
            op, a, b = v[1], v[2], v[3]
            if op in ("Eq", "Ne"):
                for x, y in ((a, b), (b, a)):
                    if x[0] == "sym" and y[0] == "c" and not isinstance(y[1], tuple):
                        s2 = self.fork(s)
                        s.facts[x[1]] = ("eq", y[1])
                        old = s2.facts.get(x[1])
                        s2.facts[x[1]] = ("ne", (old[1] if old and old[0] == "ne" else frozenset()) | frozenset([y[1]]))
                        s.spec = s2.spec = True
                        t = (op == "Eq") != neg
                        s.labels.append("%s==%s" % (x[1], y[1]))
                        s2.labels.append("%s!=%s" % (x[1], y[1]))
                        return [(s, t), (s2, not t)]
                if a[0] == "dtype" or b[0] == "dtype":
                    d, o = (a, b) if a[0] == "dtype" else (b, a)
                    dk = s.refine.get(d[2], d[1]) if len(d) > 2 else d[1]
                    if o[0] == "var" and o[1] == DTYPE and o[2] in dk:
                        s2 = self.fork(s)
                        self.narrow(s, d, frozenset([o[2]]))
                        self.narrow(s2, d, dk - frozenset([o[2]]))
                        t = (op == "Eq") != neg
                        return [(s, t), (s2, not t)]
        s.ncond += 1
        s2 = self.fork(s)
        s.spec = s2.spec = True
        name = "cond#%d" % s.ncond
        if v[0] == "sym" and v[1].startswith("is_empty("):
            name = v[1]
        s.labels.append(("!" if neg else "") + name)
        s2.labels.append(("" if neg else "!") + name)
        return [(s, not neg), (s2, neg)]

    def narrow(self, s, d, kinds):
        if len(d) > 2 and d[2] is not None:
            s.refine[d[2]] = kinds

    # -- match
    def e_match(self, n, st):
        fl = as_for(n)
        if fl is not None:
            return self.e_for(fl, st)
        out = []
        for s, v in self.eval(n["scrut"], st):
            if s.status is not None:
                out.append((s, UNIT))
                continue
            out.extend(self.match_arms(n["arms"], self.resolve(v, s), s))
        return out

    def match_arms(self, arms, v, st):
        out = []
        pending = [st]
        for arm in arms:
            nxt = []
            for s in pending:
                for s2, okk in self.match_pat(arm["pat"], v, s):
                    if not okk:
                        nxt.append(s2)
                        continue
                    if arm.get("guard") is not None:
                        for s3, g in self.eval_cond(arm["guard"], s2):
                            if s3.status is not None:
                                out.append((s3, UNIT))
                            elif g:
                                out.extend(self.eval(arm["body"], s3))
                            else:
                                nxt.append(s3)
                    else:
                        out.extend(self.eval(arm["body"], s2))
            pending = nxt
            if not pending:
                break
        return out

    def match_pat(self, p, v, st):
        """-> [(st, matched)]; binds on success; forks (copying st) when the outcome depends on unknown data"""
        k = p.get("k")
        if k in ("wild", "never", "err"):
            return [(st, True)]
        if k == "bind":
            if p.get("sub") is not None:
                res = self.match_pat(p["sub"], v, st)
                for s, okk in res:
                    if okk:
                        s.env[p["lid"]] = self.resolve(v, s)
                return res
            st.env[p["lid"]] = v
            return [(st, True)]
        if k in ("ref", "deref"):
            return self.match_pat(p["sub"], v, st)
        if k == "guard":
            out = []
            for s, okk in self.match_pat(p["sub"], v, st):
                if not okk:
                    out.append((s, False))
                else:
                    out.extend(self.eval_cond(p["g"], s))
            return out
        if k == "or":
            out = []
            pending = [st]
            for alt in p["alts"]:
                nxt = []
                for s in pending:
                    for s2, okk in self.match_pat(alt, v, s):
                        (out if okk else nxt).append((s2, okk) if okk else s2)
                pending = nxt
            return out + [(s, False) for s in pending]
        if k == "tuple":
            subs = p["subs"]
            if p.get("ddpos") is not None:
                return self.unknown_match(st, "tuple pattern with ..")
            if v[0] == "tup" and len(v[1]) == len(subs):
                vals = v[1]
            elif v[0] == "sym":
                vals = [self.resolve(sym("%s.%d" % (v[1], i)), st) for i in range(len(subs))]
            else:
                vals = [sym("tuple-elem") for _ in subs]
            return self.match_all(list(zip(subs, vals)), st)
        if k in ("tstruct", "struct"):
            return self.match_ctor(p, v, st)
        if k == "expr":
            e = p["e"]
            if e.get("k") == "lit":
                lv = e["v"]
                c = lv.get("int", lv.get("bool", lv.get("str")))
                if "int" in lv and e.get("neg"):
                    c = -c
                return self.match_const(c, v, st)
            if e.get("k") == "path":
                if e.get("variant"):
                    return self.match_ctor({"adt": e["adt"], "variant": e["variant"], "subs": [], "k": "tstruct"}, v, st)
                if "cv" in e:
                    return self.match_const(e["cv"], v, st)
                cv = self.m.consts.get(e.get("def"))
                if cv is not None:
                    return self.match_const(cv, v, st)
            return self.unknown_match(st, "constant pattern")
        if k == "range":
            lo = self.pat_const(p.get("lo"))
            hi = self.pat_const(p.get("hi"))
            v = self.resolve(v, st)
            if v[0] == "c" and isinstance(v[1], int) and (lo is not None or p.get("lo") is None) and (hi is not None or p.get("hi") is None):
                okk = (lo is None or v[1] >= lo) and (hi is None or (v[1] <= hi if p.get("incl") else v[1] < hi))
                return [(st, okk)]
            return self.unknown_match(st, "range")
        return self.unknown_match(st, "pattern %s" % k)

    def pat_const(self, e):
        if e is None:
            return None
        if e.get("k") == "lit":
            c = e["v"].get("int")
            return -c if (c is not None and e.get("neg")) else c
        if "cv" in e:
            return e["cv"]
        return self.m.consts.get(e.get("def"))

    def all_variants(self, adt):
        """variant names of an enum (workspace ADTs from the facts, Option/Result built in); None if unknown"""
        if adt == OPTION:
            return frozenset(["Some", "None"])
        if adt == RESULT:
            return frozenset(["Ok", "Err"])
        a = self.m.adts.get(adt)
        if a is None or a.get("kind") != "Enum":
            return None
        return frozenset(v["name"] for v in a["variants"])

    def unknown_match(self, st, why):
        s2 = self.fork(st)
        st.spec = s2.spec = True
        st.ncond += 1
        st.labels.append("pat#%d" % st.ncond)
        s2.ncond = st.ncond
        s2.labels.append("!pat#%d" % st.ncond)
        return [(st, True), (s2, False)]

    def match_all(self, pairs, st):
        acc = [(st, True)]
        for sub, val in pairs:
            nxt = []
            for s, okk in acc:
                if not okk:
                    nxt.append((s, False))
                else:
                    nxt.extend(self.match_pat(sub, val, s))
            acc = nxt
        return acc

    def match_const(self, c, v, st):
        v = self.resolve(v, st)
        if v[0] == "c":
            if isinstance(c, bool) != isinstance(v[1], bool):
                return [(st, False)]
            return [(st, v[1] == c)]
        if v[0] == "str":
            return [(st, v[1] == c)]
        if v[0] == "lin":
            return self.unknown_match(st, "length")
        if v[0] == "sym":
            f = st.facts.get(v[1])
            if f and f[0] == "ne" and c in f[1]:
                return [(st, False)]
            s2 = self.fork(st)
            st.facts[v[1]] = ("eq", c)
            s2.facts[v[1]] = ("ne", (f[1] if f and f[0] == "ne" else frozenset()) | frozenset([c]))
            st.spec = s2.spec = True
            st.labels.append("%s==%s" % (v[1], c))
            return [(st, True), (s2, False)]
        if v[0] == "tag":
            return self.match_const(c, v[1], st)
        return self.unknown_match(st, "constant")

    def match_ctor(self, p, v, st):
        adt, variant = p.get("adt"), p.get("variant")
        subs = p.get("subs")
        fields = p.get("fields")
        v = self.resolve(v, st)

        def sub_pairs(getter):
            if subs is not None:
                if p.get("ddpos") is not None:
                    dd = p["ddpos"]
                    return [(sp, getter(str(i))) for i, sp in enumerate(subs[:dd])]
                return [(sp, getter(str(i))) for i, sp in enumerate(subs)]
            return [(fp, getter(fname)) for fname, fp in (fields or [])]

        if variant is None:
            # plain struct destructuring
            if v[0] == "struct":
                return self.match_all(sub_pairs(lambda f: v[2].get(f, sym("field:%s" % f))), st)
            if v[0] == "sym":
                return self.match_all(sub_pairs(lambda f: self.resolve(sym("%s.%s" % (v[1], f)), st)), st)
            return self.match_all(sub_pairs(lambda f: sym("field:%s" % f)), st)
        if v[0] == "var":
            if v[2] != variant or (v[1] != adt and v[1] is not None and adt is not None):
                return [(st, False)]
            args = v[3]
            if isinstance(args, dict):
                return self.match_all(sub_pairs(lambda f: args.get(f, sym("field:%s" % f))), st)
            return self.match_all(sub_pairs(lambda f: args[int(f)] if f.isdigit() and int(f) < len(args) else sym("field:%s" % f)), st)
        if v[0] == "dtype":
            kinds = st.refine.get(v[2], v[1]) if len(v) > 2 else v[1]
            if adt != DTYPE:
                return [(st, False)]
            if variant not in kinds:
                return [(st, False)]
            if kinds == frozenset([variant]):
                return [(st, True)]
            s2 = self.fork(st)
            self.narrow(st, v, frozenset([variant]))
            self.narrow(s2, v, kinds - frozenset([variant]))
            return [(st, True), (s2, False)]
        if v[0] == "sym":
            key = v[1]
            f = st.facts.get(key)
            if f and f[0] == "variant":
                if f[2] != variant:
                    return [(st, False)]
                return self.match_all(sub_pairs(lambda fl: self.resolve(sym("%s.%s" % (key, fl)), st)), st)
            if f and f[0] == "notvar" and variant in f[1]:
                return [(st, False)]
            excluded = (f[1] if f and f[0] == "notvar" else frozenset()) | frozenset([variant])
            allv = self.all_variants(adt)
            if allv is not None and excluded >= allv:
                # every other variant has already been ruled out on this path: the value *is* this variant
                # (consecutive `if let V1 .. if let V2 ..` over an exhaustive enum must not leave a phantom arm)
                st.facts[key] = ("variant", adt, variant)
                return self.match_all(sub_pairs(lambda fl: self.resolve(sym("%s.%s" % (key, fl)), st)), st)
            s2 = self.fork(st)
            st.facts[key] = ("variant", adt, variant)
            s2.facts[key] = ("notvar", excluded)
            if not key.startswith("self"):
                st.spec = s2.spec = True
            res = self.match_all(sub_pairs(lambda fl: self.resolve(sym("%s.%s" % (key, fl)), st)), st)
            return res + [(s2, False)]
        return self.unknown_match(st, "variant of unknown value")

    # -- calls
    TRANSPARENT = {"clone", "to_owned", "as_ref", "deref", "borrow", "as_slice", "to_vec", "into_iter", "iter", "iter_mut", "as_mut",
                   "deref_mut", "as_deref", "cloned", "copied", "by_ref", "into", "as_str", "as_bytes", "to_string", "into_owned", "as_mut_slice"}
    COUNT_KEEPING = {"keys", "values", "sorted", "enumerate", "rev", "into_keys", "into_values", "sorted_by_key", "sorted_by", "peekable", "map", "inspect", "values_mut", "collect", "collect_vec", "sorted_unstable", "into_vec", "into_boxed_slice", "as_slice", "into_sorted_vec"}

    def e_call(self, n, st):
        if "f" in n:
            out = []
            for s, vs in self.seq([n["f"]] + n["args"], st):
                if s.status is not None:
                    out.append((s, UNIT))
                    continue
                fv, args = vs[0], vs[1:]
                if fv[0] == "clo":
                    out.extend(self.apply_closure(fv, args, s))
                elif fv[0] == "fn" and fv[1]:
                    out.extend(self.call_fn(n, fv[1], fv[1], None, args, s))       # `read(d)` with read = Decoder::skip
                elif fv[0] == "var" and not fv[3] and args and fv[1] not in (OPTION,):
                    out.append((s, ("var", fv[1], fv[2], args)))     # a tuple-variant constructor used as a function value
                else:
                    out.append((self.opaque_call(s, args, "call of a function value"), sym("call", self.ty(n))))
            return out
        rk = n.get("rk") or ""
        out = []
        for s, args in self.seq(n["args"], st):
            if s.status is not None:
                out.append((s, UNIT))
                continue
            if rk == "Local":
                fv = s.env.get(n.get("lid"), sym("fn-value"))        # a closure / fn path held in a local or parameter
                if fv[0] == "clo":
                    out.extend(self.apply_closure(fv, args, s))
                elif fv[0] == "fn" and fv[1]:
                    out.extend(self.call_fn(n, fv[1], fv[1], None, args, s))
                elif fv[0] == "var" and not fv[3] and args:
                    out.append((s, ("var", fv[1], fv[2], args)))
                else:
                    out.append((self.opaque_call(s, args, "a function value the interpreter does not know"), sym("call", self.ty(n))))
                continue
            if rk.startswith("Ctor:Variant"):
                out.append((s, ("var", n["adt"], n["variant"], args)))
            elif rk.startswith("Ctor:Struct") or rk == "SelfCtor":
                out.append((s, ("struct", n.get("adt") or self.ty(n), {str(i): a for i, a in enumerate(args)})))
            else:
                out.extend(self.call_fn(n, n.get("def") or "", n.get("inst"), None, args, s))
        return out

    def e_mcall(self, n, st):
        out = []
        for s, vs in self.seq([n["recv"]] + n["args"], st):
            if s.status is not None:
                out.append((s, UNIT))
                continue
            if vs[0][0] == "byteseq" and n.get("name") in ("push", "extend_from_slice", "extend") and len(vs) == 2:
                r = n["recv"]
                while isinstance(r, dict) and r.get("k") in ("ref",) or (isinstance(r, dict) and r.get("k") == "un" and r.get("op") == "Deref"):
                    r = r.get("e") or r.get("a")
                if isinstance(r, dict) and r.get("k") == "path" and r.get("rk") == "Local":
                    add = [vs[1]] if n["name"] == "push" else _byte_parts(vs[1])
                    s.env[r["lid"]] = ("byteseq", list(vs[0][1]) + add)
                    out.append((s, UNIT))
                    continue
            out.extend(self.call_fn(n, n.get("def") or "", n.get("inst"), vs[0], vs[1:], s))
        return out

    def opaque_call(self, s, args, what):
        for a in args:
            if self.is_handle(a) or (a is not None and a[0] == "clo" and self.closure_uses_handle(a, s)):
                self.unan(s, "the encoder/decoder is passed to %s" % what)
                break
        return s

    def closure_uses_handle(self, clo, s):
        from .hirwalk import walk
        env = clo[3] if len(clo) > 3 else s.env
        for x in walk(clo[1]["body"]):
            if x.get("k") == "path" and x.get("rk") == "Local" and (self.is_handle(env.get(x.get("lid"), UNIT)) or self.is_handle(s.env.get(x.get("lid"), UNIT))):
                return True
        return False

    def apply_closure(self, clo, args, st):
        """evaluate a closure value: in the function context it was written in, with the environment it captured
        (plus what the current frame knows, for closures applied where they are written)"""
        node = clo[1]
        foreign = len(clo) > 2 and clo[2] is not self.fx
        saved_env = st.env
        if foreign:
            st.env = dict(clo[3])
            self.fstack.append(clo[2])
        try:
            acc = [(st, True)]
            for p, a in zip(node.get("params", []), args):
                nxt = []
                for s, okk in acc:
                    nxt.extend(self.match_pat(p, a, s))
                acc = nxt
            out = []
            for s, okk in acc:
                for s2, v in self.eval(node["body"], s):
                    if s2.status is not None and s2.status[0] == "ret":
                        v = s2.status[1]
                        s2.status = None
                    if foreign:
                        s2.env = dict(saved_env)
                    out.append((s2, v))
            return out
        finally:
            if foreign:
                self.fstack.pop()

    def call_fn(self, n, d, inst, recv, args, s):
        """dispatch a resolved call; recv is None for path calls"""
        name = d.rsplit("::", 1)[-1]
        allargs = ([recv] if recv is not None else []) + args
        ty = self.ty(n)
        # ---- encoder / decoder methods
        if d.startswith(ENC_T + "::"):
            return self.enc_op(n, name, allargs, s)
        if d.startswith(DEC_T + "::"):
            return self.dec_op(n, name, allargs, s)
        if d == ENC_TRAIT + "::encode" and len(allargs) >= 2 and allargs[1][0] == "enc":
            src = n["recv"] if recv is not None else n["args"][0]
            return self.encode_value(allargs[0], self.ty(src), s, src.get("l"))
        if d == DEC_TRAIT + "::decode" and allargs and allargs[0][0] == "dec":
            t = parse_type(ty or "")
            target = t[2][0] if t[0] == "adt" and t[1] == RESULT and t[2] else ("other", "?")
            return self.dec_decode(allargs[0], target, s, n)
        if recv is not None and recv[0] == "writer":
            if name == "write_all":
                s.out.append(Tok("raw", val=args[0] if args else None, line=n.get("l")))
                return [(s, ok(UNIT))]
            self.unan(s, "writer method %s" % name)
            return [(s, UNIT)]
        # ---- Option / Result combinators
        if recv is not None and recv[0] == "var" and recv[1] in (OPTION, RESULT):
            r = self.combinator(name, recv, args, s, n)
            if r is not None:
                return r
        # ---- tags
        if d == "minicbor::data::Tag::new" and args:
            return [(s, ("tag", self.resolve(args[0], s)))]
        if d == "minicbor::data::IanaTag::tag" and recv is not None:
            return [(s, self.to_tag(recv))]
        if d == "minicbor::data::Tag::as_u64" and recv is not None and recv[0] == "tag":
            return [(s, recv[1])]
        if name in ("into", "from") and allargs and allargs[-1][0] == "var" and allargs[-1][1] == IANA:
            return [(s, self.to_tag(allargs[-1]))]
        if name in ("from", "into") and len(allargs) == 1 and allargs[0][0] == "tag" and (ty or "").endswith("u64"):
            return [(s, allargs[0][1])]
        # ---- panics
        if d.startswith("core::panicking::") or d in ("std::rt::begin_panic", "core::panicking::panic_fmt"):
            x = n.get("x") or ""
            s.status = ("panic", x.split(":")[-1] if x else "panic")
            return [(s, UNIT)]
        # ---- the byte at a decoder position (head byte of the next item)
        if recv is not None and recv[0] == "sym" and recv[1] == "input-bytes" and name == "get" and len(args) == 1 and args[0][0] == "pos":
            hb = self.head_byte(s, args[0])
            return [(s, some(hb) if hb is not None else NONE)]
        if recv is None and name in ("with_capacity", "new") and d.startswith("alloc::vec::Vec") and (ty or "").replace(" ", "") == "alloc::vec::Vec<u8>":
            return [(s, ("byteseq", []))]
        # ---- byte sequences assembled by hand (raw head bytes)
        if recv is not None and name in ("to_be_bytes",) and not args:
            t = parse_type(ty or "")
            width = int(t[2]) if t[0] == "array" and str(t[2]).isdigit() else None
            return [(s, ("bebytes", recv, width))]
        if recv is not None and name == "concat" and not args and recv[0] == "arrv" and all(x[0] in ("arrv", "bebytes", "byteseq") for x in recv[1]):
            parts = []
            for x in recv[1]:
                parts.extend(_byte_parts(x))
            return [(s, ("byteseq", parts))]
        if allargs and allargs[-1 if recv is None else 0][0] in ("inslice", "byteseq", "bebytes") and name in ("from", "into", "to_vec", "to_owned", "into_owned", "as_slice", "as_ref", "borrow", "deref", "clone"):
            return [(s, allargs[-1 if recv is None else 0])]
        # ---- lengths, ranges, iterators
        if recv is not None and name == "len" and not args:
            fixed = self.array_len(recv)
            if fixed is not None:
                return [(s, C(fixed))]
            k = self.keyof(recv)
            if k is not None:
                return [(s, lin(0, [("len(%s)" % k, 1)]))]
            if recv[0] in ("arrv", "tup"):
                return [(s, C(len(recv[1])))]
            return [(s, sym("len", ty))]
        if recv is not None and name == "is_empty" and not args:
            k = self.keyof(recv)
            return [(s, sym("is_empty(%s)" % k if k else "is_empty", "bool"))]
        if d.endswith("IntoIterator::into_iter") and len(allargs) == 1:
            return [(s, allargs[0])]
        if recv is not None and recv[0] == "range" and name in ("map",) and args and args[0][0] == "clo":
            return [(s, ("rangemap", recv, args[0]))]
        if recv is not None and recv[0] == "rangemap" and name in ("collect", "try_collect"):
            return self.run_rangemap(recv, s, n)
        if recv is not None and recv[0] == "diter":
            if name in ("collect", "try_collect", "map", "count", "by_ref", "into_iter"):
                self.opaque_call(s, args, "iterator adaptor %s" % name)
                return [(s, sym("collected", ty) if name != "map" else recv)]
        # ---- provenance-transparent calls
        if recv is not None and name in self.TRANSPARENT and not args and not self.is_handle(recv):
            return [(s, recv if recv[0] in ("sym", "lin", "c", "tup", "arrv", "var", "struct", "tag", "str", "range", "diter") else sym(name, ty))]
        if recv is not None and name in self.COUNT_KEEPING and recv[0] == "sym" and not self.is_handle(recv):
            self.opaque_call(s, args, "iterator adaptor %s" % name)
            return [(s, recv)]
        if name in ("try_into", "try_from", "from", "into", "unwrap", "expect", "unwrap_or_default") and len(allargs) >= 1 and as_lin(allargs[-1 if recv is None else 0]) is not None:
            v = allargs[-1 if recv is None else 0]
            return [(s, v if name in ("from", "into", "unwrap", "expect", "unwrap_or_default") else ok(v))]
        if recv is not None and recv[0] == "sym" and name in ("is_some", "is_none") and not args and (parse_type(self.ty(n["recv"]) or "")[1:2] == (OPTION,)):
            f = s.facts.get(recv[1])
            if f and f[0] == "variant":
                return [(s, C((f[2] == "Some") == (name == "is_some")))]
            if f and f[0] == "notvar" and len(f[1]) == 1:
                other = "None" if "Some" in f[1] else "Some"
                return [(s, C((other == "Some") == (name == "is_some")))]
            return [(s, ("isvar", recv[1], name == "is_some"))]
        if recv is not None and recv[0] == "sym" and name in ("unwrap", "expect") and s.facts.get(recv[1], ("",))[0] == "variant" and s.facts[recv[1]][1] == OPTION and s.facts[recv[1]][2] == "Some":
            return [(s, self.resolve(sym("%s.0" % recv[1], ty), s))]
        if recv is not None and recv[0] == "sym" and name in ("try_for_each", "for_each") and len(args) == 1 and args[0][0] == "clo" and self.closure_uses_handle(args[0], s):
            clo = args[0]
            fake = {"pat": clo[1]["params"][0] if clo[1].get("params") else {"k": "wild"}, "body": clo[1]["body"], "l": n.get("l")}
            res = self.enc_loop(fake, recv, s) if self.mode == "enc" else [(self.unan(s, "decoder loop in a closure over a collection") or s, UNIT)]
            return [(s2, ok(UNIT) if name == "try_for_each" else UNIT) for s2, _ in res]
        if recv is not None and recv[0] == "sym" and name in ("unwrap", "expect", "unwrap_or_default", "unwrap_or", "unwrap_or_else"):
            self.opaque_call(s, args, name)
            return [(s, sym(recv[1] + "!", ty))]
        if recv is not None and recv[0] == "sym" and name in ("map_err", "or", "or_else", "ok_or", "ok_or_else", "context"):
            self.opaque_call(s, args, name)
            return [(s, recv)]
        # ---- workspace functions: splice
        key = inst if inst in self.m.hir else (d if d in self.m.hir else None)
        if key is not None and len(self.fstack) <= MAX_DEPTH:
            touches = any(self.is_handle(a) for a in allargs)
            pure_small = (parse_type(ty or "")[0] == "prim" or _is_accessor(self.m.hir[key][1])) and not touches
            if touches or pure_small:
                return self.splice(key, allargs, s)
        self.opaque_call(s, allargs, "`%s`, which the interpreter cannot look into" % d)
        return [(s, sym("%s(..)" % name, ty))]

    def to_tag(self, v):
        if v[0] == "var" and v[1] == IANA:
            num = spec()["iana_tags"].get(v[2])
            return ("tag", C(num) if num is not None else sym("iana:%s" % v[2]))
        if v[0] == "tag":
            return v
        return ("tag", v)

    def keyof(self, v):
        if v[0] == "sym":
            k = v[1]
            while k.endswith("!") or k.endswith("?"):
                k = k[:-1]
            return k
        return None

    def splice(self, key, args, s):
        crate, hir = self.m.hir[key]
        fx = FnCtx(key, hir, crate)
        saved_env = s.env
        s.env = {}
        self.fstack.append(fx)
        try:
            acc = [(s, True)]
            for p, a in zip(hir["params"], args):
                nxt = []
                for s1, okk in acc:
                    nxt.extend(self.match_pat(p, a, s1))
                acc = nxt
            out = []
            for s1, okk in acc:
                for s2, v in self.eval(hir["root"], s1):
                    if s2.status is not None and s2.status[0] == "ret":
                        v = s2.status[1]
                        s2.status = None
                    s2.env = dict(saved_env)
                    out.append((s2, v))
            return out
        finally:
            self.fstack.pop()

    def combinator(self, name, recv, args, s, n):
        adt, var = recv[1], recv[2]
        inner = _vargs(recv)[0] if _vargs(recv) else UNIT
        good = var in ("Some", "Ok")
        if name in ("is_some", "is_ok"):
            return [(s, C(good))]
        if name in ("is_none", "is_err"):
            return [(s, C(not good))]
        if name in ("ok_or", "ok_or_else") and adt == OPTION:
            self.opaque_call(s, [], name)
            return [(s, ok(inner) if good else err(("derr", "absent value (%s)" % name, True)))]
        if name in ("unwrap_or_default", "unwrap_or", "unwrap_or_else"):
            if good:
                return [(s, inner)]
            if name == "unwrap_or" and args:
                return [(s, args[0])]
            if name == "unwrap_or_default":
                return [(s, C(0))]
            return [(s, sym("default", self.ty(n)))]
        if name in ("unwrap", "expect"):
            if good:
                return [(s, inner)]
            s.status = ("panic", "unwrap")
            return [(s, UNIT)]
        if name in ("map_err", "or", "or_else") and good:
            return [(s, recv)]
        if name == "map_err" and not good:
            return [(s, recv)]
        if name in ("ok",) and adt == RESULT:
            return [(s, some(inner) if good else NONE)]
        if name in ("err",) and adt == RESULT:
            return [(s, NONE if good else some(inner))]
        if name == "map" and args and args[0][0] == "clo":
            if not good:
                return [(s, recv)]
            return [(s2, ("var", adt, var, [v])) for s2, v in self.apply_closure(args[0], [inner], s)]
        if name == "map" and args and args[0][0] == "var" and not args[0][3]:
            if not good:
                return [(s, recv)]
            return [(s, ("var", adt, var, [("var", args[0][1], args[0][2], [inner])]))]      # `.map(AnyUInt::U64)`
        if name == "map" and args and args[0][0] in ("fn",) and good:
            res = self.call_fn(n, args[0][1] or "", args[0][1], None, [inner], s)
            return [(s2, ("var", adt, var, [v])) for s2, v in res]
        if name in ("is_some_and", "is_ok_and", "is_none_or") and args and args[0][0] == "clo":
            if not good:
                return [(s, C(name == "is_none_or"))]
            return self.apply_closure(args[0], [inner], s)
        if name in ("and_then",) and args and args[0][0] == "clo":
            if not good:
                return [(s, recv)]
            return self.apply_closure(args[0], [inner], s)
        return None

    # -- loops
    def while_counter(self, n, st):
        """`while c > 0 { ..; c -= 1 }` / `while i < n { ..; i += 1 }` with exactly one unconditional unit step of the counter
        and no other write to it, no break/continue: -> (trip count value, body block, counter lid, final value) or None"""
        from .hirwalk import walk
        if n.get("src") != "While":
            return None
        b = n["body"]
        inner = b.get("expr")
        if inner is None and len(b.get("stmts", [])) == 1:
            inner = b["stmts"][0].get("e")
        if not isinstance(inner, dict) or inner.get("k") != "if" or inner.get("else") is None:
            return None
        els = inner["else"]
        eb = els.get("expr") if els.get("k") == "block" else els
        if els.get("k") == "block" and eb is None and len(els.get("stmts", [])) == 1:
            eb = els["stmts"][0].get("e")
        if not isinstance(eb, dict) or eb.get("k") != "break":
            return None
        c, body = inner["c"], inner["then"]
        if c.get("k") != "bin" or body.get("k") != "block":
            return None

        def local(x):
            x = x if isinstance(x, dict) else {}
            while x.get("k") in ("cast", "ref") or (x.get("k") == "un" and x.get("op") == "Deref"):
                x = x.get("a") or x.get("e")
            return x.get("lid") if x.get("k") == "path" and x.get("rk") == "Local" else None

        def lit(x):
            return x["v"].get("int") if isinstance(x, dict) and x.get("k") == "lit" and "int" in x.get("v", {}) else None

        op, a, bb = c["op"], c["a"], c["b"]
        down = up = None
        if local(a) is not None and lit(bb) is not None and ((op in ("Gt", "Ne") and lit(bb) == 0) or (op == "Ge" and lit(bb) == 1)):
            down = local(a)
        elif local(bb) is not None and lit(a) is not None and ((op in ("Lt", "Ne") and lit(a) == 0) or (op == "Le" and lit(a) == 1)):
            down = local(bb)
        elif local(a) is not None and op in ("Lt", "Ne"):
            up = (local(a), bb)
        elif local(bb) is not None and op in ("Gt", "Ne"):
            up = (local(bb), a)
        ctr = down if down is not None else (up[0] if up else None)
        if ctr is None:
            return None
        want = "SubAssign" if down is not None else "AddAssign"
        steps = 0
        for st_ in body.get("stmts", []):
            e = st_.get("e") if st_.get("k") in ("semi", "expr") else None
            if isinstance(e, dict) and e.get("k") == "assignop" and local(e["lhs"]) == ctr and e.get("op") in (want, want[:3]) and lit(e["rhs"]) == 1:
                steps += 1
            elif isinstance(e, dict) and e.get("k") == "assign" and local(e["lhs"]) == ctr and e["rhs"].get("k") == "bin" \
                    and e["rhs"]["op"] == want[:3] and local(e["rhs"]["a"]) == ctr and lit(e["rhs"]["b"]) == 1:
                steps += 1
        writes = 0
        for x in walk(body):
            if x.get("k") in ("assign", "assignop") and local(x["lhs"]) == ctr:
                writes += 1
            if x.get("k") in ("break", "continue"):
                return None
            if x.get("k") == "ref" and x.get("mut") and local(x.get("e")) == ctr:
                return None
        if steps != 1 or writes != 1:
            return None
        v0 = self.resolve(st.env.get(ctr, sym("?")), st)
        if as_lin(v0) is None:
            return None
        if down is not None:
            return v0, body, ctr, C(0)
        res = self.eval(up[1], st)
        if len(res) != 1 or res[0][0].status is not None or as_lin(res[0][1]) is None:
            return None
        trip = lin_add(res[0][1], v0, -1)
        return (trip, body, ctr, res[0][1]) if trip is not None else None

    def e_loop(self, n, st):
        from .hirwalk import walk
        if self.body_uses_handle(n["body"], st):
            wc = self.while_counter(n, st)
            if wc is not None:
                trip, body, ctr, final = wc
                fake = {"pat": {"k": "wild"}, "body": body, "l": n.get("l")}
                rng = ("range", C(0), trip)
                res = self.enc_loop(fake, rng, st) if self.mode == "enc" else self.dec_loop(fake, rng, st)
                for s2, _ in res:
                    if s2.status is None:
                        s2.env[ctr] = final
                return res
        for x in walk(n["body"]):
            if x.get("k") == "path" and x.get("rk") == "Local" and self.is_handle(st.env.get(x.get("lid"), UNIT)):
                self.unan(st, "`loop`/`while` around encoder/decoder calls")
                return [(st, UNIT)]
        self.havoc_assigned(n["body"], st)
        return [(st, UNIT)]

    def havoc_assigned(self, body, st):
        from .hirwalk import walk
        for x in walk(body):
            if x.get("k") in ("assign", "assignop"):
                self.assign_to(x["lhs"], sym("loop-carried"), st)
            if x.get("k") == "mcall" and isinstance(x.get("recv"), dict):
                r = x["recv"]
                while isinstance(r, dict) and r.get("k") in ("ref", "field", "un"):
                    r = r.get("e") or r.get("a")
                if isinstance(r, dict) and r.get("k") == "path" and r.get("rk") == "Local" and x.get("name") in ("push", "insert", "extend", "extend_from_slice", "push_back"):
                    v = st.env.get(r.get("lid"))
                    if v is not None and not self.is_handle(v):
                        st.env[r["lid"]] = sym("loop-built:%s" % r.get("local"))

    def body_uses_handle(self, body, st):
        from .hirwalk import walk
        for x in walk(body):
            if x.get("k") == "path" and x.get("rk") == "Local" and self.is_handle(st.env.get(x.get("lid"), UNIT)):
                return True
        return False

    def e_for(self, n, st):
        out = []
        for s, it in self.eval(n["iter"], st):
            if s.status is not None:
                out.append((s, UNIT))
                continue
            uses = self.body_uses_handle(n["body"], s)
            if not uses:
                # a loop that does not touch the codec: its effect on locals is forgotten
                for s2, okk in self.match_pat(n["pat"], sym("elem"), s):
                    pass
                self.havoc_assigned(n["body"], s)
                out.append((s, UNIT))
                continue
            if self.mode == "enc":
                out.extend(self.enc_loop(n, it, s))
            else:
                out.extend(self.dec_loop(n, it, s))
        return out

    def array_len(self, it, node=None):
        """N when the iterated value is a fixed-size array `[T; N]` (by its type), else None"""
        for ts in ((it[2] if it is not None and it[0] == "sym" and len(it) > 2 else None), (self.ty(node) if node is not None else None)):
            if ts:
                t = parse_type(ts)
                if t[0] == "adt" and t[1] == "core::array::iter::IntoIter" and len(t[2]) == 1:
                    m_ = re.search(r",\s*(\d+)>\s*$", ts)
                    if m_:
                        return int(m_.group(1))
                if t[0] == "array" and str(t[2]).isdigit():
                    return int(t[2])
        if it is not None and it[0] == "arrv":
            return len(it[1])
        return None

    def enc_loop(self, n, it, s):
        key = self.keyof(it) if it[0] == "sym" else None
        fixed = self.array_len(it, n.get("iter"))
        if fixed is not None:
            cnt = C(fixed)
        elif it[0] == "range":
            cnt = lin_add(it[2], it[1], -1) if it[1] is not None and it[2] is not None else None
        elif key is not None:
            cnt = lin(0, [("len(%s)" % key, 1)])
        else:
            cnt = None
        saved = s.out
        s.out = []
        elem = sym("%s[]" % key if key else "elem")
        res = []
        for s1, okk in self.match_pat(n["pat"], elem, s):
            if okk:
                res.extend(self.eval(n["body"], s1))
        bodies = []
        for s2, _ in res:
            if s2.status is not None and s2.status[0] in ("cont",):
                s2.status = None
            if s2.status is not None and s2.status[0] == "ret" and s2.status[1][0] == "var" and s2.status[1][2] == "Err":
                continue        # an element the encoder refuses: not a shape
            bodies.append(s2)
        if not bodies:
            s.out = saved
            self.unan(s, "loop body has no normal exit")
            return [(s, UNIT)]
        first = bodies[0]
        sig = shape_str(first.out)
        for b in bodies[1:]:
            if shape_str(b.out) != sig or b.status != first.status:
                s.out = saved
                self.unan(s, "the items written per loop iteration depend on the element (%s | %s)" % (sig, shape_str(b.out)))
                return [(s, UNIT)]
        if first.status is not None:
            s.out = saved
            self.unan(s, "loop body exits early (%s)" % first.status[0])
            return [(s, UNIT)]
        body = first.out
        if cnt is not None and cnt[0] == "c" and isinstance(cnt[1], int) and 0 <= cnt[1] <= 32:
            first.out = saved + body * cnt[1]          # a constant trip count: the loop is just that many items
        else:
            first.out = saved + [Tok("loop", n=cnt, body=body, key=key, line=n.get("l"))]
        return [(first, UNIT)]

    def run_rangemap(self, rm, s, n):
        """`(0..len).map(|_| ..decoder..).collect()`"""
        rng, clo = rm[1], rm[2]
        if not self.closure_uses_handle(clo, s):
            return [(s, sym("collected", self.ty(n)))]
        fake = {"pat": clo[1]["params"][0] if clo[1].get("params") else {"k": "wild"}, "body": clo[1]["body"], "l": n.get("l")}
        res = self.dec_loop(fake, rng, s) if self.mode == "dec" else self.enc_loop(fake, rng, s)
        return [(s2, ok(sym("collected", self.ty(n)))) for s2, _ in res]

    # -- encoder operations
    def enc_op(self, n, name, args, s):
        sp = spec()["encoder_methods"]
        line = n.get("l")
        if not args or args[0][0] != "enc":
            self.unan(s, "Encoder::%s on something that is not the encoder parameter" % name)
            return [(s, UNIT)]
        a = [self.resolve(x, s) for x in args[1:]]
        if name in ("encode", "encode_with"):
            src = n["args"][0]
            return [(s2, ok(("enc",))) for s2, _ in self.encode_value(a[0], self.ty(src), s, line)]
        if name == "writer_mut" or name == "writer":
            return [(s, ("writer",))]
        if name == "ok":
            return [(s, ok(UNIT))]
        m = sp.get(name)
        if m is None:
            self.unan(s, "Encoder::%s is not modelled" % name)
            return [(s, UNIT)]
        if m.get("opens"):
            if m["definite"]:
                s.out.append(Tok("arr" if m["opens"] == "array" else "map", n=a[0] if a else None, line=line))
            else:
                s.out.append(Tok("begin", ctype={"array": "arr", "map": "map", "bytes": "bytes", "str": "str"}[m["opens"]], line=line))
        elif m.get("closes"):
            s.out.append(Tok("end", line=line))
        elif m.get("prefix"):
            s.out.append(Tok("tag", val=self.to_tag(a[0]) if a else None, line=line))
        else:
            kinds = frozenset(m["heads"])
            val = a[0] if a else None
            rng = tuple(m["int"]) if "int" in m else None
            if val is not None and val[0] == "c" and isinstance(val[1], int) and not isinstance(val[1], bool) and rng:
                kinds = int_kinds_for_const(val[1])
            if val is not None and val[0] not in ("c", "sym"):
                val = None if val[0] != "lin" else val
            s.out.append(Tok("item", kinds=kinds, val=val, how=name, rng=rng, ty=name if rng or name in ("bool",) else None, line=line))
        return [(s, ok(("enc",)))]

    def encode_value(self, v, tystr, s, line):
        """`e.encode(v)` / `v.encode(e, ctx)`: expand tuples, arrays, literals, Options of known variant; otherwise one
        opaque item of the value's type (arity and head kinds from the model)."""
        t = parse_type(tystr or "")
        self._encode_value(v, t, s, line)
        return [(s, ok(UNIT))]

    def _encode_value(self, v, t, s, line):
        v = self.resolve(v, s) if v is not None else None
        if t[0] == "tuple" or (v is not None and v[0] == "tup"):
            elems = t[1] if t[0] == "tuple" else [("other", "?")] * len(v[1])
            vals = v[1] if (v is not None and v[0] == "tup" and len(v[1]) == len(elems)) else None
            s.out.append(Tok("arr", n=C(len(elems)), line=line))
            for i, et in enumerate(elems):
                ev = vals[i] if vals is not None else (sym("%s.%d" % (v[1], i)) if v is not None and v[0] == "sym" else None)
                self._encode_value(ev, et, s, line)
            return
        if t[0] == "array" and (t[2].isdigit() or (v is not None and v[0] == "arrv")):
            cnt = len(v[1]) if v is not None and v[0] == "arrv" else int(t[2])
            if cnt <= 32:
                s.out.append(Tok("arr", n=C(cnt), line=line))
                for i in range(cnt):
                    self._encode_value(v[1][i] if v is not None and v[0] == "arrv" else None, t[1], s, line)
                return
        if v is not None and v[0] == "var" and v[1] == OPTION:
            if v[2] == "None":
                s.out.append(Tok("item", kinds=frozenset(["Null"]), how="null", line=line))
            else:
                inner = t[2][0] if t[0] == "adt" and t[1] == OPTION and t[2] else ("other", "?")
                self._encode_value(_vargs(v)[0], inner, s, line)
            return
        if v is not None and v[0] == "c" and isinstance(v[1], bool):
            s.out.append(Tok("item", kinds=frozenset(["Bool"]), val=v, how="bool", ty="bool", line=line))
            return
        if v is not None and v[0] == "c" and isinstance(v[1], int):
            rng = None
            if t[0] == "prim":
                rt = spec()["rust_types"].get(t[1])
                rng = tuple(rt["int"]) if rt and "int" in rt else None
            s.out.append(Tok("item", kinds=int_kinds_for_const(v[1]), val=v, how=t[1] if t[0] == "prim" else "int", rng=rng, ty=type_str(t), line=line))
            return
        if v is not None and v[0] == "tag":
            s.out.append(Tok("tag", val=v, line=line))
            return
        ts = type_str(t)
        kinds = self.m.head_kinds(t)
        ar = self.m.arity(t, self.owner)
        rng = None
        if t[0] == "prim":
            rt = spec()["rust_types"].get(t[1])
            rng = tuple(rt["int"]) if rt and "int" in rt else None
        val = v if v is not None and v[0] in ("sym", "lin") else None
        s.out.append(Tok("item", kinds=kinds, val=val, how="encode", ty=ts, arity=ar, rng=rng, line=line))

    # -- decoder operations
    def stream(self, s, d):
        return s.streams[d[1]], s.cur[d[1]]

    def tok_kinds(self, s, t):
        """possible head types of the item starting at stream token t"""
        r = s.refine.get(id(t))
        if r is not None:
            return None if "<generic>" in r else r
        if t.kind == "hdr":
            m = {"arr": ("Array", "ArrayIndef"), "map": ("Map", "MapIndef"), "bytes": (None, "BytesIndef"), "str": (None, "StringIndef")}[t.ctype]
            return frozenset([m[0] if t.n is not None else m[1]])
        if t.kind == "tag":
            return frozenset(["Tag"])
        if t.kind == "end":
            return frozenset(["Break"])
        if t.kind == "item":
            return t.tok.kinds
        return None

    def head_byte(self, s, pos):
        """abstract value of the byte at a decoder position = first byte of the item that starts there"""
        stream = s.streams.get(pos[1])
        if stream is None or pos[2] >= len(stream):
            return None
        t = stream[pos[2]]
        if t.kind == "item" and t.tok.head is not None:
            return t.tok.head
        if t.kind == "item" and t.tok.rng is not None and t.tok.how != "encode" and t.tok.val is not None and t.tok.val[0] == "c" \
                and isinstance(t.tok.val[1], int) and not isinstance(t.tok.val[1], bool) and 0 <= t.tok.val[1] <= 23:
            return t.tok.val          # minicbor's integer writers use the shortest (immediate) form
        return sym("head-byte@%s" % pos[2], "u8")

    def derr(self, why, definite=True):
        return err(("derr", why, definite))

    def expand_at(self, s, d, what):
        """the decoder wants to look inside the opaque item at the cursor: replace it by the shape(s) of its type's encoder
        (universal fork over the encoder's arms).  -> list of states, or None when the item cannot be expanded"""
        stream, i = self.stream(s, d)
        t = stream[i]
        if t.kind != "item" or t.tok.how != "encode" or not t.tok.ty:
            return None
        alts = self.m.expansions(parse_type(t.tok.ty), t.tok.val)
        if not alts:
            return None
        out = []
        r = s.refine.get(id(t))
        feasible = []
        for toks, fcts in alts:
            sub = build_stream(toks)
            k0 = self.tok_kinds(s, sub[0]) if sub else None
            if r is not None and k0 is not None and not (k0 & r):
                continue            # this arm of the inner encoder cannot start with the head type already established
            feasible.append((sub, fcts, (k0 & r) if (r is not None and k0 is not None) else r))
        if not feasible:
            return None
        for k, (sub, fcts, r2) in enumerate(feasible):
            s2 = s if k == len(feasible) - 1 else self.fork(s)
            shifted = _shift(sub, i)
            if r2 is not None and shifted:
                s2.refine[id(shifted[0])] = r2
            new = list(stream[:i]) + shifted + _shift_tail(stream[i + 1:], len(sub) - 1)
            # containers that enclose position i must have their skip_to moved as well
            for j in range(i):
                if new[j].skip_to is not None and new[j].skip_to > i:
                    c = STok(new[j].kind)
                    for a in STok.__slots__:
                        setattr(c, a, getattr(new[j], a))
                    c.skip_to = new[j].skip_to + len(sub) - 1
                    if id(new[j]) in s2.refine:
                        s2.refine[id(c)] = s2.refine[id(new[j])]
                    new[j] = c
            s2.streams[d[1]] = new
            for did, st_ in list(s2.streams.items()):
                if st_ is stream and did != d[1]:
                    s2.streams[did] = new
                    if s2.cur[did] > i:
                        s2.cur[did] += len(sub) - 1
            for kf, vf in fcts.items():
                s2.facts.setdefault(kf, vf)
            if len(feasible) > 1:
                s2.inner = True
            out.append(s2)
        return out

    def dec_op(self, n, name, args, s):
        if not args or args[0][0] != "dec":
            self.unan(s, "Decoder::%s on something that is not the decoder parameter" % name)
            return [(s, UNIT)]
        d = args[0]
        sp = spec()["decoder_methods"]
        ty = self.ty(n)
        if name in ("decode", "decode_with"):
            t = parse_type(ty or "")
            target = t[2][0] if t[0] == "adt" and t[1] == RESULT and t[2] else ("other", "?")
            return self.dec_decode(d, target, s, n)
        stream, i = self.stream(s, d)
        if name == "position":
            return [(s, ("pos", d[1], i, id(stream)))]
        if name == "set_position":
            p = args[1] if len(args) > 1 else None
            if p is None or p[0] != "pos":
                self.unan(s, "set_position with a position the interpreter did not see being taken")
                return [(s, UNIT)]
            s.cur[d[1]] = p[2]
            return [(s, UNIT)]
        if name == "probe":
            self.seq_id += 1
            nid = "probe%d" % self.seq_id
            s.streams[nid] = stream
            s.cur[nid] = i
            return [(s, ("dec", nid))]
        if name == "input":
            return [(s, sym("input-bytes", ty))]
        if name == "datatype":
            if i >= len(stream):
                return [(s, self.derr("end of input", True))]
            t = stream[i]
            if t.kind == "loop":
                self.unan(s, "datatype() at a data-dependent sequence")
                return [(s, UNIT)]
            kinds = self.tok_kinds(s, t)
            if kinds is None and t.kind == "item" and t.tok.ty and parse_type(t.tok.ty)[0] == "param":
                # a generic payload: assumed to start with none of the head types the decoder names explicitly
                # (the implicit contract of wrappers such as Nullable<T>); it only matches catch-all arms
                return [(s, ok(("dtype", frozenset(["<generic>"]), id(t))))]
            if kinds is None:
                ex = self.expand_at(s, d, "datatype")
                if ex is None:
                    self.unan(s, "datatype() dispatch on an item whose head type is not determinable (%s)" % (t.tok.ty if t.tok is not None else t.kind))
                    return [(s, UNIT)]
                out = []
                for s2 in ex:
                    out.extend(self.dec_op(n, name, args, s2))
                return out
            return [(s, ok(("dtype", kinds, id(t))))]
        m = sp.get(name)
        if m is None:
            self.unan(s, "Decoder::%s is not modelled" % name)
            return [(s, UNIT)]
        if i >= len(stream):
            return [(s, self.derr("%s() after the last item the encoder writes" % name, True))]
        t = stream[i]
        if t.kind == "loop":
            self.unan(s, "%s() reads an element of a data-dependent sequence outside a loop" % name)
            return [(s, UNIT)]
        accepts = m["accepts"]
        if name == "skip":
            s.cur[d[1]] = t.skip_to
            return [(s, ok(UNIT))]
        kinds = self.tok_kinds(s, t)
        # an opaque item where the decoder reads a header / tag / primitive: look inside the item's own encoder
        if t.kind == "item" and t.tok.how == "encode" and (m.get("header") or m.get("prefix") or kinds is None or not kinds <= frozenset(accepts)):
            ex = self.expand_at(s, d, name)
            if ex is not None:
                out = []
                for s2 in ex:
                    out.extend(self.dec_op(n, name, args, s2))
                return out
            if kinds is None:
                if m.get("header") or m.get("prefix"):
                    self.unan(s, "%s() opens an item the encoder writes as an opaque value of type %s" % (name, t.tok.ty))
                    return [(s, UNIT)]
        if t.kind == "raw":
            self.unan(s, "%s() reads bytes the encoder wrote verbatim" % name)
            return [(s, UNIT)]
        if kinds is not None:
            bad = kinds - frozenset(accepts)
            if bad:
                return [(s, self.derr("%s() meets %s (encoder: %s)" % (name, "/".join(sorted(bad)), self.describe(t)), True))]
        if m.get("header"):
            if t.kind != "hdr":
                self.unan(s, "%s() on an opaque item of type %s" % (name, t.tok.ty if t.tok is not None else "?"))
                return [(s, UNIT)]
            s.cur[d[1]] = i + 1
            return [(s, ok(some(t.n) if t.n is not None else NONE))]
        if m.get("prefix"):
            s.cur[d[1]] = i + 1
            return [(s, ok(t.val if t.val is not None and t.val[0] == "tag" else ("tag", sym("tag"))))]
        if m.get("whole_item"):
            s.cur[d[1]] = t.skip_to
            return [(s, ok(("diter", name)))]
        # primitive read
        if t.kind == "hdr":
            return [(s, self.derr("%s() meets the header of %s" % (name, self.describe(t)), True))]
        if t.kind != "item":
            return [(s, self.derr("%s() meets %s" % (name, self.describe(t)), True))]
        tk = t.tok
        if "int" in m and tk.rng is not None:
            lo, hi = m["int"]
            v = tk.val
            if v is not None and v[0] == "c" and isinstance(v[1], int):
                fits = lo <= v[1] <= hi
            else:
                fits = lo <= tk.rng[0] and tk.rng[1] <= hi
            if not fits:
                s.cur[d[1]] = t.skip_to
                return [(s, self.derr("%s() is narrower than what the encoder writes here (%s)" % (name, self.describe(t)), True))]
        s.cur[d[1]] = t.skip_to
        s.nread += 1
        v = tk.val
        if v is None or v[0] not in ("c", "sym", "lin"):
            v = sym("read#%d" % s.nread, ty)
        return [(s, ok(self.resolve(v, s)))]

    def describe(self, t):
        if t.kind == "hdr":
            return "%s(%s)" % ({"arr": "array", "map": "map", "bytes": "bytes", "str": "str"}[t.ctype], val_str(t.n) if t.n is not None else "indefinite")
        if t.kind == "item":
            return shape_str([t.tok])
        if t.kind == "tag":
            return "tag(%s)" % val_str(t.val)
        return t.kind

    def dec_decode(self, d, target, s, n):
        """`d.decode::<T>()`, `d.decode_with(ctx)`, `T::decode(d, ctx)`"""
        stream, i = self.stream(s, d)
        tname = type_str(target)
        if i >= len(stream):
            return [(s, self.derr("decode::<%s>() after the last item the encoder writes" % _short_ty(tname), True))]
        t = stream[i]
        if t.kind == "loop":
            self.unan(s, "decode::<%s>() reads an element of a data-dependent sequence outside a loop" % _short_ty(tname))
            return [(s, UNIT)]
        same = t.kind == "item" and t.tok.ty is not None and _same_type(parse_type(t.tok.ty), target)
        # tuples: the std decoder requires a definite array of exactly that arity
        if target[0] == "tuple" and not same:
            if t.kind == "hdr" and t.ctype == "arr":
                if t.n is None or t.n[0] != "c" or t.n[1] != len(target[1]):
                    return [(s, self.derr("decode::<%s>() needs array(%d) but the encoder writes %s" % (_short_ty(tname), len(target[1]), self.describe(t)), True))]
                s.cur[d[1]] = i + 1
                acc = [(s, [])]
                for et in target[1]:
                    nxt = []
                    for s1, vs in acc:
                        if s1.status is not None:
                            nxt.append((s1, vs))
                            continue
                        for s2, r in self.dec_decode(d, et, s1, n):
                            if s2.status is None and r[0] == "var" and r[2] == "Err":
                                s2.status = ("ret", r)
                                nxt.append((s2, vs))
                            else:
                                nxt.append((s2, vs + [_vargs(r)[0] if r[0] == "var" and r[1] == RESULT else r]))
                    acc = nxt
                out = []
                for s1, vs in acc:
                    if s1.status is not None and s1.status[0] == "ret":
                        r = s1.status[1]
                        s1.status = None
                        out.append((s1, r))
                    else:
                        out.append((s1, ok(("tup", vs))))
                return out
            kinds = self.tok_kinds(s, t)
            if kinds is not None and "Array" not in kinds:
                return [(s, self.derr("decode::<%s>() meets %s" % (_short_ty(tname), self.describe(t)), True))]
        # a workspace type with its own hand-written decoder, read from explicit tokens: one-level splice
        if not same and target[0] == "adt" and len(self.fstack) <= MAX_DEPTH - 1:
            dk = self.m.decoder_key(target)
            if dk is not None and not (t.kind == "item" and t.tok.how == "encode" and self.m.expansions(parse_type(t.tok.ty or ""), None) is None and t.tok.kinds is None):
                cx = sym("ctx")
                res = self.splice(dk, [d, cx], s)
                return [(s2, v if v[0] == "var" and v[1] == RESULT else ok(v)) for s2, v in res]
        ar = 1 if same else self.m.arity(target, self.owner)
        kinds = self.tok_kinds(s, t)
        acc = self.m.accept_kinds(target)
        if not same and kinds is not None and acc is not None and not (kinds <= acc):
            return [(s, self.derr("decode::<%s>() does not accept %s (encoder: %s)" % (_short_ty(tname), "/".join(sorted(kinds - acc)), self.describe(t)), True))]
        if t.kind == "end":
            return [(s, self.derr("decode::<%s>() meets the end of an indefinite container" % _short_ty(tname), True))]
        if not same and t.kind == "item" and t.tok.rng is not None and target[0] == "prim":
            rt = spec()["rust_types"].get(target[1])
            if rt and "int" in rt:
                lo, hi = rt["int"]
                v = t.tok.val
                fits = (lo <= v[1] <= hi) if (v is not None and v[0] == "c" and isinstance(v[1], int)) else (lo <= t.tok.rng[0] and t.tok.rng[1] <= hi)
                if not fits:
                    return [(s, self.derr("decode::<%s>() is narrower than what the encoder writes here (%s)" % (tname, self.describe(t)), True))]
        j = i
        want = ar if not same else t.tok.arity
        got = 0
        while got < want:
            if j >= len(stream):
                return [(s, self.derr("decode::<%s>() needs %d items, the encoder writes %d here" % (_short_ty(tname), want, got), True))]
            tj = stream[j]
            if tj.kind in ("loop", "end"):
                return [(s, self.derr("decode::<%s>() needs %d items, the encoder writes %d here" % (_short_ty(tname), want, got), True))]
            got += tj.tok.arity if tj.kind == "item" else 1
            j = tj.skip_to
        s.cur[d[1]] = j
        s.nread += 1
        v = None
        if t.kind == "item" and t.tok.val is not None and t.tok.val[0] in ("c", "sym"):
            v = self.resolve(t.tok.val, s)
        if v is None:
            v = sym("read#%d" % s.nread, tname)
        return [(s, ok(v))]

    def dec_loop(self, n, it, s):
        """a decoder `for` whose body reads from the decoder: must face a `loop` token with the same trip count"""
        d = None
        for did in s.streams:
            d = ("dec", did) if d is None else d
        # which decoder does the body use?  (the first handle found in the body)
        from .hirwalk import walk
        for x in walk(n["body"]):
            if x.get("k") == "path" and x.get("rk") == "Local":
                v = s.env.get(x.get("lid"))
                if v is not None and v[0] == "dec":
                    d = v
                    break
        if it[0] != "range":
            fixed = self.array_len(it, n.get("iter"))
            if fixed is None:
                self.unan(s, "decoder loop over something other than `0..len` or a fixed-size array")
                return [(s, UNIT)]
            it = ("range", C(0), C(fixed))      # `for slot in buf.iter_mut()` over `[T; N]`: N iterations by type
        cnt = lin_add(it[2], it[1], -1) if it[1] is not None and it[2] is not None else None
        stream, i = self.stream(s, d)
        if cnt is not None and cnt[0] == "c" and isinstance(cnt[1], int) and cnt[1] <= 16 and (i >= len(stream) or stream[i].kind != "loop"):
            cur = [s]
            for _ in range(cnt[1]):
                nxt = []
                for s1 in cur:
                    if s1.status is not None:
                        nxt.append(s1)
                        continue
                    for s2, okk in self.match_pat(n["pat"], sym("i"), s1):
                        for s3, _v in self.eval(n["body"], s2):
                            if s3.status is not None and s3.status[0] == "cont":
                                s3.status = None
                            nxt.append(s3)
                cur = nxt
            return [(s1, UNIT) for s1 in cur]
        if i >= len(stream) or stream[i].kind != "loop":
            if cnt is not None and as_lin(cnt) is not None and i < len(stream) and stream[i].kind == "item":
                ex = self.expand_at(s, d, "loop")
                if ex is not None:
                    out = []
                    for s2 in ex:
                        out.extend(self.dec_loop(n, it, s2))
                    return out
            self.unan(s, "the decoder loops %s times where the encoder does not write a loop" % val_str(cnt))
            return [(s, UNIT)]
        lt = stream[i]
        ecnt = lt.n if as_lin(lt.n) is not None else None
        if cnt is None or ecnt is None or cnt != ecnt:
            s.status = ("ret", self.derr("the decoder iterates %s times, the encoder writes %s iterations" % (val_str(cnt), val_str(lt.n)), True))
            return [(s, UNIT)]
        self.seq_id += 1
        sid = "loop%d" % self.seq_id
        # run the body once on the per-iteration stream
        outer_stream, outer_i = stream, i
        s.streams[d[1]] = lt.body
        s.cur[d[1]] = 0
        out = []
        for s1, okk in self.match_pat(n["pat"], sym("i"), s):
            for s2, _v in self.eval(n["body"], s1):
                if s2.status is not None and s2.status[0] == "cont":
                    s2.status = None
                if s2.status is None:
                    if s2.cur[d[1]] != len(s2.streams[d[1]]):
                        s2.status = ("ret", self.derr("one decoder iteration leaves some of the items the encoder writes per iteration unread", True))
                    self.havoc_assigned(n["body"], s2)
                s2.streams[d[1]] = outer_stream
                s2.cur[d[1]] = outer_i + 1
                out.append((s2, UNIT))
        return out


def _is_accessor(hir):
    """a body that only returns a place or builds a value from its arguments without control flow: `&self.inner`,
    `self.0.deref()`, `Self { inner }`, `Cow::Owned(Vec::new())`"""
    from .hirwalk import walk
    n = 0
    for x in walk(hir["root"]):
        n += 1
        k = x.get("k")
        if n > 30:
            return False
        if k in ("block", "ref", "field", "path", "un", "cast", "struct", "call", "mcall", "tup", "lit"):
            if k == "block" and x.get("stmts"):
                return False
            continue
        return False
    return True


def as_for(n):
    """recognise the `for` desugaring the driver leaves in place:
    match IntoIterator::into_iter(ITER) { mut iter => loop { match Iterator::next(&mut iter) { None => break, Some(PAT) => BODY } } }"""
    if n.get("src") != "ForLoopDesugar":
        return None
    sc = n.get("scrut") or {}
    if sc.get("k") != "call" or not (sc.get("def") or "").endswith("IntoIterator::into_iter") or len(n.get("arms", [])) != 1:
        return None
    lp = n["arms"][0]["body"]
    if lp.get("k") != "loop":
        return None
    b = lp["body"]
    inner = b.get("expr")
    if inner is None and len(b.get("stmts", [])) == 1:
        inner = b["stmts"][0].get("e")
    if not isinstance(inner, dict) or inner.get("k") != "match" or inner.get("src") != "ForLoopDesugar" or len(inner.get("arms", [])) != 2:
        return None
    some = inner["arms"][1]
    p = some["pat"]
    if p.get("k") == "struct" and p.get("fields"):
        pat = p["fields"][0][1]
    elif p.get("k") == "tstruct" and p.get("subs"):
        pat = p["subs"][0]
    else:
        return None
    return {"k": "for", "pat": pat, "iter": sc["args"][0], "body": some["body"], "l": n.get("l")}


def _byte_parts(v):
    """flatten a hand-assembled byte value into [('c', byte) | ('be', value, width)]"""
    if v[0] == "arrv":
        out = []
        for x in v[1]:
            out.extend(_byte_parts(x) if x[0] in ("arrv", "bebytes", "byteseq") else [x])
        return out
    if v[0] == "bebytes":
        return [("be", v[1], v[2])]
    if v[0] == "byteseq":
        return list(v[1])
    return [v]


def _shift(sub, by):
    out = []
    for t in sub:
        c = STok(t.kind)
        for a in STok.__slots__:
            setattr(c, a, getattr(t, a))
        c.skip_to = t.skip_to + by
        out.append(c)
    return out


def _shift_tail(tail, by):
    if by == 0:
        return list(tail)
    return _shift(tail, by)


def _same_type(a, b):
    """same Rust type up to references and generic parameters (which are the same parameter in a codec pair)"""
    if a[0] != b[0]:
        return False
    if a[0] == "adt":
        return a[1] == b[1] and len(a[2]) == len(b[2]) and all(_same_type(x, y) or x[0] == "param" or y[0] == "param" for x, y in zip(a[2], b[2]))
    if a[0] == "tuple":
        return len(a[1]) == len(b[1]) and all(_same_type(x, y) for x, y in zip(a[1], b[1]))
    if a[0] in ("array",):
        return _same_type(a[1], b[1]) and a[2] == b[2]
    if a[0] == "slice":
        return _same_type(a[1], b[1])
    return a[1] == b[1]


# ------------------------------------------------------------------------------------------------ workspace model
class Impl:
    def __init__(self, crate, body, key, hir):
        self.crate = crate
        self.key = key                     # HIR / body path
        self.hir = hir
        self.adt = body.get("impl_adt")
        self.self_ty = body.get("impl_self")
        self.trait = body.get("impl_trait")
        self.file = body.get("file")
        self.line = body.get("line")
        self.expn = body.get("impl_expn") or body.get("expn")
        self.derived = bool(self.expn and self.expn.startswith("Derive:"))

    @property
    def where(self):
        return "%s:%s" % (self.file, self.line)


class Arm:
    """one path through an encoder"""
    def __init__(self):
        self.label = "*"
        self.variant = None        # variant of `self` on this path, if the path is specific to one
        self.tokens = []
        self.kind = "ok"           # ok | refuse | panic | unan
        self.why = None
        self.facts = {}
        self.problems = []
        self.n_top = None
        self.line = None


class Finding:
    def __init__(self, kind, key, msg, where):
        self.kind = kind           # wf | dual | unan | panic | arity
        self.key = key
        self.msg = msg
        self.where = where


class TypeReport:
    def __init__(self, adt):
        self.adt = adt
        self.enc = []
        self.dec = []
        self.arms = []             # (Impl, Arm)
        self.findings = []
        self.ok = []               # (key, detail) discharged obligations
        self.arity = None
        self.notes = []


class Model:
    def __init__(self, crates, config="default", table=None):
        self.table = table if table is not None else load_table()
        self.crates = list(crates)
        self.config = config
        self.hir = {}              # body path -> (crate, hir)
        self.adts = {}
        self.consts = {}
        self.impls = []            # Encode/Decode impl fns (derived ones included)
        self.by_adt = {}           # (adt, 'enc'|'dec') -> [Impl]
        for c in self.crates:
            data = facts.load_crate(c, config)
            h = facts.load_hir(c, config)
            for a in data["items"]["adts"]:
                self.adts[a["path"]] = a
            for k in data["items"]["consts"]:
                if k.get("val") is not None and isinstance(k["val"], (int, bool)):
                    self.consts[k["path"]] = k["val"]
            seen = {}
            for b in data["bodies"]:
                p = b["path"]
                if p in seen:
                    seen[p] += 1
                    key = "%s#%d" % (p, seen[p])
                else:
                    seen[p] = 1
                    key = p
                hh = h.get(key)
                if hh is None:
                    continue
                self.hir.setdefault(key, (c, hh))
                tr = b.get("impl_trait")
                if tr in (ENC_TRAIT, DEC_TRAIT) and b.get("name") in ("encode", "decode") and b.get("impl_adt"):
                    im = Impl(c, b, key, hh)
                    self.impls.append(im)
                    self.by_adt.setdefault((im.adt, "enc" if tr == ENC_TRAIT else "dec"), []).append(im)
        self._arms = {}
        self._busy = set()
        self._heads = {}

    # ---- inventory
    def codec_types(self, file_prefixes=None, crates=None, include_macro=True):
        """ADT paths having at least one non-derive Encode or Decode impl in the given files / crates"""
        out = []
        for im in self.impls:
            if im.derived:
                continue
            if crates and im.crate not in crates:
                continue
            if file_prefixes and not any(im.file.startswith(p) for p in file_prefixes):
                continue
            if im.adt not in out:
                out.append(im.adt)
        return out

    def impls_of(self, adt, side, derived=False):
        return [im for im in self.by_adt.get((adt, side), []) if derived or not im.derived]

    # ---- type knowledge
    def head_kinds(self, t):
        """set of minicbor data::Type names the encoding of a value of Rust type t can start with; None = not determinable"""
        if isinstance(t, str):
            t = parse_type(t)
        k = t[0]
        rt = spec()["rust_types"]
        if k == "prim":
            e = rt.get(t[1])
            return frozenset(e["encode"]) if e else None
        if k == "tuple":
            return frozenset(["Array"])
        if k in ("array", "slice"):
            return frozenset(["Array"])
        if k != "adt":
            return None
        e = rt.get(t[1])
        if e is not None:
            out = set()
            for x in e["encode"]:
                if x.startswith("param:"):
                    i = int(x[6:])
                    sub = self.head_kinds(t[2][i]) if i < len(t[2]) else None
                    if sub is None:
                        return None
                    out |= sub
                elif x.startswith("+"):
                    out.add(x[1:])
                else:
                    out.add(x)
            return frozenset(out)
        rh = self.table.get("raw_heads", {}).get(t[1])
        if rh is not None:
            out = set()
            for x in rh["heads"]:
                if x.startswith("param:"):
                    i = int(x[6:])
                    sub = self.head_kinds(t[2][i]) if i < len(t[2]) else None
                    if sub is None:
                        return None
                    out |= sub
                else:
                    out.add(x)
            if rh.get("also_indefinite"):
                for a, b in (("Array", "ArrayIndef"), ("Map", "MapIndef"), ("Bytes", "BytesIndef"), ("String", "StringIndef")):
                    if a in out:
                        out.add(b)
            return frozenset(out)
        ck = type_str(t)
        if ck in self._heads:
            return self._heads[ck]
        self._heads[ck] = None       # recursion guard
        r = self._adt_heads(t)
        self._heads[ck] = r
        return r

    def _adt_heads(self, t):
        ims = self.by_adt.get((t[1], "enc"), [])
        if not ims:
            return None
        out = set()
        for im in ims:
            if im.derived:
                h = self._derived_head(im)
                if h is None:
                    return None
                out |= h
                continue
            try:
                arms = self.encoder_arms(im)
            except Unanalysable:
                return None
            for a in arms:
                if a.kind in ("refuse", "panic"):
                    continue
                if a.kind != "ok" or not a.tokens:
                    return None
                f = a.tokens[0]
                if f.kind == "arr":
                    out.add("Array")
                elif f.kind == "map":
                    out.add("Map")
                elif f.kind == "begin":
                    out.add({"arr": "ArrayIndef", "map": "MapIndef", "bytes": "BytesIndef", "str": "StringIndef"}[f.ctype])
                elif f.kind == "tag":
                    out.add("Tag")
                elif f.kind == "item" and f.kinds is not None:
                    out |= f.kinds
                elif f.kind == "item" and f.ty and parse_type(f.ty)[0] == "param":
                    # the wrapper starts with its generic payload: substitute the actual type argument
                    st_ = parse_type(im.self_ty or "")
                    names = [a[1] for a in st_[2]] if st_[0] == "adt" else []
                    pn = parse_type(f.ty)[1]
                    if pn in names and names.index(pn) < len(t[2]) and t[2][names.index(pn)][0] != "param":
                        sub = self.head_kinds(t[2][names.index(pn)])
                        if sub is None:
                            return None
                        out |= sub
                    else:
                        return None
                else:
                    return None
        return frozenset(out) if out else None

    def _derived_head(self, im):
        from .hirwalk import walk
        names = []
        first_field_ty = None
        for x in walk(im.hir["root"]):
            if x.get("k") == "mcall" and (x.get("def") or "").startswith(ENC_T + "::"):
                names.append(x["name"])
            if x.get("k") in ("mcall", "call") and (x.get("def") or "") == ENC_TRAIT + "::encode" and first_field_ty is None:
                src = x.get("recv") if x.get("k") == "mcall" else (x.get("args") or [None])[0]
                if isinstance(src, dict) and src.get("t") is not None:
                    first_field_ty = im.hir["types"][src["t"]]
        hdr = [x for x in names if x in ("array", "map", "begin_array", "begin_map")]
        first = next((x for x in names if x in ("array", "map", "begin_array", "begin_map", "tag")), None)
        if first == "tag":
            return frozenset(["Tag"])       # a type-level #[cbor(tag(n))]
        if hdr:
            kinds = set(hdr)
            if kinds == {"array"}:
                return frozenset(["Array"])
            if kinds == {"map"}:
                return frozenset(["Map"])
            return None
        prim = [x for x in names if x in spec()["encoder_methods"] and x not in ("end", "tag")]
        if prim and not first_field_ty:
            out = set()
            for p in prim:
                out |= set(spec()["encoder_methods"][p]["heads"])
            return frozenset(out)
        if first_field_ty and not names:
            return self.head_kinds(first_field_ty)     # #[cbor(transparent)]
        return None

    def accept_kinds(self, t):
        """head types the Decode impl of t accepts (std types only; None = unknown)"""
        k = t[0]
        rt = spec()["rust_types"]
        if k == "prim":
            e = rt.get(t[1])
            return frozenset(e["decode"]) if e else None
        if k == "tuple":
            return frozenset(["Array"])
        if k == "array":
            return frozenset(["Array", "ArrayIndef"])
        if k != "adt":
            return None
        e = rt.get(t[1])
        if e is None:
            return None
        out = set()
        for x in e["decode"]:
            if x.startswith("param:"):
                i = int(x[6:])
                sub = self.accept_kinds(t[2][i]) if i < len(t[2]) else None
                if sub is None:
                    return None
                out |= sub
            elif x.startswith("+"):
                out.add(x[1:])
            else:
                out.add(x)
        return frozenset(out)

    def arity(self, t, owner=None):
        """number of top-level CBOR items `encode` of a value of type t writes (1 unless a workspace fragment encoder;
        for a generic parameter of `owner`: the reviewed contract in table['param_arity'], default 1)"""
        if isinstance(t, str):
            t = parse_type(t)
        if t[0] == "param" and owner:
            c = self.table.get("param_arity", {}).get(owner, {})
            return int(c.get(t[1], 1)) if isinstance(c.get(t[1], 1), int) else 1
        if t[0] != "adt" or t[1] in spec()["rust_types"]:
            return 1
        ims = self.impls_of(t[1], "enc")
        if not ims:
            return 1
        if ("arity", t[1]) in self._busy:
            return 1
        self._busy.add(("arity", t[1]))
        try:
            ns = set()
            for im in ims:
                try:
                    arms = self.encoder_arms(im)
                except Unanalysable:
                    return 1
                for a in arms:
                    if a.kind == "ok" and a.n_top is not None:
                        ns.add(a.n_top)
            return ns.pop() if len(ns) == 1 else 1
        finally:
            self._busy.discard(("arity", t[1]))

    def instantiations(self, adt):
        """type-argument lists with which the generic ADT is used anywhere in the loaded crates (field types and the
        type tables of all bodies)"""
        found = {}
        def scan(ts):
            if adt not in ts:
                return
            stack = [parse_type(ts)]
            while stack:
                t = stack.pop()
                if t[0] == "adt":
                    if t[1] == adt and t[2] and not any(a[0] == "param" for a in t[2]):
                        found[type_str(t)] = t[2]
                    stack.extend(t[2])
                elif t[0] == "tuple":
                    stack.extend(t[1])
                elif t[0] in ("array", "slice"):
                    stack.append(t[1])
        for a in self.adts.values():
            for v in a["variants"]:
                for f in v["fields"]:
                    scan(f["ty"])
        for crate, h in self.hir.values():
            for ts in h["types"]:
                scan(ts)
        return found

    def decoder_key(self, t):
        ims = self.impls_of(t[1], "dec")
        return ims[0].key if len(ims) == 1 else None

    def expansions(self, t, val):
        """[(tokens, facts)] — the shapes a value of type t can take, for looking inside an opaque item; None if unknown"""
        if t[0] == "adt":
            e = spec()["rust_types"].get(t[1])
            if e is not None and "sequence_of" in e and t[2]:
                key = (val[1] if val is not None and val[0] == "sym" else "seq@%d" % id(t))
                cnt = lin(0, [("len(%s)" % key, 1)])
                et = t[2][e["sequence_of"]]
                body = [Tok("item", kinds=self.head_kinds(et), how="encode", ty=type_str(et), arity=self.arity(et))]
                return [([Tok("arr", n=cnt), Tok("loop", n=cnt, body=body, key=key)], {})]
            if e is not None:
                return None
            ims = self.impls_of(t[1], "enc")
            if len(ims) != 1 or ("exp", t[1]) in self._busy:
                return None
            self._busy.add(("exp", t[1]))
            try:
                try:
                    arms = self.encoder_arms(ims[0])
                except Unanalysable:
                    return None
                out = []
                pref = (val[1] if val is not None and val[0] == "sym" else "in<%s>" % _short_ty(t[1]))
                for a in arms:
                    if a.kind in ("refuse",):
                        continue
                    if a.kind != "ok" or a.problems:
                        return None
                    out.append((_rename_tokens(a.tokens, pref), {_rename_key(k, pref): v for k, v in a.facts.items()}))
                return out if 0 < len(out) <= 64 else None
            finally:
                self._busy.discard(("exp", t[1]))
        return None

    # ---- encoder arms
    def encoder_arms(self, im):
        if im.key in self._arms:
            return self._arms[im.key]
        if ("arms", im.key) in self._busy:
            raise Unanalysable("recursive encoder")
        self._busy.add(("arms", im.key))
        try:
            arms = self._encoder_arms(im)
        finally:
            self._busy.discard(("arms", im.key))
        self._arms[im.key] = arms
        return arms

    def _init_state(self, ip, hir, handle):
        st = St()
        acc = [(st, True)]
        for i, p in enumerate(hir["params"]):
            ty = hir["types"][p["t"]] if p.get("t") is not None else ""
            if (ENC_T + "<") in ty and handle == "enc":
                v = ("enc",)
            elif (DEC_T + "<") in ty and handle == "dec":
                v = ("dec", "main")
            elif i == 0 and handle == "enc":
                v = sym("self", ty)
            else:
                v = sym("ctx", ty)
            nxt = []
            for s, okk in acc:
                nxt.extend(ip.match_pat(p, v, s))
            acc = nxt
        return [s for s, okk in acc if okk]

    def _encoder_arms(self, im):
        ip = Interp(self, FnCtx(im.key, im.hir, im.crate), "enc", owner=im.adt)
        arms = []
        for st0 in self._init_state(ip, im.hir, "enc"):
            for s, v in ip.eval(im.hir["root"], st0):
                a = Arm()
                if s.status is not None and s.status[0] == "ret":
                    v = s.status[1]
                    s.status = None
                a.facts = {k: f for k, f in s.facts.items()}
                a.label, a.variant = _arm_label(s)
                if s.status is not None:
                    if s.status[0] == "panic":
                        a.kind, a.why = "panic", s.status[1]
                    elif s.status[0] == "unan":
                        a.kind, a.why = "unan", s.status[1]
                    else:
                        a.kind, a.why = "unan", "control flow leaves the body (%s)" % s.status[0]
                elif v[0] == "var" and v[1] == RESULT and v[2] == "Err":
                    a.kind = "refuse"
                a.tokens = _resolve_tokens(s.out, s.facts)
                a.line = a.tokens[0].line if a.tokens else im.line
                if a.kind == "ok":
                    a.problems, a.n_top = wellformed(a.tokens, None)
                arms.append(a)
        # disambiguate equal labels
        seen = {}
        for a in arms:
            seen[a.label] = seen.get(a.label, 0) + 1
        cnt = {}
        for a in arms:
            if seen[a.label] > 1:
                cnt[a.label] = cnt.get(a.label, 0) + 1
                a.label = "%s#%d" % (a.label, cnt[a.label])
        return arms

    # ---- pair analysis
    def analyse(self, adt, fragments=()):
        rep = TypeReport(adt)
        rep.enc = self.impls_of(adt, "enc")
        rep.dec = self.impls_of(adt, "dec")
        short = adt
        for im in rep.enc:
            try:
                arms = self.encoder_arms(im)
            except Unanalysable as e:
                rep.findings.append(Finding("unan", "unanalysable:%s:enc:*" % short, "encoder of %s cannot be abstracted: %s" % (adt, e), im.where))
                continue
            tops = set()
            for a in arms:
                rep.arms.append((im, a))
                where = "%s:%s" % (im.file, a.line or im.line)
                if a.kind == "unan":
                    rep.findings.append(Finding("unan", "unanalysable:%s:enc:%s" % (short, a.label),
                                                "encoder arm %s of %s cannot be abstracted: %s (shape so far: %s)" % (a.label, adt, a.why, shape_str(a.tokens)), where))
                elif a.kind == "panic":
                    rep.findings.append(Finding("panic", "wf:%s:%s:panics(%s)" % (short, a.label, a.why),
                                                "encoder arm %s of %s does not encode at all: it ends in %s!()" % (a.label, adt, a.why), where))
                elif a.kind == "ok":
                    if a.problems:
                        for p in a.problems:
                            rep.findings.append(Finding("wf", "wf:%s:%s:%s" % (short, a.label, p.code),
                                                        "encoder arm %s of %s is not a well-formed CBOR item: %s  [shape: %s]" % (a.label, adt, p.msg, shape_str(a.tokens)),
                                                        "%s:%s" % (im.file, p.line or a.line or im.line)))
                    else:
                        tops.add(a.n_top)
                        rep.ok.append(("wf:%s:%s" % (short, a.label), shape_str(a.tokens)))
            if len(tops) > 1:
                rep.findings.append(Finding("arity", "wf:%s:arms-differ-in-top-level-items" % short,
                                            "the arms of the encoder of %s write different numbers of top-level items (%s)" % (adt, sorted(tops)), im.where))
            elif len(tops) == 1:
                n = tops.pop()
                rep.arity = n
                if n != 1 and adt not in fragments:
                    rep.findings.append(Finding("arity", "wf:%s:top-level-items=%d" % (short, n),
                                                "encode() of %s writes %d top-level CBOR items, not exactly one (and the type is not a listed fragment encoder)" % (adt, n), im.where))
        # duality
        for im, a in list(rep.arms):
            if a.kind != "ok" or a.problems:
                continue
            decs = [d for d in rep.dec if d.self_ty == im.self_ty] or rep.dec
            for dm in decs:
                self._dual(rep, im, a, dm)
        return rep

    def _dual(self, rep, im, a, dm):
        adt = rep.adt
        key0 = "%s:%s" % (adt, a.label)
        where = "%s (encoder arm at %s:%s)" % (dm.where, im.file, a.line or im.line)
        try:
            leaves = self.run_decoder(dm, a)
        except Unanalysable as e:
            rep.findings.append(Finding("unan", "unanalysable:%s:dec:%s" % (adt, a.label), "decoder of %s against encoder arm %s cannot be abstracted: %s" % (adt, a.label, e), where))
            return
        un = [l for l in leaves if l[0] == "unan"]
        if un:
            rep.findings.append(Finding("unan", "unanalysable:%s:dec:%s" % (adt, a.label),
                                        "decoder of %s cannot be followed on what encoder arm %s writes [%s]: %s" % (adt, a.label, shape_str(a.tokens), un[0][2]), where))
            return
        nonspec = [l for l in leaves if not l[1]]
        specl = [l for l in leaves if l[1]]
        bad = [l for l in nonspec if l[0] != "ok"]
        if not bad and not any(l[0] == "ok" for l in leaves):
            bad = [l for l in specl if l[0] != "ok"][:1] or [("none", False, "the decoder has no successful path", None)]
        if bad:
            l = bad[0]
            rep.findings.append(Finding("dual", "dual:%s:%s" % (key0, l[0]),
                                        "what encoder arm %s of %s writes [%s] is not read back by the decoder: %s" % (a.label, adt, shape_str(a.tokens), l[2]), where))
        else:
            undet = sum(1 for l in leaves if l[0] == "ok" and l[3] == "undetermined") if a.variant else 0
            rep.ok.append(("dual:%s" % key0, "decoder consumes exactly the arm's items and constructs %s%s" % (a.variant or "the value", " (constructed variant not determinable on %d paths)" % undet if undet else "")))

    def run_decoder(self, dm, arm, keep=None):
        """-> leaves [(kind, speculative, message, extra)] of the decoder run against the arm's stream.
        keep: optional list receiving (leaf kind, returned abstract value, final state) per leaf"""
        stream = build_stream(arm.tokens)
        ip = Interp(self, FnCtx(dm.key, dm.hir, dm.crate), "dec", owner=dm.adt)
        leaves = []
        for st0 in self._init_state(ip, dm.hir, "dec"):
            st0.streams["main"] = stream
            st0.cur["main"] = 0
            st0.facts = dict(arm.facts)
            for s, v in ip.eval(dm.hir["root"], st0):
                if s.status is not None and s.status[0] == "ret":
                    v = s.status[1]
                    s.status = None
                if keep is not None:
                    keep.append((s.status[0] if s.status else "ret", v, s))
                if s.status is not None:
                    if s.status[0] == "unan":
                        leaves.append(("unan", s.spec, s.status[1], None))
                    elif s.status[0] == "panic":
                        leaves.append(("panics", s.spec, "the decoder panics (%s!)" % s.status[1], None))
                    else:
                        leaves.append(("unan", s.spec, "control flow leaves the decoder body (%s)" % s.status[0], None))
                    continue
                if v[0] == "var" and v[1] == RESULT and v[2] == "Err":
                    e = _vargs(v)[0] if _vargs(v) else None
                    if e is not None and e[0] == "derr":
                        leaves.append(("type-mismatch", s.spec, e[1], None))
                    else:
                        leaves.append(("rejects", s.spec, "the decoder returns its own error for this input (the label / length / type the encoder writes selects a rejecting arm)", None))
                    continue
                val = _vargs(v)[0] if (v[0] == "var" and v[1] == RESULT and v[2] == "Ok" and _vargs(v)) else None
                full, at = s.streams["main"], s.cur["main"]
                rest = full[at:]
                if rest:
                    n_left, j = 0, at
                    while j < len(full):
                        n_left += 1
                        j = full[j].skip_to if full[j].skip_to and full[j].skip_to > j else j + 1
                    leaves.append(("leftover", s.spec, "the decoder returns Ok but leaves %d item(s) of the encoder's output unread (next: %s)" % (n_left, ip.describe(rest[0])), None))
                    continue
                extra = "undetermined"
                if val is not None and val[0] == "var" and val[1] == dm.adt:
                    extra = val[2]
                    if arm.variant is not None and val[2] != arm.variant:
                        leaves.append(("constructs=%s" % val[2], s.spec or s.inner, "the decoder constructs %s::%s from it" % (_short_ty(dm.adt), val[2]), None))
                        continue
                    sub = _sub_variant_conflict(arm, val)
                    if sub:
                        leaves.append(("constructs-other-field-variant", s.spec, sub, None))
                        continue
                leaves.append(("ok", s.spec, "", extra))
        return leaves


def _sub_variant_conflict(arm, val):
    args = val[3]
    for k, f in arm.facts.items():
        if not k.startswith("self.") or f[0] != "variant" or k.count(".") != 1:
            continue
        fld = k.split(".", 1)[1]
        if isinstance(args, dict):
            x = args.get(fld)
        else:
            x = args[int(fld)] if fld.isdigit() and int(fld) < len(args) else None
        if x is not None and x[0] == "var" and x[1] == f[1] and x[2] != f[2]:
            return "the decoder constructs field %s as %s where the encoder arm is for %s" % (fld, x[2], f[2])
    return None


def _rename_key(k, pref):
    if k == "self" or k.startswith("self.") or k.startswith("self["):
        return pref + k[4:]
    return re.sub(r"\bself\b", pref, k)


def _rename_val(v, pref):
    if v is None:
        return None
    if v[0] == "sym":
        return ("sym", _rename_key(v[1], pref), v[2])
    if v[0] == "lin":
        return ("lin", v[1], tuple(sorted((_rename_key(k, pref), c) for k, c in v[2])))
    if v[0] == "tag":
        return ("tag", _rename_val(v[1], pref))
    return v


def _rename_tokens(toks, pref):
    out = []
    for t in toks:
        c = t.clone(n=_rename_val(t.n, pref), val=_rename_val(t.val, pref), key=_rename_key(t.key, pref) if t.key else t.key)
        if t.body is not None:
            c.body = _rename_tokens(t.body, pref)
        out.append(c)
    return out


def _resolve_tokens(toks, fcts):
    def rv(v):
        if v is None:
            return None
        if v[0] == "sym":
            f = fcts.get(v[1])
            if f and f[0] == "eq":
                return C(f[1])
        if v[0] == "tag":
            return ("tag", rv(v[1]))
        return v
    out = []
    for t in toks:
        c = t.clone(n=rv(t.n), val=rv(t.val))
        if c.kind == "item" and c.val is not None and c.val[0] == "c" and isinstance(c.val[1], int) and not isinstance(c.val[1], bool) and c.rng is not None:
            c.kinds = int_kinds_for_const(c.val[1])
        if t.body is not None:
            c.body = _resolve_tokens(t.body, fcts)
        out.append(c)
    return out


def _arm_label(s):
    """readable, line-free identification of an encoder path from the facts it assumed about `self`"""
    variant = None
    parts = []
    f = s.facts.get("self")
    if f and f[0] == "variant":
        variant = f[2]
    elif f and f[0] == "notvar":
        parts.append("not(%s)" % "|".join(sorted(f[1])))
    for k in sorted(s.facts):
        if k == "self" or not (k.startswith("self.") or k.startswith("self[")):
            continue
        f = s.facts[k]
        name = k[4:]
        if f[0] == "variant":
            parts.append("%s=%s" % (name, f[2]))
        elif f[0] == "notvar":
            parts.append("%s=not(%s)" % (name, "|".join(sorted(f[1]))))
        elif f[0] == "eq":
            parts.append("%s==%s" % (name, f[1]))
        elif f[0] == "ne":
            parts.append("%s!=%s" % (name, "|".join(str(x) for x in sorted(f[1], key=str))))
    extra = [l for l in s.labels if not l.startswith("self") and "==" not in l and "!=" not in l]
    parts.extend(extra)
    label = (variant or "*") + ("(" + ",".join(parts) + ")" if parts else "")
    return label, variant


# ------------------------------------------------------------------------------------------------ rule driver
def load_table():
    p = os.path.join(facts.VERIF, "tables", "codec_opaque.json")
    if not os.path.exists(p):
        return {"opaque": {}, "fragments": {}}
    return json.load(open(p))


def check_types(res, m, adts, table=None, used_table=None):
    """Analyse every type in `adts`, recording obligations into `res` (pv.report.Result).  Unanalysable arms listed in
    table['opaque'] (exact key -> reason) are accepted and counted; every other finding is a violation.
    Returns {adt: TypeReport}."""
    table = table or load_table()
    opaque = table.get("opaque", {})
    fragments = table.get("fragments", {})
    reps = {}
    for adt in adts:
        r = m.analyse(adt, fragments=fragments)
        reps[adt] = r
        res.count("types analysed")
        res.count("Encode impls analysed", len(r.enc))
        res.count("Decode impls analysed", len(r.dec))
        res.count("encoder arms", len(r.arms))
        for key, detail in r.ok:
            res.ok(key, "R-SHAPE" if key.startswith("wf:") else "R-DUAL", detail)
            res.count("arms well-formed" if key.startswith("wf:") else "arms dual to the decoder")
        for f in r.findings:
            if f.kind == "unan" and f.key in opaque:
                res.count("arms accepted by tables/codec_opaque.json")
                res.ok(f.key, "table", "not abstracted; reviewed: %s" % opaque[f.key])
                if used_table is not None:
                    used_table.add(f.key)
                continue
            res.violation(f.key, f.msg, where=f.where, rule={"wf": "R-SHAPE", "arity": "R-SHAPE", "panic": "R-SHAPE", "dual": "R-DUAL", "unan": "R-SHAPE(unanalysable)"}[f.kind])
        if r.arity not in (None, 1) and adt in fragments:
            res.ok("fragment:%s" % adt, "table", "fragment encoder writing %d items; every embedding counts it as %d: %s" % (r.arity, r.arity, fragments[adt]))
            if used_table is not None:
                used_table.add("fragment:" + adt)
    return reps
