"""C25 — handshake negotiation accepts only the highest common version, with agreeing parameters, else refuses with the
responder's own versions.

Decides three structural clauses for each responder (original stack: `handshake::server::Server`; P2P stack:
`behavior::responder::handshake::HandshakeResponder`), on MIR (the async responder through its coroutine body with the
state-machine plumbing undone):

 SELECT  the version placed in `Message::Accept` comes out of an order-directed search over the common versions:
           * a maximum selector (`max`, `max_by_key` with an integer key, `max_by` with the natural comparison, `min_by_key`
             with a `Reverse` key, `last`/`next_back`/`last_key_value`/`pop_last` of a BTree or of an ascending-sorted
             sequence), or
           * a first match (explicit loop — the outermost loop around the accept —, `find`, `find_map`, `position`, `next`)
             over a sequence that a dominating `sort*` put in descending order (`sort_by_key(Reverse)`, `sort_by(|a,b| b.cmp(a))`,
             ascending sort + `reverse()` / `.rev()`), after which the search is left (no second accept);
         and commonality is tested (membership in the other table, or equality of the two version numbers dominating the accept).
 AGREE   the accept is control dependent, with the *equal* polarity, on a comparison of the two sides' `network_magic`
         or of the two sides' whole version data.
 REFUSE  every `RefuseReason::VersionMismatch(v)` of a responder lists versions that originate from the responder's own
         table only, and is sent on the path on which the search found nothing; each responder has such a refusal.
Not decided: that the loop / iterator really computes the maximum (library semantics are trusted), message transport."""
import re

from pv.program import Program
from pv.report import Result, finish
from pv.mir import pl_local, pl_proj, op_place, sym_str, sym_walk
from pv.panic import strip_generics
from pv import x_net as X
from pv.x_net import cname, where

CRATES = ["pallas_network", "pallas_network2"]
RESPONDERS = {
    "pallas_network": r"^pallas_network::miniprotocols::handshake::server::",
    "pallas_network2": r"^pallas_network2::behavior::responder::handshake::",
}
MSG_ADT = re.compile(r"::handshake::(protocol::)?Message$")
REFUSE_ADT = re.compile(r"::handshake::(protocol::)?RefuseReason$")

ADAPT = (r"(::iter|::iter_mut|::into_iter|::filter|::filter_map|::map|::cloned|::copied|::clone|::keys|::values|::into_keys|::into_values|"
         r"::collect|::by_ref|::unwrap|::expect|::deref|::deref_mut|::as_ref|::as_slice|::to_vec|::to_owned|::into|::from|::peekable|::enumerate|"
         r"::rev|::chain|::flatten|::flat_map|::take_while|::skip_while|::inspect|::unwrap_or_default|::as_mut|::borrow|::ok_or|::ok_or_else|"
         r"Try::branch|IntoFuture::into_future)$")
MAXSEL = re.compile(r"^core::iter::traits::iterator::Iterator::(max|max_by_key|max_by|min|min_by_key|min_by|last)$|"
                    r"^core::iter::traits::double_ended::DoubleEndedIterator::(next_back|rfind)$|"
                    r"^alloc::collections::btree::(map::BTreeMap|set::BTreeSet)::(last_key_value|pop_last|last|first_key_value|pop_first|first|last_entry|first_entry)$|"
                    r"^core::slice::(last|first)$|^alloc::vec::Vec::pop$")
FIRSTSEL = re.compile(r"Iterator::(next|find|find_map|position|nth)$|::IntoIter as core::iter::traits::iterator::Iterator::next$")
SORT = re.compile(r"^alloc::slice::(sort|sort_by|sort_by_key|sort_by_cached_key)$|^core::slice::(sort_unstable|sort_unstable_by|sort_unstable_by_key)$")
REVERSE_INPLACE = re.compile(r"^core::slice::reverse$")
MEMBER = re.compile(r"^core::iter::traits::iterator::Iterator::any$|^(std::collections::hash::map::HashMap|alloc::collections::btree::map::BTreeMap|std::collections::hash::set::HashSet|"
                    r"alloc::collections::btree::set::BTreeSet)::(contains_key|contains|get|get_key_value)$|^core::slice::(contains|binary_search|binary_search_by_key)$")
INTLIKE = re.compile(r"^&*(u8|u16|u32|u64|u128|usize|i64)$")


def is_test_code(f):
    return bool(re.search(r"::tests?::", f.path)) or "/tests/" in (f.file or "") or "::emulation::" in f.path


def fn_loc(f):
    return "%s:%s" % (f.file, f.line)


def children_closure(P, f):
    out = []
    work = [f]
    while work:
        x = work.pop()
        for c in P.closure_children(x):
            out.append(c)
            work.append(c)
    return out


# ---------------------------------------------------------------------------------------------------------- sites

def direct_accepts(f):
    return [(bi, si, s) for bi, si, s in f.statements()
            if s[0] == "a" and s[2]["k"] == "agg" and s[2].get("ak") == "adt" and MSG_ADT.search(s[2].get("adt") or "") and s[2].get("variant") == "Accept"]


def param_of(P, f, og, o):
    """Parent-function parameter index an operand is a pure copy of (through upvars of a coroutine body), else None."""
    leaves = og.of_operand(o)
    ups = X.upvar_params(P, f)
    real = [x for x in leaves if x[0] not in ("agg",)]
    if len(real) != 1:
        return None
    x = real[0]
    if x[0] == "upvar":
        return ups.get(x[1], (None, None))[0]
    if x[0] == "param":
        return x[1]
    return None


def accept_sites(P, crate, rx):
    """[(body fn, block, version operand, data operand, label)] in the responder module."""
    rx = re.compile(rx)
    fns = [f for f in P.by_crate[crate] if rx.search(f.path) and not is_test_code(f)]
    helpers = {}   # parent fn path -> (version param idx, data param idx)
    sites = []
    for f in fns:
        og = X.Origins(f)
        for bi, si, s in direct_accepts(f):
            v, d = s[2]["fields"][0], s[2]["fields"][1]
            pv_, pd = param_of(P, f, og, v), param_of(P, f, og, d)
            parent = f.b.get("parent") if X.is_coroutine_state_ty(f.local_ty(1) if f.argc >= 1 else "") else f.path
            if pv_ is not None and pd is not None and parent:
                helpers[parent] = (pv_, pd)
            else:
                sites.append((f, bi, v, d, "accept"))
    for f in fns:
        for bi, t in f.calls():
            h = helpers.get(t.get("f") or "")
            if h is not None and len(t["args"]) >= max(h):
                sites.append((f, bi, t["args"][h[0] - 1], t["args"][h[1] - 1], "accept-via-" + (t["f"].rsplit("::", 1)[-1])))
    return sites, helpers, fns


# ---------------------------------------------------------------------------------------------------------- SELECT

def closure_ret_ty(P, f, o):
    g = X.closure_fn_of_operand(P, f, o)
    return (g.local_ty(0) if g is not None else None), g


def cmp_direction(g):
    """For a comparison closure |a, b| : 'natural' if it calls cmp/partial_cmp(a-part, b-part), 'reversed' if (b-part, a-part)."""
    if g is None:
        return None
    og = X.Origins(g)
    for bi, t in g.calls():
        if re.search(r"::cmp$|::partial_cmp$", cname(t)) and len(t["args"]) == 2:
            a = {x[1] for x in og.of_operand(t["args"][0]) if x[0] == "param"}
            b = {x[1] for x in og.of_operand(t["args"][1]) if x[0] == "param"}
            if a == {2} and b == {3}:
                return "natural"
            if a == {3} and b == {2}:
                return "reversed"
    return None


def sort_direction(P, f, t):
    """'asc' / 'desc' / None for a sort call."""
    name = cname(t)
    last = name.rsplit("::", 1)[-1]
    if last in ("sort", "sort_unstable"):
        return "asc"
    if last in ("sort_by_key", "sort_unstable_by_key", "sort_by_cached_key"):
        rty, g = closure_ret_ty(P, f, t["args"][1])
        if rty is None:
            return None
        if rty.startswith("core::cmp::Reverse<"):
            return "desc"
        if INTLIKE.match(rty) or rty.startswith("("):
            return "asc"
        return None
    if last in ("sort_by", "sort_unstable_by"):
        rty, g = closure_ret_ty(P, f, t["args"][1])
        d = cmp_direction(g)
        return {"natural": "asc", "reversed": "desc"}.get(d)
    return None


def has_rev(f, o):
    """Is a `.rev()` adaptor in the iterator chain behind operand o?"""
    og = X.Origins(f, extra_transparent=ADAPT, opaque=r"::rev$")
    return any(x[0] == "call" and x[1].endswith("::rev") for x in og.of_operand(o))


def collection_keys(f, o):
    keys, leaves = X.slice_keys(f, o, transparent=ADAPT)
    return keys


def ordered_evidence(P, f, L, recv_op, at_bb):
    """Is the sequence behind `recv_op` in descending order when block at_bb runs?  -> (verdict, text)
    verdict: 'desc' | 'asc' | None (no dominating sort) | 'btree'"""
    keys = collection_keys(f, recv_op)
    rev_adapt = has_rev(f, recv_op)
    sorts = []
    for bi, t in f.calls():
        if SORT.match(cname(t)) and L.dominates(bi, at_bb):
            rk = collection_keys(f, t["args"][0])
            if rk & keys - {0}:
                sorts.append((bi, t))
    if not sorts:
        # an ordered map / set iterated directly
        og = X.Origins(f, extra_transparent=ADAPT)
        if any(x[0] == "call" and "btree" in x[1] for x in og.of_operand(recv_op)) or any(
                isinstance(k, int) and "collections::btree" in f.local_ty(k) for k in keys):
            return ("desc" if rev_adapt else "asc"), "BTree iteration%s" % (" reversed" if rev_adapt else "")
        return None, "no dominating sort of the searched sequence"
    # the last sort on a path decides; require all dominating sorts to agree
    dirs = {sort_direction(P, f, t) for bi, t in sorts}
    if len(dirs) != 1 or None in dirs:
        return None, "cannot determine the sort direction (%s)" % sorted(str(d) for d in dirs)
    d = next(iter(dirs))
    flips = 1 if rev_adapt else 0
    for bi, t in f.calls():
        if REVERSE_INPLACE.match(cname(t)) and L.dominates(bi, at_bb) and any(L.dominates(sb, bi) for sb, _ in sorts):
            if collection_keys(f, t["args"][0]) & keys - {0}:
                flips += 1
    if flips % 2:
        d = "desc" if d == "asc" else "asc"
    return d, "%s%s" % (cname(sorts[0][1]).rsplit("::", 1)[-1], " + reversal" if flips else "")


def check_select(res, P, f, L, B, V, kb):
    og = X.Origins(f, extra_transparent=ADAPT + r"|^core::option::Option::(map|and_then|filter|copied|cloned)$",
                   opaque=MAXSEL.pattern + "|" + FIRSTSEL.pattern)
    leaves = og.of_operand(V)
    calls = [x for x in leaves if x[0] == "call"]
    maxs = [x for x in calls if MAXSEL.match(x[1])]
    firsts = [x for x in calls if FIRSTSEL.search(x[1]) and not MAXSEL.match(x[1])]
    wh = X.term_where(f, B)
    if maxs:
        for x in maxs:
            t = f.blocks[x[2]]["term"]
            last = x[1].rsplit("::", 1)[-1]
            ok = None
            why = ""
            if last == "max":
                ok = True
            elif last == "min":
                ok, why = False, "`min` selects the lowest version"
            elif last in ("max_by_key", "min_by_key"):
                rty, g = closure_ret_ty(P, f, t["args"][1])
                if rty is None:
                    ok, why = None, "key function is not a closure defined here"
                else:
                    rev = rty.startswith("core::cmp::Reverse<")
                    plain = bool(INTLIKE.match(rty))
                    if not rev and not plain:
                        ok, why = None, "key type `%s` is not a version number" % rty[:40]
                    else:
                        ok = (last == "max_by_key") != rev
                        why = "`%s` with a %s key selects the lowest version" % (last, "Reverse" if rev else "plain")
            elif last in ("max_by", "min_by"):
                rty, g = closure_ret_ty(P, f, t["args"][1])
                d = cmp_direction(g)
                if d is None:
                    ok, why = None, "comparison closure not understood"
                else:
                    ok = (last == "max_by") == (d == "natural")
                    why = "`%s` with a %s comparison selects the lowest version" % (last, d)
            elif last in ("last", "next_back", "rfind", "last_key_value", "pop_last", "last_entry", "pop"):
                d, txt = ordered_evidence(P, f, L, t["args"][0], x[2])
                ok = True if d == "asc" else (False if d == "desc" else None)
                why = "takes the last element of a sequence that is %s (%s)" % ({"desc": "sorted descending", None: "not known to be sorted"}.get(d, d), txt)
            elif last in ("first", "first_key_value", "pop_first", "first_entry"):
                d, txt = ordered_evidence(P, f, L, t["args"][0], x[2])
                ok = True if d == "desc" else (False if d == "asc" else None)
                why = "takes the first element of a sequence that is %s (%s)" % ({"asc": "in ascending order", None: "not known to be sorted"}.get(d, d), txt)
            if ok:
                res.ok(kb + ":select", "SELECT", "accepted version comes out of `%s`" % last)
            else:
                res.violation(kb + ":select", "%s: the accepted version is chosen by `%s`: %s — the highest common version is not guaranteed" % (
                    f.path, last, why or "direction unknown"), where=X.term_where(f, x[2]), rule="SELECT")
        return
    # first match over a descending sequence.  The search that decides the version is the outermost loop in which the
    # accepted version still varies: the selector call the version comes from (a loop's `next`, or `find`/`position`/..)
    # together with every loop that encloses that call.
    loop_nexts = [(bi, t) for bi, t in f.calls() if cname(t).endswith("::next") and FIRSTSEL.search(cname(t)) and L.in_loop(bi)]
    search = None
    kind = None
    cands = []
    for x in firsts:
        D = x[2]
        encl = [(nb, nt) for nb, nt in loop_nexts if nb != D and L.dominates(nb, D) and L.can_reach(D, nb)]
        chain = encl + [(D, f.blocks[D]["term"])]
        outer = [c for c in chain if all(L.dominates(c[0], y[0]) for y in chain)]
        cands.append(((outer[0] if outer else chain[0]), x[1].rsplit("::", 1)[-1] if not encl and not L.in_loop(D) else "loop"))
    if cands:
        # every path the version may come from must be an ordered search; judge the first unordered one
        search, kind = cands[0]
        for c, k in cands:
            d_, _t = ordered_evidence(P, f, L, c[1]["args"][0], c[0])
            if d_ != "desc":
                search, kind = c, k
                break
    if search is None:
        res.violation(kb + ":select", "%s: the accepted version does not come out of an order-directed search (no maximum selector, no first match "
                      "over a sorted sequence); which common version is accepted depends on table order" % f.path, where=wh, rule="SELECT")
        return
    sb, st = search
    d, txt = ordered_evidence(P, f, L, st["args"][0], sb)
    if d == "desc":
        res.ok(kb + ":select", "SELECT", "first match (%s) over a descending sequence: %s" % (kind, txt))
    else:
        res.violation(kb + ":select", "%s: the first matching version is accepted, but the searched sequence is %s (%s): the accepted version is "
                      "not the highest common one" % (f.path, {"asc": "in ascending order", None: "not sorted"}.get(d, d), txt),
                      where=X.term_where(f, sb), rule="SELECT")
    if kind == "loop":
        if L.can_reach(L.succ(B)[0] if L.succ(B) else B, sb) and sb in L.reachable(B) and _returns_between(f, L, B, sb) is False:
            res.violation(kb + ":first-match", "%s: after accepting, the search loop continues: a later (lower) version may be accepted as well" % f.path,
                          where=wh, rule="SELECT")
        else:
            res.ok(kb + ":first-match", "SELECT", "the search is left after the accept")


def _returns_between(f, L, B, head):
    """False if the loop head is (logically) reachable again from B, True otherwise."""
    for s in L.succ(B):
        if head in L.reachable(s) or s == head:
            return False
    return True


def check_common(res, P, f, L, B, V, kb):
    # (i) membership test anywhere in the responder function or its closures; (ii) equality of two distinct u64s dominating B
    for g in [f] + children_closure(P, f):
        for bi, t in g.calls():
            if MEMBER.match(cname(t)):
                res.ok(kb + ":common", "SELECT", "candidates are tested for membership in the other table (`%s`)" % cname(t).rsplit("::", 1)[-1])
                return
    sx = X.SymX(f)
    for S in sorted(L.dominators().get(B, ())):
        t = f.blocks[S]["term"]
        if t["k"] != "switch":
            continue
        c = sx.operand(t["d"])
        while c[0] == "un" and c[1] == "Not":
            c = c[2]
        if c[0] == "bin" and c[1] in ("Eq", "Ne") and c[2] != c[3] and t.get("dty") == "bool":
            for s in L.succ(S):
                if X.edge_dominates(L, S, s, B):
                    res.ok(kb + ":common", "SELECT", "accept dominated by a comparison of the two version numbers")
                    return
    res.violation(kb + ":common", "%s: nothing shows that the accepted version is in *both* tables (no membership test, no equality of the two "
                  "version numbers before the accept)" % f.path, where=X.term_where(f, B), rule="SELECT")


# ---------------------------------------------------------------------------------------------------------- AGREE

def _bin_operands(f, og, o):
    """MIR operands (l, r) of the comparison a switch operand is computed by (through copies and `!`)."""
    p = op_place(o)
    for _ in range(8):
        if p is None:
            return None
        ds = og.defs().get(og._key(p), [])
        if len(ds) != 1 or ds[0][0] != "st":
            return None
        rv = ds[0][3][2]
        if rv["k"] == "bin":
            return rv["l"], rv["r"]
        if rv["k"] in ("use", "un", "cast"):
            p = op_place(rv["x"])
            continue
        return None
    return None


def value_root(f, o):
    """(slicing key, field path) of the value an operand is (a field / borrow / clone / copy of) — field sensitive, so the
    components of one tuple (peer's data, own data) are different values."""
    og = X.Origins(f)
    fields = []
    for _ in range(8):
        key, fl = X.named_field_path(f, o)
        if key is None:
            return None
        fields = [str(x) for x in fl] + fields
        ds = og.defs().get(key, [])
        if len(ds) == 1 and ds[0][0] == "call" and re.search(r"::clone$|::to_owned$|::borrow$|::as_ref$|::deref$|::into$|::from$", cname(ds[0][3])) \
                and len(ds[0][3]["args"]) == 1:
            o = ds[0][3]["args"][0]
            continue
        return key, tuple(fields)
    return None


def _is_part_of(side, whole):
    """side = (key, path) denotes `whole` or a field of it"""
    return side is not None and whole is not None and side[0] == whole[0] and side[1][:len(whole[1])] == whole[1]


def check_agree(res, P, f, L, B, Dt, kb, V=None, accept_blocks=()):
    sx = X.SymX(f)
    og0 = X.Origins(f)
    p = op_place(Dt)
    dty = re.sub(r"^&+(mut )?", "", f.local_ty(pl_local(p))) if p is not None and not pl_proj(p) else None
    found = []
    for S in sorted(L.dominators().get(B, ())):
        t = f.blocks[S]["term"]
        if t["k"] != "switch" or len(L.succ(S)) < 2:
            continue
        c = sx.operand(t["d"])
        neg = False
        while c[0] == "un" and c[1] == "Not":
            neg = not neg
            c = c[2]
        kind = None
        operands = None
        if c[0] == "bin" and c[1] in ("Eq", "Ne"):
            l, r = c[2], c[3]
            lf = [x for x in sym_walk(l) if x[0] == "field" and x[2] == "network_magic"]
            rf = [x for x in sym_walk(r) if x[0] == "field" and x[2] == "network_magic"]
            if lf and rf:
                kind = ("magic", c[1] == "Eq", l != r)
                operands = _bin_operands(f, og0, t["d"])
        elif c[0] == "call" and re.search(r"PartialEq::(eq|ne)$", strip_generics(c[1])) and len(c[2]) == 2:
            st = f.blocks[c[3]]["term"]
            tys = [re.sub(r"^&+(mut )?", "", f.local_ty(pl_local(op_place(a)))) for a in st["args"] if op_place(a) is not None and not pl_proj(op_place(a))]
            if dty is not None and len(tys) == 2 and tys[0] == tys[1] == dty and not INTLIKE.match(dty):
                kind = ("data", strip_generics(c[1]).endswith("::eq"), c[2][0] != c[2][1])
                operands = (st["args"][0], st["args"][1])
        if kind is None:
            continue
        what, is_eq, distinct = kind
        for s in L.succ(S):
            if not X.edge_dominates(L, S, s, B):
                continue
            val = None
            for v, tg in t["ts"]:
                if tg == s:
                    val = int(v)
            if val is None:
                val = 1 if all(int(v) == 0 for v, _ in t["ts"]) else None
            if val is None:
                continue
            cond_true = bool(val) != neg
            equal_on_edge = cond_true == is_eq
            found.append((what, equal_on_edge, distinct, S, s, operands))
    good = [x for x in found if x[1] and x[2]]
    if good:
        res.ok(kb + ":agree", "AGREE", "accept depends on equality of the two sides' %s" % ("network magic" if good[0][0] == "magic" else "version data"))
        what, _eq, _d, S, s_eq, operands = good[0]
        # (a) a disagreement on a common version ends the negotiation: no accept is reachable from the mismatch edge
        later = []
        for sn in L.succ(S):
            if sn == s_eq:
                continue
            reach = L.reachable(sn) | {sn}
            later += [ab for ab in accept_blocks if ab in reach]
        if later:
            res.violation(kb + ":mismatch-terminates", "%s: when the common version's %s disagrees the search goes on and an accept is still reachable "
                          "(near %s): a lower version is accepted although a higher one is offered by both sides; the mismatch must end the "
                          "negotiation with a refusal" % (f.path, "network magic" if what == "magic" else "version data", X.term_where(f, later[0])),
                          where=X.term_where(f, S), rule="AGREE")
        else:
            res.ok(kb + ":mismatch-terminates", "AGREE", "no accept is reachable from the mismatch edge")
        # (b) what the peer's value is compared with is the negotiated entry itself: the very value placed in Accept, which
        #     comes out of the selection of the accepted version
        if operands is None or V is None:
            res.violation(kb + ":agree-provenance", "%s: cannot identify the operands of the agreement comparison (fail closed)" % f.path,
                          where=X.term_where(f, S), rule="AGREE")
            return
        droot = value_root(f, Dt)
        roots = [value_root(f, o) for o in operands]
        ogs = X.Origins(f, extra_transparent=ADAPT + r"|^core::option::Option::(map|and_then|filter|copied|cloned)$",
                        opaque=MAXSEL.pattern + "|" + FIRSTSEL.pattern)
        vsel = {x for x in ogs.of_operand(V) if x[0] == "call" and (MAXSEL.match(x[1]) or FIRSTSEL.search(x[1]))}
        dsel = {x for x in ogs.of_operand(Dt) if x[0] == "call"}
        if droot is None or not any(_is_part_of(r_, droot) for r_ in roots):
            other = [("%s.%s" % (f.local_name(r[0]), ".".join(r[1])) if r is not None and isinstance(r[0], int) and f.local_name(r[0])
                      else sym_str(sx.operand(o), 50)) for o, r in zip(operands, roots)]
            res.violation(kb + ":agree-provenance", "%s: the peer's %s is not compared with the entry that is negotiated: neither side of the "
                          "comparison (%s) is the value placed in `Accept`; with tables whose entries differ the responder accepts a disagreeing "
                          "peer or refuses an agreeing one" % (f.path, "network magic" if what == "magic" else "version data", " vs ".join(other)),
                          where=X.term_where(f, S), rule="AGREE")
        elif not (vsel & dsel):
            res.violation(kb + ":agree-provenance", "%s: the data placed in `Accept` (and compared with the peer's) does not come out of the selection "
                          "of the accepted version (it is another entry / field)" % f.path, where=X.term_where(f, S), rule="AGREE")
        else:
            res.ok(kb + ":agree-provenance", "AGREE", "the compared own value is the negotiated entry placed in Accept")
        return
    if found:
        x = found[0]
        why = "with the wrong polarity (accept on *mismatch*)" if not x[1] else "of a value with itself"
        res.violation(kb + ":agree", "%s: the accept depends on a comparison of %s %s" % (f.path, "network magic" if x[0] == "magic" else "version data", why),
                      where=X.term_where(f, x[3]), rule="AGREE")
    else:
        res.violation(kb + ":agree", "%s: the accept is not conditional on the two sides agreeing on network magic / version data: a peer of another "
                      "network is accepted" % f.path, where=X.term_where(f, B), rule="AGREE")


# ---------------------------------------------------------------------------------------------------------- REFUSE

def check_refuse(res, P, crate, fns, helpers):
    n = 0
    for f in fns:
        og = X.Origins(f, extra_transparent=ADAPT)
        L = X.LogicalCFG(f)
        ups = X.upvar_params(P, f)
        parent = P.fns.get(f.b.get("parent") or "") if ups else f
        for bi, si, s in f.statements():
            if not (s[0] == "a" and s[2]["k"] == "agg" and s[2].get("ak") == "adt" and REFUSE_ADT.search(s[2].get("adt") or "") and s[2].get("variant") == "VersionMismatch"):
                continue
            n += 1
            kb = "refuse:%s" % f.path
            leaves = og.of_operand(s[2]["fields"][0])
            srcs = set()
            for x in leaves:
                if x[0] == "upvar":
                    pi, nm = ups.get(x[1], (None, "upvar%d" % x[1]))
                    srcs.add(("param", pi, nm, parent.local_ty(pi) if pi else ""))
                elif x[0] == "param":
                    srcs.add(("param", x[1], x[2], f.local_ty(x[1])))
                elif x[0] == "call":
                    srcs.add(("call", x[1]))
            own = [x for x in srcs if x[0] == "param" and (x[2] == "self" or re.search(r"VersionTable", x[3]))]
            foreign = [x for x in srcs if not (x[0] == "param" and (x[2] == "self" or re.search(r"VersionTable", x[3])))
                       and not (x[0] == "call" and re.search(r"^alloc::vec::Vec::(new|with_capacity)$", x[1]))]
            span = s[-1] if isinstance(s[-1], list) else None
            if own and not foreign:
                res.ok(kb + ":own-table", "REFUSE", "VersionMismatch lists versions from `%s`" % own[0][2])
            else:
                res.violation(kb + ":own-table", "%s: `VersionMismatch` lists versions that do not (only) come from the responder's own table (%s): the "
                              "peer is told its own proposal instead of what the responder supports" % (
                                  f.path, sorted(str(x[1:3]) for x in foreign) or "no table at all"), where=where(f, span), rule="REFUSE")
            # on the nothing-found path: every (logical) path to the refusal leaves a search empty-handed, i.e. crosses the
            # None / exhausted edge of an Option that a selector (`max*`, `find`, `next`, ..) produced or of an Option slot
            # the function keeps ("found" / "mismatch")
            sx = X.SymX(f)
            none_edges = set()
            for S in L.reachable(0):
                t = f.blocks[S]["term"]
                if t["k"] != "switch":
                    continue
                c = sx.operand(t["d"])
                if c[0] != "discr":
                    continue
                calls = [x for x in sym_walk(c[1]) if x[0] == "call"]
                if not any(MAXSEL.match(strip_generics(x[1])) or FIRSTSEL.search(strip_generics(x[1])) for x in calls) \
                        and not _discr_of_option(f, S):
                    continue
                for sc in L.succ(S):
                    vals = [int(v) for v, tg in t["ts"] if tg == sc]
                    if (vals == [0]) or (not vals and all(int(v) != 0 for v, _ in t["ts"])):
                        none_edges.add((S, sc))
            seen = {0}
            work = [0]
            while work:
                x = work.pop()
                for y in L.succ(x):
                    if (x, y) in none_edges or y in seen or f.blocks[y].get("cleanup"):
                        continue
                    seen.add(y)
                    work.append(y)
            okpath = bool(none_edges) and bi not in seen
            if okpath:
                res.ok(kb + ":no-common-path", "REFUSE", "sent where the search yielded nothing")
            else:
                res.violation(kb + ":no-common-path", "%s: `VersionMismatch` is not confined to the path on which no common version was found" % f.path,
                              where=where(f, span), rule="REFUSE")
    return n


def _discr_of_option(f, S):
    """Does block S switch on the discriminant of an `Option` (e.g. a remembered "found" / "mismatch" slot)?"""
    t = f.blocks[S]["term"]
    p = op_place(t["d"])
    if p is None or pl_proj(p):
        return False
    for st in f.blocks[S]["st"]:
        if st[0] == "a" and st[1] == pl_local(p) and st[2]["k"] == "discr":
            q = st[2]["p"]
            ty = f.local_ty(pl_local(q))
            for e in pl_proj(q):
                if e[0] == "field":
                    ty = e[3]
            return re.sub(r"^&+(mut )?", "", ty).startswith("core::option::Option<")
    return False


def run(tier="quick"):
    res = Result("C25", tier, level="other")
    P = Program(crates=CRATES)
    for crate, rx in RESPONDERS.items():
        sites, helpers, fns = accept_sites(P, crate, rx)
        res.count("responder_functions", len(fns))
        res.count("accept_sites", len(sites))
        res.floor("accept-sites:" + crate, len(sites), 1)
        for f, B, V, Dt, label in sites:
            L = X.LogicalCFG(f)
            kb = "%s:%s" % (label, f.path)
            check_select(res, P, f, L, B, V, kb)
            check_common(res, P, f, L, B, V, kb)
            check_agree(res, P, f, L, B, Dt, kb, V=V, accept_blocks=[x[1] for x in sites if x[0] is f])
        n = check_refuse(res, P, crate, fns, helpers)
        res.count("version_mismatch_sites", n)
        res.floor("version-mismatch-sites:" + crate, n, 1)
    return finish(res, "Decides the three structural clauses (order-directed selection over the common versions, accept control-dependent on "
                  "agreement, version-mismatch refusal from the responder's own table); that the library search returns the maximum is trusted.",
                  __doc__.split("\n\n", 1)[1], trusted_base=["semantics of core iterator/sort/BTree APIs", "rustc MIR (opt-level 0) as dumped by driver/"])
