"""C04 — decoded numeric wrappers never violate their declared ranges (decided whole, by ownership).

The fields of PositiveCoin and NonZeroInt are private to pallas_codec::utils, so every value is built at an Aggregate site in that
crate.  R-CTORS: every construction site (all workspace crates are scanned) is dominated by a test that excludes zero on the very
operand being wrapped.  Constructions inside serde::Deserialize impls are listed but not judged (the property is about CBOR bytes).
Type assertions tie the embedded uses (conway Multiasset<PositiveCoin>, Mint = Multiasset<NonZeroInt>, donation) to these wrappers."""
import re
from pv.program import Program
from pv.report import Result, finish
from pv.mir import sym_str
from pv import flow, guards

WRAPPERS = ["pallas_codec::utils::PositiveCoin", "pallas_codec::utils::NonZeroInt"]


def run(tier):
    res = Result("C04", tier, level="proof")
    crates = ["pallas_codec", "pallas_primitives", "pallas_traverse", "pallas_validate", "pallas_txbuilder", "pallas_utxorpc", "pallas_configs"] \
        if tier == "thorough" else ["pallas_codec", "pallas_primitives"]
    P = Program(crates=crates)
    for w in WRAPPERS:
        adt = P.adt(w)
        short = w.split("::")[-1]
        if adt is None:
            res.violation("anchor:" + short, "%s not found" % w, rule="anchor")
            continue
        # privacy: the single field must not be public
        fld = adt["variants"][0]["fields"]
        if len(fld) != 1 or "Public" in fld[0]["vis"]:
            res.violation("privacy:" + short, "%s's field is public (%s): any crate can build an out-of-range value, the ownership argument is void" % (short, fld[0]["vis"] if fld else "?"),
                          where="%s:%s" % (adt["file"], adt["line"]), rule="R-CTORS")
        else:
            res.ok("privacy:" + short, "R-CTORS", "tuple field visibility %s" % fld[0]["vis"])
        n_sites = 0
        n_serde = 0
        for f in P.fns.values():
            for bi, si, rv in flow.aggregates(f, "^" + re.escape(w) + "$"):
                tr = f.b.get("impl_trait") or ""
                root = f.b.get("root") or f.path
                if "serde" in tr or "serde" in root or "_serde" in f.path or "Deserialize" in f.path:
                    n_serde += 1
                    continue
                n_sites += 1
                val = f.sym_operand(rv["fields"][0])
                ok = False
                for fact in guards.facts_at_term(f, bi):
                    for op, l, r in fact.oriented():
                        if l == val and r[0] == "const" and int(r[1]) == 0 and op in ("Ne", "Gt", "Lt"):
                            ok = True
                        if l == val and r[0] == "const" and op == "Ge" and int(r[1]) >= 1:
                            ok = True
                # NonZero*::new(..) style: value produced by a std non-zero constructor
                if not ok and any(s[0] == "call" and re.search(r"core::num::nonzero::NonZero", s[1]) for s in [val] if val[0] == "call"):
                    ok = True
                key = "ctor:%s:%s" % (short, f.path.split("pallas_codec::")[-1])
                if ok:
                    res.ok(key, "R-CTORS", "construction dominated by a zero-excluding test on %s" % sym_str(val, 60))
                else:
                    res.violation(key, "%s is constructed from %s in %s without a dominating test that excludes zero: a zero value can be produced (e.g. by decoding the CBOR item 00)" % (
                        short, sym_str(val, 80), f.path), where="%s:%s" % (f.file, f.line), rule="R-CTORS")
                res.sample({"wrapper": short, "site": f.path, "operand": sym_str(val, 80), "guarded": ok})
        res.count("construction sites %s" % short, n_sites)
        res.count("serde construction sites %s (not judged)" % short, n_serde)
        res.floor("construction sites of %s" % short, n_sites, 1)   # TryFrom and Decode may share one constructor
        # a Decode impl must exist and be among the judged sites
        dec = [f for f in P.fns.values() if f.b.get("impl_adt") == w and (f.b.get("impl_trait") or "").endswith("minicbor::decode::Decode") and f.name == "decode"]
        if len(dec) == 1:
            res.ok("decode-impl:" + short, "R-CTORS", "one Decode impl: %s (expansion: %s)" % (dec[0].path, dec[0].b.get("impl_expn")))
        else:
            res.violation("decode-impl:" + short, "%s has %d Decode impls" % (short, len(dec)), rule="anchor")
    # embedded uses inherit the invariant (type assertions on items)
    want = {
        ("pallas_primitives::conway::model::Value", "Multiasset", 1): "PositiveCoin",
    }
    v = P.adt("pallas_primitives::conway::model::Value")
    if v is not None:
        ma = next((x for x in v["variants"] if x["name"] == "Multiasset"), None)
        ok = ma is not None and any("PositiveCoin" in f["ty"] for f in ma["fields"])
        (res.ok if ok else res.violation)("embedded:conway::Value::Multiasset", *( ("R-TYPE", "asset quantities are PositiveCoin") if ok else ("conway::Value::Multiasset no longer carries PositiveCoin quantities", None, "R-TYPE")))
    tb = P.adt("pallas_primitives::conway::model::TransactionBody")
    if tb is not None:
        fields = {f["name"]: f["ty"] for f in tb["variants"][0]["fields"]}
        for name, wrapper in (("mint", "NonZeroInt"), ("donation", "PositiveCoin")):
            ok = wrapper in fields.get(name, "")
            if ok:
                res.ok("embedded:conway::TransactionBody.%s" % name, "R-TYPE", "%s: %s" % (name, fields[name][:80]))
            else:
                res.violation("embedded:conway::TransactionBody.%s" % name, "conway::TransactionBody.%s is %s, no longer built on %s" % (name, fields.get(name), wrapper), rule="R-TYPE")
    res.assumptions += ["no unsafe transmute into the wrappers (none in pallas-codec)", "serde (JSON) deserialisation is outside 'obtained from bytes'"]
    return finish(res,
                  explanation="Ownership argument: private field => all constructions are in pallas-codec; each non-serde construction site is dominated by a zero-excluding "
                              "comparison on the wrapped operand (kill-checked), including the Decode impls, so no zero-valued wrapper can come out of CBOR decoding.",
                  rule_text="R-CTORS(PositiveCoin, NonZeroInt): construction dominated by != 0 on the operand; field private; embedded uses typed with the wrappers",
                  trusted_base=["rustc MIR and items", "Rust privacy rules"], checker_cmd="./check C04 --tier %s" % tier)
