"""C22 — mini-protocol messages are single well-formed CBOR items and round-trip (shape clauses).

Decides, for every hand-written `impl Encode` / `impl Decode` under pallas-network/src/miniprotocols/** and
pallas-network2/src/protocol/** (messages and payload types), with the codec-shape interpreter pv/x_codec.py (E4):
 (i)  R-SHAPE  every encoder arm writes exactly one well-formed CBOR data item: each definite array/map receives exactly the
      number of items it declares (as a strict generic decoder counts them), indefinite containers are closed, tags prefix
      an item, no arm ends in todo!()/panic;
 (ii) R-DUAL   what each encoder arm writes is read back by the paired decoder: the constant label / array length / head
      type it writes selects a decoder arm that consumes exactly the arm's items (no more, no fewer, compatible kinds and
      integer widths) and constructs the same variant; a `match d.datatype()` accepts every head type the arm can emit.
An arm the interpreter cannot abstract is a violation (fail closed) unless frozen in tables/codec_opaque.json.
Not decided: equality of field values after the round trip; payloads of generic parameters (assumed to be one item);
derive-generated codecs (minicbor-derive's own invariants)."""
from pv.report import Result, finish
from pv.x_codec import Model, check_types, load_table

PREFIXES = ["pallas-network/src/miniprotocols/", "pallas-network2/src/protocol/"]
CRATES = ["pallas_codec", "pallas_crypto", "pallas_network", "pallas_network2"]


def run(tier):
    res = Result("C22", tier, level="other")
    table = load_table()
    m = Model(CRATES, table=table)
    adts = m.codec_types(file_prefixes=PREFIXES)
    used = set()
    reps = check_types(res, m, adts, table, used)
    n_enc = sum(len(r.enc) for r in reps.values())
    n_dec = sum(len(r.dec) for r in reps.values())
    n_arms = sum(1 for r in reps.values() for _, a in r.arms if a.kind == "ok")
    n_dual = sum(1 for r in reps.values() for k, _ in r.ok if k.startswith("dual:"))
    for stack, crate in (("original stack", "pallas_network::"), ("P2P stack", "pallas_network2::")):
        res.floor("hand-written Encode impls, %s" % stack, sum(len(r.enc) for a, r in reps.items() if a.startswith(crate)), 30 if crate == "pallas_network::" else 12)
        res.floor("hand-written Decode impls, %s" % stack, sum(len(r.dec) for a, r in reps.items() if a.startswith(crate)), 30 if crate == "pallas_network::" else 12)
    res.floor("encoder arms abstracted", n_arms, 150)
    res.floor("encoder arms checked against their decoder", n_dual, 120)
    # message types proper: every mini-protocol has one
    msgs = [a for a in adts if a.endswith("::Message")]
    res.floor("mini-protocol Message codecs", len(msgs), 12)
    for a, r in sorted(reps.items()):
        if len(res.samples) < 25 and r.arms:
            from pv.x_codec import shape_str
            im, arm = r.arms[0]
            res.sample({"type": a, "arm": arm.label, "shape": shape_str(arm.tokens), "arms": len(r.arms)})
    dec_only = [a for a, r in reps.items() if r.dec and not r.enc]
    if dec_only:
        res.notes.append("decoder without a hand-written encoder (duality not applicable): %s" % ", ".join(x.rsplit("::", 1)[-1] for x in dec_only))
    res.assumptions += [
        "a payload of generic type T encodes as exactly one item whose head type is none of those a wrapper's decoder names explicitly",
        "bytes written verbatim through writer_mut().write_all are one well-formed item (KeepRaw / AnyCbor: C03 clauses (a),(b),(e))",
        "Deref to the underlying collection is the identity on its length (len(x) and the loop over x are keyed by the same place)",
    ]
    return finish(res,
                  explanation="Each hand-written encoder under the two network stacks is abstracted, arm by arm, into a CBOR shape (headers with declared lengths, items, "
                              "tags, per-iteration loop shapes) by abstract interpretation of its type-resolved HIR; the shape is parsed the way a strict generic decoder "
                              "counts items, and the paired decoder is interpreted against the shape (constant labels, lengths and head types select its arms). "
                              "Decides well-formedness and label/arity/kind duality; does not decide equality of field values.",
                  rule_text="R-SHAPE: every definite container receives exactly its declared number of items, indefinite ones are closed, one top-level item per encode(); "
                            "R-DUAL: the decoder run on each encoder arm's shape consumes it exactly and constructs the same variant, universally over the head types the arm can emit",
                  trusted_base=["rustc HIR (type-resolved)", "spec/minicbor_duality.json (minicbor 0.26 Encoder/Decoder/Type tables)", "tables/codec_opaque.json"])
