"""C06 — era ledger codecs are isomorphic on chain data and round-trip all values (necessary structural clauses).

Scope: every ADT defined under pallas-primitives/src/ except plutus_data.rs (C07) — lib.rs, alonzo, babbage, conway, byron.

 (1) R-SHAPE + R-DUAL  every type with a hand-written or macro-generated (codec_by_datatype!) Encode *and* Decode: each encoder
     arm is one well-formed CBOR item (declared lengths = items, indefinite containers closed, one top-level item) and the
     paired decoder, interpreted on what the arm writes, consumes exactly that and builds the same variant; a
     `match d.datatype()` accepts every head type the arm's payload encoder can emit (engine E4, pv/x_codec.py).
 (2) R-RAW      reviewed rows (tables/keepraw_fields.json, `raw`): inside ADT `in`, every occurrence of payload type `holds`
     lies below a raw-preserving wrapper (KeepRaw / AnyCbor); replacing KeepRaw<X> by X is reported, moving the wrapper
     outwards (KeepRaw<Vec<X>>) or swapping it for another raw-preserving wrapper is not.
 (3) R-INJ      for every type with both an Encode and a Decode impl (derived or not): every field of every variant is used by
     the encoder (a field the encoder never reads cannot be recovered by any decoder, so two values differing only there
     encode alike); and every *mixed* pair (derived Encode + hand-written Decode or the reverse) is paired head-type-wise
     with the engine.
 (4) R-DEFINDEF reviewed rows (`defindef`): inside `in`, occurrences of `holds` that sit in a collection sit only in
     encoding-preserving collections (MaybeIndefArray / KeyValuePairs / NonEmptyKeyValuePairs) unless a raw wrapper encloses
     the collection.
 (5) R-ISO      closure of the on-chain root types (era Block / Tx, Byron Block / EbBlock): walking the field types from a
     root, stopping at raw wrappers, no *lossy* collection (decoder accepts definite and indefinite / any order, encoder
     emits one canonical form: Vec, BTreeMap, Set, NonEmptySet, derive-generated map structs) is reachable — otherwise some
     accepted block re-encodes to different bytes.

 (6) R-DOMAIN   value-domain duality of the hand-written pairs of (1): in the product run of the decoder against an encoder
     arm, a test whose outcome the arm's shape decides (tag, declared length, constant label, head type) is *structural*;
     a test on data the arm leaves open (the payload values the encoder writes as given) forks the run.  A forked leaf on
     which the decoder returns its own `Err` (or panics) means: among the values this arm encodes there are some the
     decoder refuses — the decoder's domain is narrower than the encoder's.  It is reported, naming the comparison, unless
     the same predicate is enforced on the value side: the encoder arm refuses / excludes it (its path facts then decide
     the decoder's test), or the compared field is private and every construction site of the type in the crate is
     dominated by a guard excluding the rejected value (R-CTORS), or the exact key is reviewed in
     tables/codec_opaque_C06.json `value_guards`.

Not decided: equality of field values; the index <-> field tables of derive-generated codecs (minicbor-derive) and of
CostModels::decode; records the ledger could write with an indefinite header; non-minimal integer / length heads outside
raw wrappers."""
import contextlib
import json
import os
import re

from pv import facts
from pv.report import Result, finish
from pv.hirwalk import walk
from pv.x_codec import (Model, Interp, val_str, load_table, shape_str, Arm, Tok, Unanalysable, parse_type, type_str, DEC_T)
from pv.x_preserve import Classes, fields_of, short

CRATE = "pallas_primitives"
CRATES = ["pallas_codec", "pallas_crypto", CRATE]
SRC = "pallas-primitives/src/"
EXCLUDED_FILES = {"pallas-primitives/src/plutus_data.rs": "PlutusData, Constr, BigInt, BoundedBytes: decided by C07"}


def in_scope(adt):
    f = adt.get("file") or ""
    return f.startswith(SRC) and f not in EXCLUDED_FILES


def load_preserve_table():
    return json.load(open(os.path.join(facts.VERIF, "tables", "keepraw_fields.json")))


def load_codec_table():
    """the engine's shared table (fragments, raw heads of pallas-codec wrappers) + C06's own reviewed exceptions"""
    t = json.loads(json.dumps(load_table()))
    p = os.path.join(facts.VERIF, "tables", "codec_opaque_C06.json")
    own = json.load(open(p)) if os.path.exists(p) else {}
    for sec in ("opaque", "fragments", "raw_heads", "param_arity", "value_guards"):
        t.setdefault(sec, {}).update(own.get(sec, {}))
    return t, own


# ---------------------------------------------------------------------------------------------- (1) pairs
def analyse_feasible(m, adt, fragments):
    """m.analyse(adt) minus the encoder paths that assume `self` is none of the variants of its (exhaustive) enum: two
    consecutive `if let V(..) = self` make the interpreter enumerate such a path, which no value can take."""
    rep = m.analyse(adt, fragments=fragments)
    a = m.adts.get(adt)
    if a is None or a.get("kind") != "Enum":
        return rep
    variants = {v["name"] for v in a["variants"]}
    dead = set()
    for im, arm in rep.arms:
        f = arm.facts.get("self")
        if f and f[0] == "notvar" and set(f[1]) >= variants:
            dead.add(arm.label)
    if not dead:
        return rep

    def about_dead(key):
        return any(key.endswith(":" + l) or (":%s:" % l) in key for l in dead)
    rep.arms = [(im, arm) for im, arm in rep.arms if arm.label not in dead]
    rep.ok = [(k, d) for k, d in rep.ok if not about_dead(k)]
    keep = []
    for f in rep.findings:
        if about_dead(f.key):
            continue
        if f.kind == "arity":
            tops = {arm.n_top for im, arm in rep.arms if arm.kind == "ok" and not arm.problems}
            if len(tops) == 1:
                n = next(iter(tops))
                rep.arity = n
                if n == 1 or adt in fragments:
                    continue
        keep.append(f)
    rep.findings = keep
    rep.notes.append("%d unreachable encoder path(s) (self is none of its variants) ignored" % len(dead))
    return rep


def pairs_clause(res, m, adts, table, used_table):
    """the recording loop of pv.x_codec.check_types, over analyse_feasible"""
    opaque = table.get("opaque", {})
    fragments = table.get("fragments", {})
    reps = {}
    for adt in adts:
        r = analyse_feasible(m, adt, fragments)
        reps[adt] = r
        res.count("types analysed")
        res.count("Encode impls analysed", len(r.enc))
        res.count("Decode impls analysed", len(r.dec))
        res.count("encoder arms", len(r.arms))
        for key, detail in r.ok:
            res.ok(key, "R-SHAPE" if key.startswith("wf:") else "R-DUAL", detail)
            res.count("arms well-formed" if key.startswith("wf:") else "arms dual to the decoder")
        for f in r.findings:
            if f.kind == "unan" and f.key in opaque:
                res.count("arms accepted by the reviewed opaque tables")
                res.ok(f.key, "table", "not abstracted; reviewed: %s" % opaque[f.key])
                used_table.add(f.key)
                continue
            res.violation(f.key, f.msg, where=f.where, rule={"wf": "R-SHAPE", "arity": "R-SHAPE", "panic": "R-SHAPE", "dual": "R-DUAL", "unan": "R-SHAPE(unanalysable)"}[f.kind])
        for n in r.notes:
            res.notes.append("%s: %s" % (short(adt), n))
    return reps


# ---------------------------------------------------------------------------------------------- (6) R-DOMAIN
_OPS = {"Eq": "==", "Ne": "!=", "Lt": "<", "Le": "<=", "Gt": ">", "Ge": ">="}
_NEG = {"Eq": "Ne", "Ne": "Eq", "Lt": "Ge", "Ge": "Lt", "Gt": "Le", "Le": "Gt"}


@contextlib.contextmanager
def named_conditions():
    """While active, a fork of the interpreter on a comparison it cannot decide is labelled with the comparison itself
    (`self.numerator>self.denominator`) instead of an ordinal `cond#k`.  Labels are informational in the engine (decoder
    runs never read them), so this only makes the leaves of run_decoder self-describing; the engine file is not edited."""
    orig = Interp.truth

    def truth(self, v, s):
        n0 = len(s.labels)
        out = orig(self, v, s)
        try:
            w, neg = v, False
            while w[0] == "not":
                w, neg = w[1], not neg
            if w[0] == "cmp" and len(out) == 2 and w[1] in _OPS:
                for st, b in out:
                    if len(st.labels) == n0 + 1 and "cond#" in st.labels[-1]:
                        op = w[1] if (b != neg) else _NEG[w[1]]
                        st.labels[-1] = "%s%s%s" % (val_str(w[2]), _OPS[op], val_str(w[3]))
        except Exception:
            pass
        return out
    Interp.truth = truth
    try:
        yield
    finally:
        Interp.truth = orig


class CtorInvariants:
    """R-CTORS on demand (MIR): is `field` of `adt` private, and is every construction site of the ADT in the crate, other
    than its Decode / serde impls, dominated by a guard that excludes `field == c` (resp. forces it)?"""

    def __init__(self):
        self.P = None

    def prog(self):
        if self.P is None:
            from pv.program import Program
            self.P = Program(crates=[CRATE])
        return self.P

    def holds(self, adt_fact, variant, field, fact):
        """fact: ('eq', c) = the decoder refuses field == c ; ('ne', {c..}) = it refuses field not in {c..}"""
        from pv import flow, guards
        vs = [v for v in adt_fact["variants"] if variant in (None, v["name"])]
        if len(vs) != 1:
            return False, "variant not determined"
        idx = next((i for i, f in enumerate(vs[0]["fields"]) if f["name"] == field), None)
        if idx is None:
            return False, "no such field"
        if "Public" in str(vs[0]["fields"][idx].get("vis")):
            return False, "field `%s` is public: any crate can build the refused value" % field
        P = self.prog()
        n = 0
        for f in P.fns.values():
            tr = f.b.get("impl_trait") or ""
            for bi, si, rv in flow.aggregates(f, "^" + re.escape(adt_fact["path"]) + "$", vs[0]["name"] if adt_fact.get("kind") == "Enum" else None):
                if tr == "minicbor::decode::Decode" or "serde" in tr or "serde" in f.path or "Deserialize" in f.path:
                    continue
                n += 1
                val = f.sym_operand(rv["fields"][idx])
                ok = f.b.get("impl_adt") == adt_fact["path"] and _copies_field(val, field, idx)     # Clone / functional update of an existing value
                for g in guards.facts_at_term(f, bi):
                    for op, l, r in g.oriented():
                        if l != val or r[0] != "const":
                            continue
                        try:
                            k = int(r[1])
                        except (TypeError, ValueError):
                            continue
                        if fact[0] == "eq":
                            c = fact[1]
                            if (op == "Ne" and k == c) or (op == "Gt" and k >= c) or (op == "Ge" and k > c) or (op == "Lt" and k <= c) or (op == "Le" and k < c):
                                ok = True
                        elif fact[0] == "ne" and op == "Eq" and k in fact[1]:
                            ok = True
                if not ok:
                    return False, "%s builds the type without a dominating guard on `%s`" % (f.path, field)
        return True, "%d construction site(s), each guarded" % n


def _copies_field(val, field, idx):
    """the operand is the same field of an existing value, through refs / derefs / clone-like calls only"""
    for _ in range(12):
        if not isinstance(val, tuple) or not val:
            return False
        k = val[0]
        if k in ("ref", "deref", "copy", "move"):
            val = val[1]
        elif k == "call" and len(val) > 2 and len(val[2]) == 1 and re.search(r"::(clone|to_owned|borrow|as_ref|deref|into|from)$", str(val[1])):
            val = val[2][0]
        elif k == "field":
            return str(val[2]) in (field, str(idx))
        else:
            return False
    return False


def _parse_self_field(key):
    m_ = re.match(r"^self\.([A-Za-z_0-9]+)$", key)
    return m_.group(1) if m_ else None


def domain_clause(res, m, reps, table, used_table, all_adts):
    reviewed = table.get("value_guards", {})
    inv = CtorInvariants()
    n_runs = n_forked = 0
    with named_conditions():
        for adt, rep in sorted(reps.items()):
            for im, arm in rep.arms:
                if arm.kind != "ok" or arm.problems:
                    continue
                decs = [d for d in rep.dec if d.self_ty == im.self_ty] or rep.dec
                for dm in decs:
                    keep = []
                    try:
                        leaves = m.run_decoder(dm, arm, keep)
                    except Unanalysable:
                        continue            # already a finding of clause (1)
                    n_runs += 1
                    seen = set()
                    for lf, (status, val, st) in zip(leaves, keep):
                        if not lf[1]:
                            continue        # decided by the arm's shape: structural, judged by clause (1)
                        n_forked += 1
                        if lf[0] not in ("rejects", "panics"):
                            continue
                        new_facts = {k: f for k, f in st.facts.items() if arm.facts.get(k) != f}
                        conds = [l for l in st.labels]
                        cond_txt = "&".join(conds) if conds else "data-dependent"
                        if cond_txt in seen:
                            continue
                        seen.add(cond_txt)
                        key = "domain:%s:%s:refuses(%s)" % (adt, arm.label, cond_txt.replace(" ", ""))
                        where = "%s (encoder arm at %s:%s)" % (dm.where, im.file, arm.line or im.line)
                        # constructor invariant: one conjunct that no constructible value satisfies makes the leaf unreachable
                        why_not = []
                        covered = None
                        for k, f in sorted(new_facts.items()):
                            fld = _parse_self_field(k)
                            if fld is None or f[0] not in ("eq", "ne"):
                                continue
                            okk, why = inv.holds(all_adts[adt], arm.variant, fld, f)
                            if okk:
                                covered = "%s: %s" % (k, why)
                                break
                            why_not.append(why)
                        if covered:
                            res.ok(key, "R-CTORS", "the decoder refuses what no constructor of the type can build (%s)" % covered)
                            continue
                        if key in reviewed:
                            used_table.add("value_guards:" + key)
                            res.ok(key, "table", reviewed[key])
                            continue
                        res.violation(key, "Decode of %s %s when %s, but encoder arm %s writes such values as given [%s]: the decoder accepts fewer values than the encoder produces, so these values "
                                           "do not round-trip and chain data carrying them no longer decodes%s" % (
                                               short(adt), "panics" if lf[0] == "panics" else "returns its own error", " and ".join(conds) if conds else "a data-dependent test holds",
                                               arm.label, shape_str(arm.tokens), ("  (no value-side invariant found: %s)" % "; ".join(sorted(set(why_not)))) if why_not else ""),
                                      where=where, rule="R-DOMAIN")
                    if not any(lf[1] and lf[0] in ("rejects", "panics") for lf in leaves):
                        res.ok("domain:%s:%s" % (adt, arm.label), "R-DOMAIN", "no refusal depends on payload values (%d data-dependent leaves, all accepted or type-directed)" % sum(1 for lf in leaves if lf[1]))
    return n_runs, n_forked


# ---------------------------------------------------------------------------------------------- (3) R-INJ
def _strip(n):
    while isinstance(n, dict):
        k = n.get("k")
        if k in ("ref", "cast", "try"):
            n = n.get("e") or n.get("a")
        elif k == "un" and n.get("op") == "Deref":
            n = n["a"]
        elif k == "block" and not n.get("stmts") and n.get("expr") is not None:
            n = n["expr"]
        elif k in ("mcall", "call") and (n.get("name") in ("clone", "borrow", "as_ref", "deref", "to_owned") or (n.get("def") or "").rsplit("::", 1)[-1] in ("clone", "borrow", "as_ref", "deref", "to_owned")):
            r = n.get("recv") if n.get("k") == "mcall" else (n.get("args") or [None])[0]
            if r is None:
                break
            n = r
        else:
            break
    return n


class Mentions:
    """Which fields of `self` an `encode(&self, e, ctx)` body uses: `self.f` projections and bindings (that are referenced
    somewhere) of patterns matched against `self`.  `escaped`: self is handed over whole (a helper, a trait call other than
    the transparent ones) — every field then counts as used."""

    def __init__(self, im, adt_path):
        self.adt = adt_path
        self.used = set()          # (variant or None, field name)
        self.escaped = False
        hir = im.hir
        p0 = hir["params"][0] if hir.get("params") else None
        self.self_lids = set()
        if p0 is not None and p0.get("k") == "bind":
            self.self_lids.add(p0["lid"])
        self.local_refs = {}
        for x in walk(hir["root"]):
            if x.get("k") == "path" and x.get("rk") == "Local":
                self.local_refs[x.get("lid")] = self.local_refs.get(x.get("lid"), 0) + 1
        self.pending = []          # (variant, field, binding lid)
        self.visit(hir["root"])
        for variant, field, lids in self.pending:
            if lids is None or any(self.local_refs.get(l, 0) > 0 for l in lids):
                self.used.add((variant, field))

    def is_self(self, n):
        n = _strip(n)
        return isinstance(n, dict) and n.get("k") == "path" and n.get("rk") == "Local" and n.get("lid") in self.self_lids

    def bound_lids(self, p, out):
        k = p.get("k")
        if k == "bind":
            out.append(p["lid"])
            if p.get("sub") is not None:
                self.bound_lids(p["sub"], out)
        elif k in ("ref", "deref", "guard"):
            self.bound_lids(p["sub"], out)
        elif k in ("tstruct", "tuple"):
            for s in p.get("subs", []):
                self.bound_lids(s, out)
        elif k == "struct":
            for _, s in p.get("fields", []):
                self.bound_lids(s, out)
        elif k == "or":
            for s in p.get("alts", []):
                self.bound_lids(s, out)
        elif k == "slice":
            for s in p.get("before", []) + ([p["mid"]] if p.get("mid") else []) + p.get("after", []):
                self.bound_lids(s, out)
        return out

    def pat_on_self(self, p):
        k = p.get("k")
        if k in ("ref", "deref", "guard"):
            return self.pat_on_self(p["sub"])
        if k == "or":
            for a in p.get("alts", []):
                self.pat_on_self(a)
            return
        if k == "bind":
            if p.get("sub") is not None:
                self.pat_on_self(p["sub"])
            self.self_lids.add(p["lid"])        # alias of self; uses are then judged like uses of self
            return
        if k in ("tstruct", "struct"):
            variant = p.get("variant")
            if k == "tstruct":
                subs = p.get("subs", [])
                dd = p.get("ddpos")
                pairs = []
                if dd is None:
                    pairs = [(str(i), s) for i, s in enumerate(subs)]
                else:
                    pairs = [(str(i), s) for i, s in enumerate(subs[:dd])]
                    n_after = len(subs) - dd
                    # fields after `..` are counted from the end; their index needs the arity, resolved by the caller
                    pairs += [("-%d" % (n_after - j), s) for j, s in enumerate(subs[dd:])]
            else:
                pairs = [(fname, s) for fname, s in p.get("fields", [])]
            for fname, s in pairs:
                if s.get("k") in ("wild", "never", "err"):
                    continue
                lids = self.bound_lids(s, [])
                # a sub-pattern without bindings (a literal / nested constructor test) still inspects the field
                self.pending.append((variant, fname, lids if lids else None))

    def visit(self, n):
        if isinstance(n, list):
            for x in n:
                self.visit(x)
            return
        if not isinstance(n, dict):
            return
        k = n.get("k")
        if k == "field" and self.is_self(n.get("e")):
            self.used.add((None, n.get("name")))
            return
        if k == "match" and self.is_self(n.get("scrut")):
            for arm in n.get("arms", []):
                self.pat_on_self(arm["pat"])
                if arm.get("guard") is not None:
                    self.visit(arm["guard"])
                self.visit(arm["body"])
            return
        if k in ("let", "letx") and n.get("init") is not None and self.is_self(n.get("init")):
            self.pat_on_self(n["pat"])
            if n.get("els") is not None:
                self.visit(n["els"])
            return
        if k == "path" and n.get("rk") == "Local" and n.get("lid") in self.self_lids:
            self.escaped = True
            return
        for key, v in n.items():
            if key in ("t", "l", "x", "pat", "params"):
                continue
            if isinstance(v, (dict, list)):
                self.visit(v)


def inj_clause(res, m, adts, K):
    n_types = n_fields = 0
    for path in sorted(adts):
        a = adts[path]
        encs = m.impls_of(path, "enc", derived=True)
        decs = m.impls_of(path, "dec", derived=True)
        if not encs or not decs:
            continue
        n_types += 1
        is_enum = a.get("kind") == "Enum"
        for im in encs:
            mt = Mentions(im, path)
            if mt.escaped:
                res.count("encoders that pass self on whole (their fields are not judged) (3)")
            for v in a["variants"]:
                names = [f["name"] for f in v["fields"]]
                used = set()
                for variant, fname in mt.used:
                    if variant is not None and is_enum and variant != v["name"]:
                        continue
                    if fname.startswith("-") and fname[1:].isdigit():
                        idx = len(names) - int(fname[1:])
                        fname = str(idx)
                    used.add(fname)
                for f in v["fields"]:
                    cls = K.cls(parse_type(f["ty"]))
                    if cls == "phantom" or f["ty"] == "()":
                        continue
                    n_fields += 1
                    fk = "%s.%s" % (v["name"], f["name"]) if is_enum else f["name"]
                    key = "inj:%s:%s" % (path, fk)
                    how = "derive-generated" if im.derived else "hand-written"
                    if mt.escaped or f["name"] in used:
                        res.ok(key, "R-INJ", "used by the %s encoder%s" % (how, " (self is passed on whole)" if mt.escaped and f["name"] not in used else ""))
                    else:
                        res.violation(key, "the %s Encode impl of %s never reads field `%s` (%s): values that differ only in this field encode to the same bytes, so "
                                           "decoding the encoding cannot give back an equal value%s" % (
                                               how, path, fk, short(f["ty"]),
                                               " — and the Decode impl does fill it from the input, so decode-then-encode drops data" if not all(d.derived for d in decs) else ""),
                                      where=im.where, rule="R-INJ")
    return n_types, n_fields


# ---------------------------------------------------------------------------------------------- (3) mixed pairs
def _first_decoder_call(im):
    """name of the first Decoder method a derive-generated decode calls that consumes input (position / probe / input /
    datatype only look)"""
    for x in walk(im.hir["root"]):
        if x.get("k") == "mcall" and (x.get("def") or "").startswith(DEC_T + "::") and x.get("name") not in ("position", "set_position", "input", "probe", "datatype"):
            return x.get("name")
    return None


def mixed_clause(res, m, adts, table, used_table):
    n = 0
    opaque = table.get("opaque", {})
    for path in sorted(adts):
        he, hd = m.impls_of(path, "enc"), m.impls_of(path, "dec")
        de = [i for i in m.impls_of(path, "enc", derived=True) if i.derived]
        dd = [i for i in m.impls_of(path, "dec", derived=True) if i.derived]
        if hd and not he and de:
            # derive-generated encoder, hand-written decoder: the decoder must accept every head the derived encoder writes
            n += 1
            key = "mixed:%s" % path
            heads = m.head_kinds(path)
            if heads is None:
                k2 = "unanalysable:%s:enc:derived-head" % path
                if k2 in opaque:
                    used_table.add(k2)
                    res.ok(k2, "table", opaque[k2])
                else:
                    res.violation(k2, "the head type written by the derive-generated Encode of %s cannot be determined, so it cannot be paired with the hand-written Decode" % path, where=de[0].where, rule="R-DUAL(unanalysable)")
                continue
            for dm in hd:
                arm = Arm()
                arm.label = "derived"
                arm.tokens = [Tok("item", kinds=heads, how="encode", ty=path)]
                try:
                    leaves = m.run_decoder(dm, arm)
                except Unanalysable as e:
                    leaves = [("unan", False, str(e), None)]
                un = [l for l in leaves if l[0] == "unan"]
                bad = [l for l in leaves if l[0] not in ("ok", "unan") and not l[1]]
                if un:
                    k2 = "unanalysable:%s:dec:derived-head" % path
                    if k2 in opaque:
                        used_table.add(k2)
                        res.ok(k2, "table", opaque[k2])
                    else:
                        res.violation(k2, "the hand-written Decode of %s cannot be followed on the item its derive-generated Encode writes: %s" % (path, un[0][2]), where=dm.where, rule="R-DUAL(unanalysable)")
                elif bad or not any(l[0] == "ok" for l in leaves):
                    l = bad[0] if bad else ("none", False, "the decoder has no successful path", None)
                    res.violation("%s:%s" % (key, l[0]), "derive-generated Encode of %s writes one item with head %s; the hand-written Decode does not read it back: %s" % (path, "|".join(sorted(heads)), l[2]),
                                  where=dm.where, rule="R-DUAL")
                else:
                    res.ok(key, "R-DUAL", "hand-written Decode consumes exactly the one %s item the derive-generated Encode writes" % "|".join(sorted(heads)))
        elif he and not hd and dd:
            # hand-written encoder, derive-generated decoder: every head an arm writes must be a header the derived decoder opens
            n += 1
            first = _first_decoder_call(dd[0])
            accept = {"array": {"Array", "ArrayIndef"}, "map": {"Map", "MapIndef"}}.get(first)
            rep = analyse_feasible(m, path, table.get("fragments", {}))
            for f in rep.findings:
                if f.kind == "unan" and f.key in opaque:
                    used_table.add(f.key)
                    res.ok(f.key, "table", opaque[f.key])
                else:
                    res.violation(f.key, f.msg, where=f.where, rule="R-SHAPE")
            for key, detail in rep.ok:
                res.ok(key, "R-SHAPE", detail)
            for im, a in rep.arms:
                if a.kind != "ok" or not a.tokens:
                    continue
                t0 = a.tokens[0]
                hk = {"arr": {"Array"}, "map": {"Map"}}.get(t0.kind) or ({"ArrayIndef"} if t0.kind == "begin" and t0.ctype == "arr" else {"MapIndef"} if t0.kind == "begin" and t0.ctype == "map" else set(t0.kinds or []) if t0.kind == "item" else None)
                key = "mixed:%s:%s" % (path, a.label)
                if accept is None or not hk:
                    k2 = "unanalysable:%s:dec:%s" % (path, a.label)
                    if k2 in opaque:
                        used_table.add(k2)
                        res.ok(k2, "table", opaque[k2])
                    else:
                        res.violation(k2, "hand-written Encode arm %s of %s cannot be paired with the derive-generated Decode (first read: %s)" % (a.label, path, first), where=im.where, rule="R-DUAL(unanalysable)")
                elif hk <= accept:
                    res.ok(key, "R-DUAL", "writes a %s header, which the derive-generated Decode opens" % "|".join(sorted(hk)))
                else:
                    res.violation(key + ":head", "hand-written Encode arm %s of %s starts with %s but the derive-generated Decode opens %s" % (a.label, path, "|".join(sorted(hk)), "|".join(sorted(accept))), where=im.where, rule="R-DUAL")
    return n


# ---------------------------------------------------------------------------------------------- (2), (4) reviewed rows
def row_occurrences(K, adts, row):
    a = adts.get(row["in"])
    if a is None:
        return None
    want = type_str(parse_type(row["holds"]))
    out = []
    for fk, vname, fname, ty in fields_of(a):
        if row.get("variant") and vname != row["variant"]:
            continue
        for n, anc in K.occurrences(parse_type(ty)):
            if type_str(n) == want:
                out.append((fk, ty, anc))
    return out


def row_status(K, adts, row, kind):
    """-> ('ok', n protected occurrences) | ('anchor', reason) | ('bad', [(fieldkey, field type, what)])"""
    occ = row_occurrences(K, adts, row)
    if occ is None:
        return ("anchor", "type %s no longer exists" % row["in"])
    bad, good = [], 0
    for fk, ty, anc in occ:
        above_raw = []
        raw = False
        for c, p in anc:
            if c == "raw":
                raw = True
                break
            above_raw.append((c, p))
        if kind == "raw":
            if raw:
                good += 1
            else:
                bad.append((fk, ty, "has no raw-preserving wrapper above it"))
        else:
            lossy = [p for c, p in above_raw if c == "lossy"]
            pres = [p for c, p in above_raw if c == "preserving"]
            if lossy:
                bad.append((fk, ty, "is inside %s, which forgets the form (definite/indefinite, entry order) it was read in" % short(lossy[-1])))
            elif pres or raw:
                good += 1
    if bad:
        return ("bad", bad)
    if not good:
        return ("anchor", "no field of %s%s holds %s %s any more" % (row["in"], "::" + row["variant"] if row.get("variant") else "", short(row["holds"]),
                                                                         "below a raw-preserving wrapper" if kind == "raw" else "in an encoding-preserving collection"))
    return ("ok", good)


def rows_clause(res, K, adts, ptable, kind, rule):
    n = 0
    for row in ptable.get(kind, []):
        base = "%s:%s%s:holds=%s" % (kind, row["in"], "::" + row["variant"] if row.get("variant") else "", short(row["holds"]).replace(" ", ""))
        st = row_status(K, adts, row, kind)
        a = adts.get(row["in"])
        where = "%s:%s" % (a["file"], a["line"]) if a else None
        if st[0] == "ok":
            n += 1
            res.ok(base, rule, "%d occurrence(s), all %s" % (st[1], "below KeepRaw/AnyCbor" if kind == "raw" else "in MaybeIndefArray/KeyValuePairs (or below a raw wrapper)"))
        elif st[0] == "anchor":
            res.violation(base + ":anchor-lost", "reviewed row of tables/keepraw_fields.json matches nothing: %s (fail closed; if the type was redesigned, re-review the row)" % st[1], where=where, rule=rule)
        else:
            for fk, ty, what in st[1]:
                res.violation("%s:%s" % (base.replace(":holds=", ":%s:holds=" % fk, 1), "lost"),
                              "%s.%s : %s — %s %s; %s" % (
                                  short(row["in"]), fk, short(ty), short(row["holds"]), what,
                                  "the original bytes of this on-chain artefact are no longer kept, so re-encoding (and hashing) no longer reproduces what was read" if kind == "raw"
                                  else "a definite/indefinite (or differently ordered) original re-encodes to different bytes"),
                              where=where, rule=rule)
    return n


# ---------------------------------------------------------------------------------------------- (5) R-ISO
def iso_clause(res, m, K, adts, ptable):
    n_roots = n_nodes = 0
    for root in ptable.get("roots", []):
        path = root["type"] if isinstance(root, dict) else root
        a = adts.get(path)
        if a is None:
            res.violation("iso:%s:anchor-lost" % path, "on-chain root type %s no longer exists (tables/keepraw_fields.json `roots`)" % path, rule="R-ISO")
            continue
        n_roots += 1
        seen_adts = {path}
        problems = []

        def visit(t, fpath, where_adt):
            nonlocal n_nodes
            n_nodes += 1
            c = K.cls(t)
            if c in ("raw", "phantom", "leaf"):
                return
            if c == "lossy":
                problems.append((fpath, short(t[1]) if t[0] == "adt" else t[0], "lossy", where_adt, t))
                return
            if c == "unclassified":
                problems.append((fpath, short(t[1]), "unclassified", where_adt, t))
                return
            if c == "adt":
                p = t[1]
                if p in seen_adts:
                    return
                seen_adts.add(p)
                sub = adts[p]
                encs = m.impls_of(p, "enc", derived=True)
                if encs and all(i.derived for i in encs):
                    hk = m.head_kinds(p)
                    if hk and "Map" in hk:
                        problems.append((fpath, short(p), "map-struct", where_adt, t))
                        return
                for fk, vname, fname, ty in fields_of(sub):
                    visit(parse_type(ty), fpath + [fk], sub)
                return
            for ch in K.children(t):
                visit(ch, fpath, where_adt)

        for fk, vname, fname, ty in fields_of(a):
            visit(parse_type(ty), [fk], a)
        if not problems:
            res.ok("iso:%s" % path, "R-ISO", "%d types reachable outside raw wrappers, none with a lossy collection" % len(seen_adts))
        for fpath, what, kind, wa, t in problems:
            key = "iso:%s:%s:%s" % (path, ".".join(fpath), what)
            where = "%s:%s" % (wa["file"], wa["line"])
            if kind == "unclassified":
                res.violation(key + ":unclassified", "%s (reached from %s through %s) is a generic container that tables/keepraw_fields.json does not classify (raw / preserving / lossy / transparent): "
                                                     "the isomorphism of %s cannot be decided (fail closed)" % (type_str(t), short(path), ".".join(fpath), short(path)), where=where, rule="R-ISO")
            elif kind == "map-struct":
                res.violation(key, "%s reaches %s through field %s without a raw-preserving wrapper; %s is encoded as a derive-generated CBOR map (keys always written in index order, definite "
                                   "length) while its decoder accepts any key order and the indefinite form: such an original does not re-encode to the same bytes" % (short(path), what, ".".join(fpath), what),
                              where=where, rule="R-ISO")
            else:
                res.violation(key, "%s.%s is (or contains, outside any raw-preserving wrapper) a %s: its decoder accepts the definite and the indefinite%s form but its encoder always writes the "
                                   "canonical definite one, so a block or transaction that used the other form does not re-encode to its original bytes; use an encoding-preserving wrapper "
                                   "(MaybeIndefArray / KeyValuePairs) or keep the raw bytes" % (short(path), ".".join(fpath), what, " (and any entry order)" if what in ("BTreeMap", "HashMap") else ""),
                              where=where, rule="R-ISO")
    return n_roots, n_nodes


# ---------------------------------------------------------------------------------------------- driver
def run(tier):
    res = Result("C06", tier, level="other")
    table, own = load_codec_table()
    ptable = load_preserve_table()
    m = Model(CRATES, table=table)
    adts = {p: a for p, a in m.adts.items() if p.startswith(CRATE + "::") and in_scope(a)}
    all_adts = {p: a for p, a in m.adts.items() if p.startswith(CRATE + "::")}
    K = Classes(ptable, CRATE + "::", all_adts)
    res.count("ADTs in scope", len(adts))
    used = set()

    # ---- (1) hand-written / macro-generated pairs
    pairs, enc_only, dec_only = [], [], []
    for p in sorted(adts):
        he, hd = m.impls_of(p, "enc"), m.impls_of(p, "dec")
        ae, ad = m.impls_of(p, "enc", derived=True), m.impls_of(p, "dec", derived=True)
        if he and hd:
            pairs.append(p)
        elif (he or hd) and ae and not ad:
            enc_only.append(p)
        elif (he or hd) and ad and not ae:
            dec_only.append(p)
    reps = pairs_clause(res, m, pairs, table, used)
    n_arms = sum(1 for r in reps.values() for _, a in r.arms if a.kind == "ok")
    n_dual = sum(1 for r in reps.values() for k, _ in r.ok if k.startswith("dual:"))
    res.floor("types with a hand-written or macro-generated Encode+Decode pair (1)", len(pairs), 9)
    res.floor("encoder arms abstracted (1)", n_arms, 25)
    res.floor("encoder arms checked against their decoder (1)", n_dual, 25)
    n_dispatch = 0
    n_multi = 0
    for p in pairs:
        for dm in m.impls_of(p, "dec"):
            if any(x.get("k") == "mcall" and x.get("name") == "datatype" and (x.get("def") or "").startswith(DEC_T + "::") for x in walk(dm.hir["root"])):
                n_dispatch += 1
        for im, a in reps[p].arms:
            if a.kind == "ok" and a.tokens and a.tokens[0].kind == "item" and a.tokens[0].kinds and len(a.tokens[0].kinds) > 1:
                n_multi += 1
    res.floor("decoders dispatching on d.datatype() (1)", n_dispatch, 5)
    res.count("arms whose first item can have several head types (each must be accepted by the dispatch)", n_multi)
    for p in enc_only:
        res.notes.append("%s has an Encode but no Decode impl: nothing to round-trip (its shape belongs to C08)" % short(p))
    for p in dec_only:
        res.notes.append("%s has a Decode but no Encode impl: nothing to round-trip" % short(p))
    res.count("types with a hand codec on one side only (not paired)", len(enc_only) + len(dec_only))

    # ---- (6) value-domain duality
    n_runs, n_forked = domain_clause(res, m, reps, table, used, all_adts)
    res.floor("decoder runs examined for value-dependent refusals (6)", n_runs, 25)
    res.count("data-dependent decoder leaves (6)", n_forked)

    # ---- (3) mixed pairs + injectivity
    n_mixed = mixed_clause(res, m, adts, table, used)
    res.count("mixed pairs (derived on one side, hand-written on the other) (3)", n_mixed)
    n_types, n_fields = inj_clause(res, m, adts, K)
    res.floor("types with Encode and Decode examined for unused fields (3)", n_types, 60)
    res.floor("fields examined (3)", n_fields, 250)

    # ---- (2), (4) reviewed rows
    n_raw = rows_clause(res, K, all_adts, ptable, "raw", "R-RAW")
    res.floor("raw-preservation rows holding (2)", n_raw, 25)
    n_di = rows_clause(res, K, all_adts, ptable, "defindef", "R-DEFINDEF")
    res.floor("def/indef-preservation rows holding (4)", n_di, 10)
    # the lossy std collections are taken from the oracle, not from a list: show them
    res.count("std collections the oracle marks lossy (decode accepts more heads than encode writes)", len(K.oracle_lossy))
    if not {"alloc::vec::Vec", "alloc::collections::btree::map::BTreeMap"} <= K.oracle_lossy:
        res.violation("oracle:lossy-collections", "spec/minicbor_duality.json no longer says that Vec / BTreeMap decode both array forms but encode one: the lossy class is empty (fail closed)", rule="oracle")
    # new raw wrappers that no row covers are only noted
    covered = {(r["in"]) for r in ptable.get("raw", [])}
    fresh = []
    for p, a in sorted(adts.items()):
        if p in covered:
            continue
        for fk, vname, fname, ty in fields_of(a):
            if any(K.cls(n) == "raw" for n, _ in K.occurrences(parse_type(ty))):
                fresh.append("%s.%s" % (short(p), fk))
    if fresh:
        res.notes.append("raw-preserving fields not covered by a reviewed row (add one): %s" % ", ".join(fresh))

    # ---- (5) closure of the on-chain roots
    n_roots, n_nodes = iso_clause(res, m, K, all_adts, ptable)
    res.floor("on-chain root types walked (5)", n_roots, 6)
    res.count("type nodes visited from the roots (5)", n_nodes)

    # ---- stale table entries
    for k in own.get("value_guards", {}):
        if "value_guards:" + k not in used:
            res.violation("stale-table:%s" % k, "tables/codec_opaque_C06.json `value_guards` lists %s but the decoder no longer refuses on that condition: remove the entry" % k, rule="table")
    for k in own.get("opaque", {}):
        if k not in used:
            res.violation("stale-table:%s" % k, "tables/codec_opaque_C06.json lists %s but no such unanalysable arm exists any more: remove the entry" % k, rule="table")

    for a, r in sorted(reps.items()):
        for im, arm in r.arms[:1]:
            res.sample({"type": short(a), "arm": arm.label, "shape": shape_str(arm.tokens) or arm.kind, "arms": len(r.arms)})
    res.assumptions += [
        "a payload of generic type T encodes as exactly one item whose head type is none of those a wrapper's decoder names explicitly",
        "KeepRaw / AnyCbor replay the bytes they captured and MaybeIndefArray / KeyValuePairs write the form they read (decided by C03 clauses a,b,c,e)",
        "derive-generated Encode/Decode pairs of one type agree on indices and shapes (minicbor-derive generates both from the same attributes)",
        "records (derive-generated arrays) are written by the ledger with a definite header",
    ]
    return finish(res,
                  explanation="Decides five necessary structural clauses of C06 on pallas-primitives (lib.rs, alonzo, babbage, conway, byron; PlutusData is C07): (1) every hand-written / "
                              "codec_by_datatype! Encode+Decode pair is abstracted arm by arm into a CBOR shape (E4, pv/x_codec over type-resolved HIR) — well-formed single item, and the decoder "
                              "interpreted on the shape consumes it exactly, builds the same variant and its datatype() dispatch accepts every head the payload encoder can emit; (2) reviewed "
                              "rows: payloads that are kept behind KeepRaw stay behind a raw-preserving wrapper; (3) every field of every type with both codecs is read by its encoder "
                              "(injectivity) and derived/hand-written mixed pairs agree on the head; (4) reviewed rows: collections that record definite/indefinite form keep doing so; (5) from the "
                              "on-chain roots (era Block/Tx, Byron Block/EbBlock) no lossy collection (oracle: decoder accepts more heads than the encoder writes) is reachable outside a raw wrapper. "
                              "Does not decide equality of decoded field values.",
                  rule_text="R-SHAPE+R-DUAL (1); R-RAW type rows (2); R-INJ encoder reads every field + mixed-pair head duality (3); R-DEFINDEF type rows (4); R-ISO root closure free of lossy collections (5)",
                  trusted_base=["rustc HIR (type-resolved) and item facts (ADT field types)", "spec/minicbor_duality.json (minicbor 0.26 Encoder/Decoder/Type tables, std collection encode/decode head sets)",
                                "tables/keepraw_fields.json (type classes of pallas-codec wrappers, reviewed rows, roots)", "tables/codec_opaque.json + tables/codec_opaque_C06.json"])
