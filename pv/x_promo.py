"""Helpers for C27 (peer promotion): summaries of small pure helper functions, so that the rule's evidence does not depend on
one spelling of the code.

 * `contains_atoms`       what a boolean expression being true/false says about `<set>.contains(key)` — looks through `!`,
                          workspace helper predicates (tabulated: which contains-facts hold on every true / every false return)
                          and `[&a, &b, ..].iter().any(|s| s.contains(key))`;
 * `absent_by_guard`      a dominating branch outcome proves the key absent from a set and nothing in between can insert into it;
 * `removal_evidence`     the key is removed from a set on every path through an insert (before or after it), directly, through a
                          helper that removes unconditionally, or by a loop over a fixed array of set references;
 * `limit_fns`            the functions computing `config.max_X - len(set…)`, identified by their body;
 * `decision_under_limit` a call result (bool or enum verdict) selecting a branch was computed under `limit() > 0`;
 * `eval_pred`            evaluate a pure predicate over an assignment of enum-valued places, inlining helper predicates.
"""
import re

from . import flow
from .guards import facts_at
from .mir import sym_walk
from .panic import strip_generics
from .tabulate import tabulate, BudgetExceeded, _fold

SETS = ["cold_peers", "warm_peers", "hot_peers", "banned_peers"]
_SETOP = re.compile(r"^std::collections::hash::set::HashSet::(insert|remove|take|contains|replace|extend|clear|retain|drain)$")
_INSERTING = ("insert", "replace", "extend")


def _name(sym_or_term):
    if isinstance(sym_or_term, dict):
        return strip_generics(sym_or_term.get("f") or sym_or_term.get("g") or "")
    return strip_generics(sym_or_term)


def set_of(sym):
    """Name of the peer set a receiver expression denotes (field chain ending in one of SETS), else None."""
    ch = flow.origin_chain(sym)
    if ch is not None and ch[1] and ch[1][-1] in SETS:
        return ch[1][-1]
    return None


def _paths(P, g, budget=96):
    cache = P.__dict__.setdefault("_x_promo_paths", {})
    if g.path not in cache:
        try:
            cache[g.path] = tabulate(g, P, budget)
        except (BudgetExceeded, RecursionError, RuntimeError):
            cache[g.path] = None
    return cache[g.path]


def _readonly(g):
    """No `&mut` parameter: the function cannot change the peer sets (HashSet has no interior mutability)."""
    for i in range(1, g.argc + 1):
        if g.local_ty(i).startswith("&mut") or "&mut " in g.local_ty(i)[:24]:
            return False
    return True


def _cond_truth(c):
    """Truth value of a tabulated two-way condition, None if it is not a boolean outcome."""
    if c[0] == "eq":
        return bool(c[1]) if c[1] in (0, 1) else None
    if c[0] == "ne" and list(c[1]) == [0]:
        return True
    return None


def _array_sets(sym):
    """Set names when `sym` is (an iterator over) a fixed array of references to peer sets."""
    while True:
        k = sym[0]
        if k in ("ref", "deref", "cast"):
            sym = sym[1]
        elif k == "call" and re.search(r"(::iter|::iter_mut|::into_iter)$", _name(sym[1])) and sym[2]:
            sym = sym[2][0]
        else:
            break
    if sym[0] == "agg" and sym[1] == "array":
        names = [set_of(x) for x in sym[3]]
        if names and all(names):
            return names
    return None


def _closure_tests_contains(P, closure_path):
    """Index of the captured key when the closure body is `|s| s.contains(captured)` (true iff contains); else None."""
    g = P.get(closure_path)
    if g is None:
        return None
    paths = _paths(P, g, 16)
    if not paths or len(paths) != 1 or paths[0].end != "return":
        return None
    r = paths[0].ret
    if r and r[0] == "call" and _name(r[1]).endswith("HashSet::contains") and len(r[2]) == 2:
        recv = flow.origin_chain(r[2][0])
        key = flow.origin_chain(r[2][1])
        if recv is not None and recv[0] == ("param", 2) and not recv[1] and key is not None and key[0] == ("param", 1) and len(key[1]) == 1:
            try:
                return int(key[1][0])
            except ValueError:
                return None
    return None


def contains_atoms(P, sym, truth, depth=3):
    """[(set name, bool, key sym)]: `contains` facts implied by the boolean expression `sym` having value `truth`."""
    if sym[0] == "un" and sym[1] == "Not":
        return contains_atoms(P, sym[2], not truth, depth)
    if sym[0] == "bin" and sym[1] in ("Eq", "Ne") and sym[3][0] == "const" and sym[3][2] == "bool":
        same = (sym[1] == "Eq") == bool(int(sym[3][1]))
        return contains_atoms(P, sym[2], truth if same else not truth, depth)
    if sym[0] != "call":
        return []
    name = _name(sym[1])
    args = sym[2]
    if name.endswith("HashSet::contains") and len(args) == 2:
        s = set_of(args[0])
        return [(s, truth, args[1])] if s else []
    if re.search(r"Iterator(>)?::any$", name) and len(args) == 2 and not truth:
        names = _array_sets(args[0])
        cl = args[1]
        if names and cl[0] == "agg" and cl[1] == "closure":
            ki = _closure_tests_contains(P, cl[2])
            if ki is not None and ki < len(cl[3]):
                return [(s, False, cl[3][ki]) for s in names]
        return []
    g = P.get(sym[1])
    if g is None or depth <= 0:
        return []
    summ = pred_summary(P, g, depth - 1)
    if summ is None:
        return []
    return [(s, v, args[kp - 1]) for s, v, kp in summ[truth] if kp is not None and kp - 1 < len(args)]


def pred_summary(P, g, depth=2):
    """For a read-only bool-returning workspace function: {True: facts on every true return, False: facts on every false
    return}; a fact is (set name, contains-value, index of the parameter holding the key).  None when not summarisable."""
    cache = P.__dict__.setdefault("_x_promo_summ", {})
    if g.path in cache:
        return cache[g.path]
    cache[g.path] = None   # recursion guard
    if g.local_ty(0) != "bool" or not _readonly(g):
        return None
    paths = _paths(P, g)
    if not paths:
        return None
    acc = {True: None, False: None}
    for p in paths:
        if p.end == "diverge":
            continue
        if p.end != "return":
            return None
        facts = set()
        for d, c in p.conds:
            t = _cond_truth(c)
            if t is None:
                continue
            facts |= set(_param_facts(P, g, d, t, depth))
        if p.ret is not None and p.ret[0] == "const":
            outcomes = [(bool(int(p.ret[1])), facts)]
        else:
            outcomes = [(True, facts | set(_param_facts(P, g, p.ret, True, depth))),
                        (False, facts | set(_param_facts(P, g, p.ret, False, depth)))]
        for v, fs in outcomes:
            acc[v] = set(fs) if acc[v] is None else acc[v] & fs
    summ = {True: acc[True] or set(), False: acc[False] or set()}
    cache[g.path] = summ
    return summ


def _param_facts(P, g, sym, truth, depth):
    out = []
    if sym is None:
        return out
    for s, v, key in contains_atoms(P, sym, truth, depth):
        kc = flow.origin_chain(key)
        if kc is not None and kc[0][0] == "param" and not kc[1]:
            out.append((s, v, kc[0][1]))
    return out


# ---------------------------------------------------------------------------------------------- effects on the sets

def may_insert(P, g, depth=3):
    """Set names `g` may insert into (transitively); "*" when an insert's receiver cannot be attributed."""
    cache = P.__dict__.setdefault("_x_promo_ins", {})
    if g.path in cache:
        return cache[g.path]
    cache[g.path] = {"*"} if depth <= 0 else set()
    out = set()
    for bi, t in g.calls():
        name = _name(t)
        m = _SETOP.match(name)
        if m:
            if m.group(1) in _INSERTING:
                s = set_of(g.sym_operand(t["args"][0])) if t["args"] else None
                out.add(s or "*")
            continue
        h = P.get(t.get("f") or "")
        if h is not None and h is not g and depth > 0 and "initiator::promotion" in h.path:
            out |= may_insert(P, h, depth - 1)
    for c in P.closure_children(g):
        out |= may_insert(P, c, depth - 1)
    cache[g.path] = out
    return out


def _between(f, a, b):
    """Blocks that can execute strictly after block a's terminator and before block b's terminator on a path a -> b."""
    return [x for x in range(len(f.blocks)) if x not in (a, b) and f.can_reach(a, x) and f.can_reach(x, b)]


def absent_by_guard(P, f, bb, setname, keychain):
    """A dominating branch outcome says `setname` does not contain the key, and nothing between that test and `bb` can
    insert into `setname`.  Returns a description or None."""
    for fact in facts_at(f, bb, kill=False):
        truth = None
        for op, l, r in fact.oriented():
            if r[0] == "const" and l[0] in ("call", "un", "bin") and op in ("Eq", "Ne"):
                try:
                    c = int(r[1])
                except (TypeError, ValueError):
                    continue
                if c in (0, 1):
                    truth = (c == 1) if op == "Eq" else (c == 0)
                    sym = l
                    break
        if truth is None:
            continue
        for s, v, key in contains_atoms(P, sym, truth):
            if s != setname or v:
                continue
            kc = flow.origin_chain(key)
            if keychain is not None and kc is not None and kc != keychain:
                continue
            if _reinserted(P, f, fact.src, bb, setname):
                continue
            return "negative membership test"
    return None


def _reinserted(P, f, a, b, setname):
    for x in _between(f, a, b):
        t = f.blocks[x]["term"]
        if t["k"] != "call":
            continue
        m = _SETOP.match(_name(t))
        if m:
            if m.group(1) in _INSERTING and (set_of(f.sym_operand(t["args"][0])) or "*") in (setname, "*"):
                return True
            continue
        h = P.get(t.get("f") or "")
        if h is not None and "initiator::promotion" in h.path and ({setname, "*"} & may_insert(P, h)):
            return True
    return False


def _on_every_path_through(f, bj, bi, rets):
    """Block bj executes on every path that goes through bi and returns: it dominates bi, or no path from bi reaches a
    return without it."""
    if bj == bi:
        return False
    if flow.dominates(f, bj, bi):
        return True
    return bool(rets) and not any(f.can_reach(bi, r, avoid=(bj,)) for r in rets)


def _loop_removed_sets(f, bj, t):
    """For a `remove`/`take` whose receiver is the item of a loop over a fixed array of set references: (sets, loop-entry
    block) when the loop body removes from every element (no iteration skips it, no exit other than exhaustion)."""
    recv = f.sym_operand(t["args"][0])
    nxt = None
    for sub in sym_walk(recv):
        if sub[0] == "call" and re.search(r"Iterator(>)?::next$", _name(sub[1])) and sub[2]:
            nxt = sub
    if nxt is None:
        return None
    it = nxt[2][0]
    while it[0] in ("ref", "deref"):
        it = it[1]
    if it[0] != "local":
        return None
    ds = [d for d in f.defs().get(it[1], []) if d[2] in ("assign", "call")]
    if len(ds) != 1:
        return None
    if ds[0][2] == "call":
        src = ("call", ds[0][3].get("f") or ds[0][3].get("g") or "", tuple(f.sym_operand(a) for a in ds[0][3]["args"]), ds[0][0])
    else:
        src = f.sym_rvalue(ds[0][3][2], 8)   # `iter = move tmp` of the for-loop desugaring
    if src[0] != "call" or not re.search(r"::into_iter$|::iter_mut$|::iter$", _name(src[1])) or not src[2]:
        return None
    entry = src[3]
    names = _array_sets(src[2][0])
    if not names:
        return None
    nb = nxt[3]
    rets = f.return_blocks()
    # (i) every iteration that continues performs the removal
    if bj == nb or any(s == nb or f.can_reach(s, nb, avoid=(bj,)) for s in f.succ(nb) if s != bj):
        return None
    # (ii) no exit after a removal other than through the next `next()`
    if any(f.can_reach(bj, r, avoid=(nb,)) for r in rets):
        return None
    # (iii) the only exit in front of the removal is the exhausted iterator (`None`)
    sw = None
    for bi, b in enumerate(f.blocks):
        tt = b["term"]
        if tt["k"] == "switch":
            d = f.sym_operand(tt["d"])
            if d[0] == "discr" and any(x[0] == "call" and len(x) > 3 and x[3] == nb and x[1] == nxt[1] for x in sym_walk(d)):
                sw = (bi, tt)
    if sw is None:
        return None
    si, st = sw
    none_t = [tg for v, tg in st["ts"] if int(v) == 0]
    others = [s for s in f.succ(si) if s not in none_t]
    if any(s != bj and any(f.can_reach(s, r, avoid=(bj, nb)) for r in rets) for s in others):
        return None
    return names, entry


def removes_unconditionally(P, g, depth=2):
    """Set names from which workspace helper `g` removes its key on every path to its return."""
    cache = P.__dict__.setdefault("_x_promo_rm", {})
    if g.path in cache:
        return cache[g.path]
    cache[g.path] = set()
    rets = g.return_blocks()
    out = set()
    for bi, t in g.calls():
        m = _SETOP.match(_name(t))
        if m and m.group(1) in ("remove", "take"):
            s = set_of(g.sym_operand(t["args"][0]))
            if s and all(flow.dominates(g, bi, r) for r in rets):
                out.add(s)
            elif not s:
                lr = _loop_removed_sets(g, bi, t)
                if lr and all(flow.dominates(g, lr[1], r) for r in rets):
                    out |= set(lr[0])
        elif not m and depth > 0:
            h = P.get(t.get("f") or "")
            if h is not None and h is not g and "initiator::promotion" in h.path and all(flow.dominates(g, bi, r) for r in rets):
                out |= removes_unconditionally(P, h, depth - 1)
    cache[g.path] = out
    return out


def removal_evidence(P, f, bi, setname):
    """The peer is taken out of `setname` on every path through the insert at block bi (before or after it)."""
    rets = f.return_blocks()
    for bj, t in f.calls():
        if bj == bi:
            continue
        m = _SETOP.match(_name(t))
        if m:
            if m.group(1) not in ("remove", "take"):
                continue
            s = set_of(f.sym_operand(t["args"][0]))
            if s == setname and _on_every_path_through(f, bj, bi, rets):
                return "remove/take"
            if s is None:
                lr = _loop_removed_sets(f, bj, t)
                if lr and setname in lr[0] and _on_every_path_through(f, lr[1], bi, rets):
                    return "removal loop over the sets"
            continue
        h = P.get(t.get("f") or "")
        if h is not None and h is not f and "initiator::promotion" in h.path and setname in removes_unconditionally(P, h) \
                and _on_every_path_through(f, bj, bi, rets):
            return "helper %s removes unconditionally" % h.name
    return None


# ---------------------------------------------------------------------------------------------- limits

_CONFIG_SET = {"max_peers": ("cold_peers", {"cold_peers", "warm_peers", "hot_peers"}),
               "max_warm_peers": ("warm_peers", {"warm_peers"}),
               "max_hot_peers": ("hot_peers", {"hot_peers"})}


def _lens(P, sym, depth=3):
    out = set()
    for sub in sym_walk(sym):
        if sub[0] != "call":
            continue
        if _name(sub[1]).endswith("HashSet::len") and sub[2]:
            s = set_of(sub[2][0])
            if s:
                out.add(s)
        elif depth > 0:
            h = P.get(sub[1])
            if h is not None:
                ps = _paths(P, h, 8)
                if ps and len(ps) == 1 and ps[0].end == "return" and ps[0].ret is not None:
                    out |= _lens(P, ps[0].ret, depth - 1)
    return out


def limit_fns(P, impl_adt):
    """{set name: {function path}}: methods whose value is `config.<max_X> - <number of peers in the matching set(s)>`."""
    cache = P.__dict__.setdefault("_x_promo_lim", {})
    if impl_adt in cache:
        return cache[impl_adt]
    out = {}
    for g in P.fns.values():
        if g.b.get("impl_adt") != impl_adt or g.argc != 1 or g.local_ty(0) != "usize":
            continue
        ps = _paths(P, g, 8)
        if not ps:
            continue
        rs = [p for p in ps if p.end == "return"]
        if len(rs) != 1 or rs[0].ret is None:
            continue
        r = rs[0].ret
        if r[0] == "field" and r[1][0] == "bin":
            r = r[1]
        if r[0] != "bin" or r[1] not in ("Sub", "SubWithOverflow", "SubUnchecked"):
            continue
        lc = flow.origin_chain(r[2])
        if lc is None or not lc[1] or lc[1][-1] not in _CONFIG_SET:
            continue
        target, need = _CONFIG_SET[lc[1][-1]]
        if need <= _lens(P, r[3]):
            out.setdefault(target, set()).add(g.path)
    cache[impl_adt] = out
    return out


def _positive(op, l, r, fns):
    """Is (l op r) the statement `limit() > 0` for a limit function in fns?"""
    for o, a, b in ((op, l, r), ({"Lt": "Gt", "Gt": "Lt", "Le": "Ge", "Ge": "Le", "Eq": "Eq", "Ne": "Ne"}.get(op), r, l)):
        if o is None or a[0] != "call" or a[1] not in fns or b[0] != "const":
            continue
        try:
            c = int(b[1])
        except (TypeError, ValueError):
            continue
        if (o in ("Gt", "Ne") and c == 0) or (o == "Gt" and c >= 0) or (o == "Ge" and c >= 1):
            return True
    return False


_NEG = {"Lt": "Ge", "Le": "Gt", "Gt": "Le", "Ge": "Lt", "Eq": "Ne", "Ne": "Eq"}


def _cond_is_limit(d, c, fns):
    t = _cond_truth(c)
    neg = False
    while d[0] == "un" and d[1] == "Not":
        d = d[2]
        neg = not neg
    if t is None:
        return False
    if neg:
        t = not t
    if d[0] == "bin" and d[1] in _NEG:
        op = d[1] if t else _NEG[d[1]]
        return _positive(op, d[2], d[3], fns)
    if d[0] == "call" and d[1] in fns:
        return t          # switch on the number itself: non-zero edge
    return False


def decision_under_limit(P, sym, values, fns, depth=2):
    """`sym` is the result of a call to a read-only workspace function (bool, or the discriminant of an enum verdict); is
    every return of that function producing one of `values` (discriminant / bool as int) reached under `limit() > 0`?"""
    if sym[0] == "discr":
        sym = sym[1]
    while sym[0] in ("ref", "deref"):
        sym = sym[1]
    if sym[0] != "call":
        return False
    g = P.get(sym[1])
    if g is None or not _readonly(g):
        return False
    paths = _paths(P, g, 256)
    if not paths:
        return False
    seen = False
    for p in paths:
        if p.end == "diverge":
            continue
        if p.end != "return" or p.ret is None:
            return False
        r = p.ret
        if r[0] == "const":
            try:
                v = int(r[1])
            except (TypeError, ValueError):
                return False
        elif r[0] == "agg" and isinstance(r[2], str):
            a = P.adt(r[1])
            v = next((x["idx"] for x in (a["variants"] if a else []) if x["name"] == r[2]), None)
            if v is None:
                return False
        elif r[0] == "bin" and r[1] in _NEG and g.local_ty(0) == "bool":
            # `fn has_room(&self) -> bool { self.limit() > 0 }`
            if 1 in values and not (_positive(r[1], r[2], r[3], fns) or any(_cond_is_limit(d, c, fns) for d, c in p.conds)):
                return False
            if 0 in values and not any(_cond_is_limit(d, c, fns) for d, c in p.conds):
                return False
            seen = True
            continue
        else:
            return False
        if v not in values:
            continue
        seen = True
        if not any(_cond_is_limit(d, c, fns) for d, c in p.conds):
            return False
    return seen


def limit_guard_at(P, f, bb, fns):
    """A dominating, un-killed branch outcome at block bb amounts to `limit() > 0` for a limit function in `fns`."""
    for fact in facts_at(f, bb, kill=True):
        if fact.op == "In":
            vals = set()
            try:
                vals = {int(v) for v in fact.r[1]}
            except (TypeError, ValueError):
                continue
            if decision_under_limit(P, fact.l, vals, fns):
                return "decision computed under the limit test"
            continue
        for op, l, r in fact.oriented():
            if _positive(op, l, r, fns):
                return "limit test"
        if fact.op == "Eq" and fact.r[0] == "const":
            try:
                v = int(fact.r[1])
            except (TypeError, ValueError):
                continue
            if decision_under_limit(P, fact.l, {v}, fns):
                return "decision computed under the limit test"
    return None


# ---------------------------------------------------------------------------------------------- predicate evaluation

def eval_pred(P, g, lookup, depth=3):
    """Value (int) of pure function g under `lookup((root, chain)) -> discriminant index or None` for the enum-valued places
    reachable from its parameters; helper predicates are inlined.  None when the value cannot be determined."""
    paths = _paths(P, g, 256)
    if not paths:
        return None
    result = None
    for p in paths:
        if p.end != "return":
            continue
        ok = True
        for d, c in p.conds:
            v = _eval_sym(P, d, lookup, depth)
            if v is None:
                return None
            if c[0] == "eq" and v != c[1]:
                ok = False
                break
            if c[0] == "ne" and v in c[1]:
                ok = False
                break
        if not ok:
            continue
        v = _eval_sym(P, p.ret, lookup, depth)
        if v is None:
            return None
        if result is not None and result != v:
            return None
        result = v
    return result


def _eval_sym(P, s, lookup, depth):
    if s is None:
        return None
    k = s[0]
    if k == "const":
        try:
            return int(s[1])
        except (TypeError, ValueError):
            return None
    if k == "discr":
        ch = flow.origin_chain(s[1])
        return lookup(ch) if ch is not None else None
    if k == "variant":
        a = P.adt(s[1])
        return next((x["idx"] for x in (a["variants"] if a else []) if x["name"] == s[2]), None)
    if k == "un" and s[1] == "Not":
        v = _eval_sym(P, s[2], lookup, depth)
        return None if v is None else (0 if v else 1)
    if k == "bin":
        l, r = _eval_sym(P, s[2], lookup, depth), _eval_sym(P, s[3], lookup, depth)
        if l is None or r is None:
            return None
        return _fold(s[1], l, r)
    if k == "call" and depth > 0:
        h = P.get(s[1])
        if h is None or not _readonly(h):
            return None
        chains = [flow.origin_chain(a) for a in s[2]]

        def inner(ch, chains=chains):
            root, chain = ch
            if root[0] != "param" or root[1] - 1 >= len(chains) or chains[root[1] - 1] is None:
                return None
            r0, c0 = chains[root[1] - 1]
            return lookup((r0, list(c0) + list(chain)))
        return eval_pred(P, h, inner, depth - 1)
    return None
