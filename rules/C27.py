"""C27 — peer promotion keeps peer sets consistent and banned peers away.

Decides (necessary structural clauses; sequences of events are not explored):
 (a) R-SETMOVE  every insert into cold/warm/hot/banned_peers is a move out of another (non-banned) set or carries,
     on the same path, evidence that the peer is absent from each other set (remove/take or a negative contains guard)
     — an inductive step of "the four sets stay pairwise disjoint";
 (b) limits     every insert into cold/warm/hot reachable from the behaviour's entry points is guarded by the matching
     required_*() > 0 test (in the function or at every call site) — inductive step of "within limits";
 (c) tag/sets   every write of the per-peer tag with a value that matters for connecting (Warm, Hot, Banned) happens in a
     function that performs the matching set insert on the same path; non-constant tag writes are resolved through the
     called function's constant result or reported;
 (d) table      needs_connection(connection, promotion) is false whenever promotion is Banned or Cold, and
     InterfaceCommand::Connect is constructed only under needs_connection == true."""
import re
from pv import flow
from pv.program import Program
from pv.report import Result, finish
from pv.guards import facts_at, place_chain
from pv.tabulate import tabulate, cond_variants
from pv.mir import sym_str, sym_walk
from pv.panic import strip_generics
from pv import x_promo

SETS = ["cold_peers", "warm_peers", "hot_peers", "banned_peers"]
LIMIT_NAME = {"cold_peers": "max_peers - (cold+warm+hot)", "warm_peers": "max_warm_peers - warm", "hot_peers": "max_hot_peers - hot"}
TAG_SET = {"Warm": "warm_peers", "Hot": "hot_peers", "Banned": "banned_peers"}
PB = "pallas_network2::behavior::initiator::promotion::PromotionBehavior"
ENTRY_RX = (r"InitiatorBehavior as pallas_network2::Behavior>::(handle_io|execute)$|"
            r"InitiatorBehavior as futures_core::stream::Stream>::poll_next$")


def set_ops(f):
    """[(bb, term, op, set-name)] for HashSet ops on self.<set> in function f."""
    out = []
    for bi, t in f.calls():
        name = strip_generics(t.get("f") or t.get("g") or "")
        m = re.match(r"^std::collections::hash::set::HashSet::(insert|remove|take|contains|replace|extend|clear|retain|drain)$", name)
        if not m:
            continue
        ch = flow.arg_chain(f, t, 0)
        if ch is None or not ch[1] or ch[1][-1] not in SETS:
            continue
        out.append((bi, t, m.group(1), ch[1][-1]))
    return out


def promotion_functions(P):
    return [f for f in P.fns.values() if f.b.get("impl_adt") == PB or (f.kind == "Closure" and PB in (f.b.get("root") or ""))]


def check_setmove(res, P):
    n = 0
    for f in promotion_functions(P):
        ops = set_ops(f)
        for bi, t, op, a in ops:
            if op in ("replace", "extend", "clear", "retain", "drain"):
                res.violation("setmove:%s:%s:%s" % (f.name, op, a), "unrecognised bulk operation %s on %s in %s: disjointness cannot be argued" % (op, a, f.name),
                              where="%s:%s" % (f.file, t["s"][0]), rule="R-SETMOVE")
                continue
            if op != "insert":
                continue
            n += 1
            key = "setmove:%s:insert:%s" % (f.name, a)
            val = f.sym_operand(t["args"][1]) if len(t["args"]) > 1 else ("unknown",)
            moved_from = None
            for sub in sym_walk(val):
                if sub[0] == "call" and strip_generics(sub[1]).endswith("HashSet::take"):
                    ch = flow.origin_chain(sub[2][0])
                    if ch and ch[1] and ch[1][-1] in SETS:
                        moved_from = ch[1][-1]
            if moved_from is None:
                # the same move spelled with the boolean API: `if self.X.remove(pid) { self.Y.insert(pid.clone()) }`
                vch = flow.origin_chain(val)
                for fact in facts_at(f, bi, kill=True):
                    for fop, l, r in fact.oriented():
                        if l[0] == "call" and strip_generics(l[1]).endswith("HashSet::remove") and r[0] == "const" and len(l[2]) > 1 \
                                and ((fop == "Ne" and int(r[1]) == 0) or (fop == "Eq" and int(r[1]) == 1)):
                            ch = flow.origin_chain(l[2][0])
                            kch = flow.origin_chain(l[2][1])
                            if ch and ch[1] and ch[1][-1] in SETS and kch is not None and vch is not None and kch == vch:
                                moved_from = ch[1][-1]
            if moved_from is not None:
                if moved_from == "banned_peers":
                    res.violation(key, "%s moves a peer out of banned_peers into %s: a ban is undone" % (f.name, a), where="%s:%s" % (f.file, t["s"][0]), rule="R-SETMOVE")
                elif moved_from == a:
                    res.violation(key, "%s re-inserts into the set it took from" % f.name, rule="R-SETMOVE")
                else:
                    res.ok(key, "R-SETMOVE", "move: value taken out of %s (disjointness preserved inductively)" % moved_from)
                continue
            missing = []
            how = []
            keychain = flow.origin_chain(val)
            for b in SETS:
                if b == a:
                    continue
                # the peer is taken out of b on every path through this insert (before or after it: an insert followed by
                # the removals is the same move), or a dominating test says it is not in b (directly, through a helper
                # predicate, or `[..sets..].iter().any(..)`) with nothing in between that could put it there
                ev = x_promo.removal_evidence(P, f, bi, b) or x_promo.absent_by_guard(P, f, bi, b, keychain)
                if ev:
                    how.append("%s: %s" % (b, ev))
                else:
                    missing.append(b)
            if missing:
                res.violation(key, "%s inserts a peer into %s without evidence on that path that it is absent from %s "
                              "(no remove/take and no negative contains guard): the sets can overlap" % (f.name, a, ", ".join(missing)),
                              where="%s:%s" % (f.file, t["s"][0]), rule="R-SETMOVE")
            else:
                res.ok(key, "R-SETMOVE", "absence from the other three sets evidenced (%s)" % "; ".join(how))
    res.floor("set inserts (R-SETMOVE)", n, 3)   # 5 today; promote_* / ban / demote may share helpers


def _limit_guard_at(P, f, bb, setname):
    """The limit functions are identified by what they compute (`config.max_X - number of peers in the set(s)`), not by name;
    the guard is `limit() > 0` at the site, or a decision value (bool helper / enum verdict) computed under that test."""
    fns = x_promo.limit_fns(P, PB).get(setname, set())
    if not fns:
        return False
    return bool(x_promo.limit_guard_at(P, f, bb, fns))


def check_limits(res, P, closure):
    """(b): returns True when every reachable insert into cold/warm/hot is limit-guarded."""
    ok_all = True
    n = 0
    for f in promotion_functions(P):
        if f.path not in closure:
            continue
        for bi, t, op, a in set_ops(f):
            if op != "insert" or a == "banned_peers":
                continue
            n += 1
            key = "limit:%s:insert:%s" % (f.name, a)
            if _limit_guard_at(P, f, bi, a):
                res.ok(key, "R-LIMIT", "insert dominated by %s() > 0" % LIMIT_NAME[a])
                continue
            # one level up: every call site of f (in the closure) is guarded
            sites = [(g, bj) for g, bj, u in P.callers_of(re.escape(f.path) + "$") if g.path in closure]
            if sites and all(_limit_guard_at(P, g, bj, a) for g, bj in sites):
                res.ok(key, "R-LIMIT", "every call site of %s (%d) is dominated by the %s limit test" % (f.name, len(sites), a))
                continue
            ok_all = False
            res.violation(key, "%s inserts into %s without a dominating %s > 0 test, here or at its call sites: the set can exceed its configured limit "
                          "(and the unchecked `max - len` subtraction then underflows)" % (f.name, a, LIMIT_NAME[a]),
                          where="%s:%s" % (f.file, t["s"][0]), rule="R-LIMIT")
    res.floor("limit-relevant inserts", n, 2)   # 3 today
    return ok_all


def limits_guarded(P):
    """Hook for the C29 panic table: (ok, message)."""
    r = Result("C27", "quick")
    entries = [f for f in P.fns.values() if re.search(ENTRY_RX, f.path)]
    closure = P.closure_of(entries)
    ok = check_limits(r, P, closure)
    bad = [v["key"] for v in r.violations]
    return (ok and not bad), ("all reachable inserts into cold/warm/hot are limit-guarded" if ok and not bad else "unguarded inserts: %s" % bad)


def _const_variant(P, sym, depth=3):
    """Variant name if sym is a constant enum value (aggregate, or a call to a workspace fn returning one)."""
    if sym[0] == "agg" and isinstance(sym[2], str):
        return sym[2]
    if sym[0] == "call" and depth > 0:
        g = P.get(sym[1])
        if g is not None:
            names = set()
            for p in tabulate(g, P, 64):
                if p.end == "return":
                    v = _const_variant(P, p.ret, depth - 1)
                    names.add(v)
            if len(names) == 1:
                return names.pop()
    return None


def check_tag_writes(res, P):
    n = 0
    STATE = "pallas_network2::behavior::initiator::InitiatorState"
    for f in P.fns.values():
        if f.crate != "pallas_network2" or "::tests::" in f.path:
            continue
        hits = []
        for bi, si, s in f.statements():
            if s[0] != "a" or isinstance(s[1], int):
                continue
            from pv.panic import place_field_steps, _ty_is_adt
            steps = place_field_steps(f, s[1])
            if steps and steps[-1][1] == "promotion" and _ty_is_adt(steps[-1][0], STATE):
                hits.append((bi, si, f.sym_rvalue(s[2], 8)))
        for bi, si, rv in flow.aggregates(f, "^" + re.escape(STATE) + "$"):
            idx = flow.adt_field_index(P, STATE, "promotion")
            hits.append((bi, si, f.sym_operand(rv["fields"][idx])))
        for bi, si, val in hits:
            n += 1
            v = _const_variant(P, val)
            key = "tag:%s:%s" % (f.path.split("pallas_network2::")[-1], v or "non-constant")
            if v is None:
                res.violation(key, "per-peer promotion tag written with a value that cannot be resolved to a constant (%s)" % sym_str(val), where="%s:%s" % (f.file, f.line), rule="R-TAG")
                continue
            if v == "Cold":
                res.ok(key, "R-TAG", "Cold never enables a connection (see needs_connection table)")
                continue
            want = TAG_SET[v]
            rets = f.return_blocks()
            ok = any(op == "insert" and a == want and (bj == bi or flow.dominates(f, bj, bi)
                                                       or not any(f.can_reach(bi, r_, avoid=(bj,)) for r_ in rets))
                     for bj, t, op, a in set_ops(f))
            if ok:
                res.ok(key, "R-TAG", "tag %s written on a path that always inserts the peer into %s (before or after the write)" % (v, want))
            else:
                res.violation(key, "tag %s is written in %s without inserting the peer into %s on that path: tag and peer sets diverge "
                              "(a ban by tag alone is undone by the next promotion pass; a Warm/Hot tag alone bypasses the limits)" % (v, f.path, want),
                              where="%s:%s" % (f.file, f.line), rule="R-TAG")
    res.floor("promotion tag writes", n, 4)   # 9 today


def _enum_variants(P, adt):
    a = P.adt(adt)
    return [(v["idx"], v["name"]) for v in a["variants"]] if a else []


def _needs_connection_true(f, g, bb, depth=2):
    """Block bb of g is control-dependent on needs_connection(..) == true."""
    for fact in facts_at(g, bb, kill=False):
        if fact.op == "Eq" and fact.r[0] == "const" and int(fact.r[1]) == 1 and fact.l[0] == "call" and fact.l[1] == f.path:
            return True
    return False


def check_connect_table(res, P):
    f = P.one(r"initiator::connection::needs_connection$")
    STATE = "pallas_network2::behavior::initiator::InitiatorState"
    conns = _enum_variants(P, "pallas_network2::behavior::ConnectionState")
    promos = _enum_variants(P, "pallas_network2::behavior::initiator::PromotionTag")
    res.floor("ConnectionState x PromotionTag domain", len(conns) * len(promos), 8)
    # the predicate is evaluated for every (connection, promotion) pair; helper predicates it is composed of are inlined
    rows = 0
    true_for = {}
    unknown = []
    for ci, cn in conns:
        for pi, pn in promos:
            def lookup(ch, ci=ci, pi=pi):
                root, chain = ch
                if root != ("param", 1) or not chain:
                    return None
                return ci if chain[-1] == "connection" else pi if chain[-1] == "promotion" else None
            v = x_promo.eval_pred(P, f, lookup)
            rows += 1
            if v is None:
                unknown.append((cn, pn))
            elif v:
                true_for.setdefault(pn, []).append(cn)
    res.sample({"needs_connection": {"true_for": {k: sorted(v) for k, v in true_for.items()}, "undetermined": len(unknown)}})
    if unknown:
        res.violation("needs_connection:non-constant", "needs_connection cannot be evaluated for %d (connection, promotion) pairs, e.g. %s: it is no longer a "
                      "function of the two tags built from matches/helper predicates" % (len(unknown), unknown[0]), where="%s:%s" % (f.file, f.line), rule="R-TABLE")
    bad = sorted(set(true_for) & {"Banned", "Cold"})
    if bad:
        res.violation("needs_connection:%s" % "|".join(bad),
                      "needs_connection is true for promotion in %s with connection in %s: a banned or cold peer would be connected" % (
                          bad, sorted({c for b_ in bad for c in true_for[b_]})), where="%s:%s" % (f.file, f.line), rule="R-TABLE")
    elif not unknown:
        res.ok("needs_connection:true:%s" % "|".join(sorted(true_for)), "R-TABLE", "true only for %s" % sorted(true_for))
    res.floor("needs_connection rows", rows, 4)
    # Connect construction sites
    n = 0
    for g in P.fns.values():
        if g.crate != "pallas_network2" or "::tests::" in g.path or "behavior::initiator" not in g.path:
            continue
        for bi, si, rv in flow.aggregates(g, r"^pallas_network2::InterfaceCommand$", variant="Connect"):
            n += 1
            key = "connect-site:%s" % g.path.split("pallas_network2::")[-1]
            if _needs_connection_true(f, g, bi):
                res.ok(key, "R-CDEP", "InterfaceCommand::Connect built only under needs_connection(state) == true")
                continue
            # built in a helper: every call site of the helper is control-dependent on needs_connection
            sites = [(h, bj) for h, bj, u in P.callers_of("^" + re.escape(g.path) + "$") if "::tests::" not in h.path]
            if sites and all(_needs_connection_true(f, h, bj) for h, bj in sites):
                res.ok(key, "R-CDEP", "Connect is built in a helper whose %d call site(s) are all under needs_connection(state) == true" % len(sites))
            else:
                res.violation(key, "InterfaceCommand::Connect is constructed in %s without being control-dependent on needs_connection(state) "
                              "(neither here nor at every call site)" % g.path, where="%s:%s" % (g.file, g.line), rule="R-CDEP")
    res.floor("Connect construction sites", n, 1)


def check_ban_is_immediate(res, P):
    """"once a peer has been banned (by violation, error threshold or explicit command) the initiator never again asks to
    connect to it" rests on the ban being *recorded in the banned set in the same step* that decides it: the per-peer flags a
    deferred ban would rely on (violation, error count) are cleared by InitiatorState::reset() on disconnect.
      (a) the BanPeer command path calls a function that inserts into banned_peers;
      (b) every PeerVisitor method of PromotionBehavior that can ban (reaches such a function) reaches it on every path to its
          return — no early return before the ban decision."""
    def inserts_banned(f):
        for bi, t in f.calls():
            if flow.callee_name(t).endswith("HashSet::insert"):
                ch = flow.arg_chain(f, t, 0)
                if ch is not None and ch[1] and ch[1][-1] == "banned_peers":
                    return True
        return False
    base = {f.path for f in P.by_crate.get("pallas_network2", []) if inserts_banned(f)}
    if not base:
        res.violation("ban:no-banning-function", "no function inserts into banned_peers (anchor lost)", rule="anchor")
        return
    # functions from which a banning function is reachable (within the initiator behaviour)
    can_ban = set(base)
    changed = True
    fns = [f for f in P.by_crate.get("pallas_network2", []) if "behavior::initiator" in f.path]
    while changed:
        changed = False
        for f in fns:
            if f.path in can_ban:
                continue
            if any((t.get("f") or "") in can_ban for bi, t in f.calls()):
                can_ban.add(f.path)
                changed = True
    # (a) the command
    ex = [f for f in fns if re.search(r"InitiatorBehavior as pallas_network2::Behavior>::execute$", f.path)]
    if len(ex) != 1:
        res.violation("ban:execute-anchor", "InitiatorBehavior::execute not found", rule="anchor")
    else:
        f = ex[0]
        # a call, control-dependent on the command being BanPeer, to any function from which the insert into banned_peers is
        # reachable (the Housekeeping arm's housekeeping() also reaches a ban, but not for this command)
        CMD = "pallas_network2::behavior::initiator::InitiatorCommand"
        ban_idx = next((i for i, nme in _enum_variants(P, CMD) if nme == "BanPeer"), None)
        if ban_idx is None:
            res.violation("ban:command-anchor", "InitiatorCommand::BanPeer not found", rule="anchor")
        direct = []
        for bi, t in f.calls():
            if (t.get("f") or "") not in can_ban:
                continue
            for fact in facts_at(f, bi, kill=False):
                if fact.op == "Eq" and fact.l[0] == "discr" and fact.r[0] == "const" and int(fact.r[1]) == ban_idx:
                    ch = flow.origin_chain(fact.l[1])
                    if ch is not None and ch[0][0] == "param" and not ch[1] and CMD in f.local_ty(ch[0][1]):
                        direct.append(bi)
        if direct:
            res.ok("ban:command-is-immediate", "R-MPT", "on the BanPeer arm, execute calls a function that records the ban in banned_peers")
        else:
            res.violation("ban:command-is-immediate", "InitiatorBehavior::execute no longer calls, for a BanPeer command, a function that inserts the peer into banned_peers: "
                          "a BanPeer command is only a flag that InitiatorState::reset() clears on disconnect, after which the peer is dialled again",
                          where="%s:%s" % (f.file, f.line), rule="R-MPT")
    # (b) visitors
    n = 0
    for f in fns:
        if not re.search(r"PromotionBehavior as pallas_network2::behavior::initiator::PeerVisitor>::", f.path):
            continue
        calls = [bi for bi, t in f.calls() if (t.get("f") or "") in can_ban]
        if not calls:
            continue
        n += 1
        key = "ban:decision-on-every-path:%s" % f.name
        bad = [r for r in f.return_blocks() if not any(flow.dominates(f, c, r) for c in calls)]
        if bad:
            res.violation(key, "%s can return without reaching the ban decision (%s): a violation or error threshold seen in this event is not recorded before "
                          "InitiatorState::reset() can clear it" % (f.path, ", ".join(sorted({(f.blocks[c]["term"].get("f") or "").split("::")[-1] for c in calls}))),
                          where="%s:%s" % (f.file, f.line), rule="R-MPT")
        else:
            res.ok(key, "R-MPT", "the ban decision is reached on every path")
    res.floor("promotion visitors that can ban", n, 1)


def run(tier):
    res = Result("C27", tier, level="other")
    P = Program(crates=["pallas_network2"])
    entries = [f for f in P.fns.values() if re.search(ENTRY_RX, f.path)]
    res.floor("initiator entry points", len(entries), 3)
    closure = P.closure_of(entries)
    res.count("closure_functions", len(closure))
    check_setmove(res, P)
    check_limits(res, P, closure)
    check_tag_writes(res, P)
    check_connect_table(res, P)
    check_ban_is_immediate(res, P)
    res.assumptions += ["the four peer sets are only modified through PromotionBehavior methods (their fields are pub; external writers are out of scope)",
                        "inductive reading: each rule checks that one mutator preserves the invariant, assuming it held before"]
    return finish(res,
                  explanation="Decides inductive-step clauses of C27 on the code of every mutator (set moves carry absence evidence, inserts are "
                              "limit-guarded, tag writes accompany set updates, the connect predicate excludes Banned/Cold). It does not explore "
                              "event sequences; a combination of individually legal steps is covered only through these per-step invariants.",
                  rule_text="R-SETMOVE + R-LIMIT + R-TAG + R-TABLE(needs_connection) + R-CDEP(Connect)",
                  trusted_base=["rustc MIR", "HashSet semantics (insert/remove/take/contains)"])
