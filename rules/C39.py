"""C39 — sequence validation updates the certificate state atomically (decided whole, by ownership).

In validate_txs the caller's `&mut CertState` is (1) read exactly once, by the clone that initialises the working copy,
(2) never lent to any callee, (3) written exactly once, with the working copy, at a point that is outside the loop and on no path
with an error return, and (4) every validate_tx call receives `&mut` of the working copy, over metxs.iter().enumerate() in order.
Rust's aliasing rules make (2) sufficient for "no callee touches the caller's state"."""
import re
from pv.program import Program
from pv.report import Result, finish
from pv.mir import sym_str, sym_walk, pl_local, pl_proj, op_place
from pv import flow
from pv.guards import place_chain


def run(tier):
    res = Result("C39", tier, level="proof")
    P = Program(crates=["pallas_validate"])
    f = P.one(r"^pallas_validate::phase1::validate_txs$")
    # locate the caller's state parameter by type
    cs = [i for i in range(1, f.argc + 1) if re.match(r"^&mut pallas_validate::utils::CertState$", f.local_ty(i))]
    if len(cs) != 1:
        res.violation("anchor:cert_state-param", "validate_txs has no unique `&mut CertState` parameter", rule="anchor")
        return finish(res, "anchor lost", "ownership argument")
    cparam = cs[0]
    where = "%s:%s" % (f.file, f.line)

    # (1)+(2): every use of the parameter
    clone_calls = []
    lent = []
    for bi, t in f.calls():
        for i, a in enumerate(t["args"]):
            ch = flow.origin_chain(f.sym_operand(a))
            if ch is not None and ch[0] == ("param", cparam):
                name = flow.callee_name(t)
                if re.search(r"core::clone::Clone::clone$| as core::clone::Clone::clone$|CertState as core::clone::Clone::clone$", name) or name.endswith("::clone"):
                    clone_calls.append((bi, t))
                else:
                    lent.append((bi, t, name))
    if len(clone_calls) == 1:
        res.ok("read-once", "R-FRAME", "the caller's state is read exactly once, by clone()")
    else:
        res.violation("read-once=>%d" % len(clone_calls), "the caller's CertState is cloned %d times (expected exactly one snapshot)" % len(clone_calls), where=where, rule="R-FRAME")
    if lent:
        res.violation("lent:" + "|".join(sorted({n.split("::")[-1] for _, _, n in lent})),
                      "the caller's `&mut CertState` is passed to %s: a callee can modify it before the sequence is known to be valid" % sorted({n for _, _, n in lent}),
                      where=where, rule="R-FRAME")
    else:
        res.ok("never-lent", "R-FRAME", "the caller's state is not an argument of any call other than the snapshot clone")

    # working copy local
    wc = None
    if clone_calls:
        d = clone_calls[0][1]["dest"]
        wc = pl_local(d)
    # (3) writes through the parameter
    writes = []
    for bi, si, s in f.statements():
        if s[0] == "a" and not isinstance(s[1], int) and pl_local(s[1]) == cparam:
            writes.append((bi, si, s))
        if s[0] == "a" and s[2]["k"] in ("ref", "rawptr") and s[2].get("mut") and pl_local(s[2]["p"]) == cparam and pl_proj(s[2]["p"]):
            # re-borrow of *cert_state mutably
            writes.append((bi, si, s))
    full = [w for w in writes if w[2][2]["k"] == "use" and [e[0] for e in pl_proj(w[2][1])] == ["deref"]]
    if len(writes) == 1 and len(full) == 1:
        bi, si, s = full[0]
        srcch = flow.origin_chain(f.sym_operand(s[2]["x"]))
        if wc is not None and srcch is not None and srcch[0] == ("local", wc) and not srcch[1]:
            res.ok("write-once-from-copy", "R-PROV", "`*cert_state = <working copy>` is the only write through the parameter")
        else:
            res.violation("write-source", "the caller's state is overwritten with %s, not with the working copy" % sym_str(f.sym_operand(s[2]["x"])), where=where, rule="R-PROV")
        # position: outside any loop, no error return on any path through it
        resid = [b for b, t in f.calls() if flow.callee_name(t).endswith("from_residual")]
        in_loop = f.can_reach_strict(bi, bi)
        after_err = any(f.can_reach(r, bi) for r in resid)
        before_err = any(f.can_reach(bi, r) for r in resid)
        if in_loop:
            res.violation("write-in-loop", "the caller's state is written inside the per-transaction loop: a later failure leaves a partial update", where=where, rule="R-ORDER")
        elif after_err or before_err:
            res.violation("write-on-error-path", "the write to the caller's state shares a path with an error return", where=where, rule="R-ORDER")
        else:
            res.ok("write-after-loop", "R-ORDER", "the write is outside the loop and on no path with an error return (%d `?` exits inspected)" % len(resid))
        # all validate_tx calls dominate... the loop exit: the write must be reachable only after the iterator is exhausted
        nexts = [b for b, t in f.calls() if flow.callee_name(t).endswith("Iterator::next")]
        if nexts and all(flow.dominates(f, nb, bi) for nb in nexts):
            res.ok("write-dominated-by-loop-head", "R-ORDER", "the write is dominated by the loop's next()")
        else:
            res.violation("write-not-after-loop", "the write to the caller's state is not dominated by the loop over the transactions", where=where, rule="R-ORDER")
    else:
        res.violation("write-once=>%d" % len(writes), "the caller's CertState is written/mutably re-borrowed at %d places (expected exactly one final assignment)" % len(writes), where=where, rule="R-FRAME")

    # (4) validate_tx calls
    vt = flow.calls_matching(f, r"^pallas_validate::phase1::validate_tx$")
    if not vt:
        res.violation("anchor:validate_tx", "validate_txs no longer calls validate_tx", rule="anchor")
    for bi, t in vt:
        ok = False
        for a in t["args"]:
            ch = flow.origin_chain(f.sym_operand(a))
            ty = f.local_ty(pl_local(op_place(a))) if op_place(a) is not None and isinstance(op_place(a), int) else ""
            if ty.startswith("&mut pallas_validate::utils::CertState"):
                ok = ch is not None and ch[0] == ("local", wc) and not ch[1]
        if ok:
            res.ok("validate_tx-gets-copy", "R-PROV", "validate_tx receives &mut of the working copy")
        else:
            res.violation("validate_tx-arg", "validate_tx does not receive `&mut` of the working copy as its certificate state", where=where, rule="R-PROV")
    # iteration order
    it = [t for b, t in f.calls() if flow.callee_name(t).endswith("IntoIterator::into_iter")]
    ok = False
    for t in it:
        s = f.sym_operand(t["args"][0])
        names = [sub[1].split("::")[-1] for sub in sym_walk(s) if sub[0] == "call"]
        if names[:2] == ["enumerate", "iter"] and not set(names) & {"rev", "skip", "step_by", "take", "filter"}:
            ch = flow.origin_chain(s[2][0][2][0]) if s[0] == "call" and s[2] and s[2][0][0] == "call" and s[2][0][2] else None
            ok = ch is not None and ch[0][0] == "param"
    if ok:
        res.ok("in-order", "R-PROV", "the loop runs over metxs.iter().enumerate() (no reordering/skipping adaptor)")
    else:
        res.violation("iteration-order", "validate_txs does not iterate metxs.iter().enumerate() directly", where=where, rule="R-PROV")
    res.sample({"function": f.path, "state_param": "_%d" % cparam, "working_copy": "_%s" % wc, "writes": len(writes), "validate_tx_calls": len(vt)})
    res.assumptions += ["safe Rust: a callee cannot reach the caller's CertState without being handed the reference (no unsafe in validate_txs)"]
    if f.b.get("unsafe"):
        res.violation("unsafe", "validate_txs is unsafe: the ownership argument does not apply", rule="R-FRAME")
    return finish(res,
                  explanation="Ownership argument over the MIR of validate_txs: the only read of the caller's state is the snapshot clone, it is never lent, "
                              "and the single write-back is placed after the loop on the all-success path; hence failure leaves it untouched and success installs the sequentially updated copy.",
                  rule_text="R-FRAME(read once, never lent, written once) + R-PROV(write source, validate_tx argument) + R-ORDER(write after loop, not on error paths)",
                  trusted_base=["rustc MIR", "Rust aliasing rules"], checker_cmd="./check C39 --tier %s" % tier)
