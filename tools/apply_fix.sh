#!/bin/bash
# Apply one reviewed repair to /repo as its own commit.  usage: tools/apply_fix.sh <diff> "<fix: message>"
set -e
d=$(realpath "$1"); msg="$2"
case "$msg" in fix:*) ;; *) echo "message must start with fix:"; exit 2;; esac
cd /repo
[ -z "$(git status --porcelain)" ] || { echo "/repo not clean"; exit 3; }
git apply --whitespace=nowarn "$d" 2>/dev/null || patch -p1 -s < "$d"
find . -name '*.orig' -newer "$d" -not -path './target/*' -delete 2>/dev/null || true
git add -A
git commit -q -m "$msg"
git log --oneline -1
