"""R-CAST engine (narrowing-cast census) and value-flow helpers used by rules/C44.py.

 * census of MIR `Cast(IntToInt)` statements, with a value-range argument for each narrowing / sign-changing one:
   the operand's interval is its source type's range, narrowed by the shape of the operand expression (constant, mask,
   remainder, shift, lossless widening) and by every comparison fact that dominates the cast (pv.guards.facts_at: any
   spelling — `<=`, `<`, reversed operands, negated, early return, match range, `&&` chains, a one-comparison predicate
   helper); the cast is lossless iff that interval lies inside the target type's range;
 * provenance signatures of operands without local names or positions (keys of tables/casts_*.json);
 * `contributing(...)`: every call a value may derive from, expanding multi-definition locals (match arms), closures,
   same-crate helper return values and (one level) parameters at the call sites of the enclosing function.
 * `Concrete`: exact evaluation (Python integers, wrap at every typed operation) of a small integer -> big-integer conversion
   function's MIR at boundary points, byte containers abstracted to their big-endian magnitude; unknown constructs raise
   Unrecognised (the rule fails closed).
No compiled pallas code is run; everything is read from the MIR facts."""
import re

from . import guards
from .mir import sym_walk, sym_str, short_path, SYM_DEPTH
from .panic import strip_generics

INT_RANGE = {"u8": (0, 2**8 - 1), "u16": (0, 2**16 - 1), "u32": (0, 2**32 - 1), "u64": (0, 2**64 - 1),
             "u128": (0, 2**128 - 1), "usize": (0, 2**64 - 1), "i8": (-2**7, 2**7 - 1), "i16": (-2**15, 2**15 - 1),
             "i32": (-2**31, 2**31 - 1), "i64": (-2**63, 2**63 - 1), "i128": (-2**127, 2**127 - 1),
             "isize": (-2**63, 2**63 - 1), "bool": (0, 1), "char": (0, 0x10FFFF)}

CMP = ("Lt", "Le", "Gt", "Ge", "Eq", "Ne")


def is_narrowing(frm, to):
    """Can some value of type `frm` not be represented in type `to`?  None when a type is not an integer type we know."""
    if frm not in INT_RANGE or to not in INT_RANGE:
        return None
    (fl, fh), (tl, th) = INT_RANGE[frm], INT_RANGE[to]
    return not (tl <= fl and fh <= th)


def int_casts(fn):
    """(bb, si, stmt, rvalue) of every IntToInt cast statement in the live blocks of fn."""
    for bi, si, s in fn.statements():
        if s[0] == "a" and s[2]["k"] == "cast" and s[2].get("ck") == "IntToInt":
            yield bi, si, s, s[2]


# ---------------------------------------------------------------- constants and intervals

def const_eval(sym):
    """Integer value of a constant expression (constants, casts of constants that keep the value, +,-,*,<<,>> of
    constants, field 0 of a checked operation's tuple); None if not constant."""
    k = sym[0]
    if k == "const":
        try:
            return int(sym[1])
        except (TypeError, ValueError):
            if sym[1] in (True, "true"):
                return 1
            if sym[1] in (False, "false"):
                return 0
            return None
    if k == "cast" and sym[4] == "IntToInt":
        v = const_eval(sym[1])
        if v is None or sym[3] not in INT_RANGE:
            return None
        lo, hi = INT_RANGE[sym[3]]
        if lo <= v <= hi:
            return v
        # two's complement wrap of a constant
        width = (hi - lo + 1)
        w = v % width
        return w if w <= hi else w - width
    if k == "field" and sym[2] in (0, "0") and sym[1][0] == "bin":
        return const_eval(sym[1])
    if k == "bin":
        a, b = const_eval(sym[2]), const_eval(sym[3])
        if a is None or b is None:
            return None
        op = sym[1].replace("WithOverflow", "").replace("Unchecked", "")
        try:
            if op == "Add":
                return a + b
            if op == "Sub":
                return a - b
            if op == "Mul":
                return a * b
            if op == "Shl" and 0 <= b < 256:
                return a << b
            if op == "Shr" and 0 <= b < 256:
                return a >> b
            if op == "Div" and b != 0 and a >= 0 and b > 0:
                return a // b
        except (OverflowError, ValueError):
            return None
    return None


def _peel(sym):
    """Look through refs/derefs of a value expression (a `&x` / `*x` pair denotes the same integer)."""
    while sym[0] in ("ref", "deref"):
        sym = sym[1]
    return sym


def shape_interval(sym, ty):
    """Interval of an integer expression from its shape alone (no branch facts)."""
    lo, hi = INT_RANGE.get(ty, (None, None))
    if lo is None:
        return None
    sym = _peel(sym)
    c = const_eval(sym)
    if c is not None:
        return (c, c)
    k = sym[0]
    if k == "cast" and sym[4] == "IntToInt" and is_narrowing(sym[2], sym[3]) is False:
        inner = shape_interval(sym[1], sym[2])
        if inner:
            return (max(lo, inner[0]), min(hi, inner[1]))
    if k == "field" and sym[2] in (0, "0") and sym[1][0] == "bin":
        return shape_interval(sym[1], ty)
    if k == "bin":
        op = sym[1].replace("WithOverflow", "").replace("Unchecked", "")
        r = const_eval(sym[3])
        l = const_eval(sym[2])
        if op == "BitAnd":
            m = r if r is not None else l
            if m is not None and m >= 0:
                return (0, min(hi, m))
        if op == "Rem" and r is not None and r > 0 and lo >= 0:
            return (0, min(hi, r - 1))
        if op == "Shr" and r is not None and 0 <= r < 256 and lo >= 0:
            return (0, hi >> r)
        if op == "Div" and r is not None and r > 0 and lo >= 0:
            return (0, hi // r)
    return (lo, hi)


def _same_value(a, b):
    """Do two symbolic expressions denote the same integer value?  Structural equality modulo refs/derefs and modulo a
    lossless widening cast on either side."""
    a, b = _peel(a), _peel(b)
    if a == b:
        return True
    for x, y in ((a, b), (b, a)):
        if x[0] == "cast" and x[4] == "IntToInt" and is_narrowing(x[2], x[3]) is False and _peel(x[1]) == y:
            return True
    return False


def _predicate_summary(prog, callee):
    """(op, l, r) when `callee` is a workspace function whose result is one integer comparison of its parameters /
    constants (a guard predicate extracted into a helper); else None."""
    g = prog.fns.get(callee) if prog is not None else None
    if g is None or g.locals[0]["ty"] != "bool":
        return None
    s = g.sym_local(0)
    neg = False
    while s[0] == "un" and s[1] == "Not":
        neg = not neg
        s = s[2]
    if s[0] != "bin" or s[1] not in CMP:
        return None
    op = guards.NEG[s[1]] if neg else s[1]
    return op, s[2], s[3]


def _subst_params(sym, args):
    if not isinstance(sym, tuple) or not sym or not isinstance(sym[0], str):
        return sym
    if sym[0] == "param":
        i = sym[1] - 1
        return args[i] if 0 <= i < len(args) else sym
    return tuple(_subst_params(x, args) if isinstance(x, tuple) and x and isinstance(x[0], str)
                 else (tuple(_subst_params(y, args) for y in x) if isinstance(x, tuple) else x) for x in sym)


def _comparisons(prog, fact):
    """The integer comparisons a branch fact amounts to: itself, or — for `helper(args) == true/false` — the helper's
    single comparison with the arguments substituted."""
    out = [(op, l, r) for op, l, r in fact.oriented()]
    if fact.op == "Eq" and fact.l[0] == "call" and fact.r[0] == "const":
        ps = _predicate_summary(prog, fact.l[1])
        truth = const_eval(fact.r)
        if truth is None and fact.r[1] in (True, "true", False, "false"):
            truth = int(fact.r[1] in (True, "true"))
        if ps is not None and truth in (0, 1):
            op, l, r = ps
            if truth == 0:
                op = guards.NEG[op]
            l, r = _subst_params(l, fact.l[2]), _subst_params(r, fact.l[2])
            out.append((op, l, r))
            out.append((guards.SWAP[op], r, l))
        # `(a..=b).contains(&x)` / `(a..b).contains(&x)` known true: a <= x and x <= b (x < b)
        if truth == 1 and re.search(r"core::ops::range::Range(Inclusive)?::contains$", strip_generics(fact.l[1] or "")) and len(fact.l[2]) == 2:
            rng, x = _peel(fact.l[2][0]), _peel(fact.l[2][1])
            lo = hi = None
            if rng[0] == "call" and strip_generics(rng[1] or "").endswith("RangeInclusive::new") and len(rng[2]) == 2:
                lo, hi, hop = rng[2][0], rng[2][1], "Le"
            elif rng[0] == "agg" and str(rng[1]).endswith("ops::range::Range") and len(rng[3]) == 2:
                lo, hi, hop = rng[3][0], rng[3][1], "Lt"
            if lo is not None:
                out.append(("Ge", x, lo))
                out.append((hop, x, hi))
    return out


def guarded_interval(prog, fn, bb, si, operand, ty):
    """Interval of `operand` (symbolic, of integer type `ty`) at statement (bb, si): shape interval, interval arithmetic
    over + - neg not of sub-expressions, narrowed by the comparison facts that dominate the statement and still hold
    there.  Returns (lo, hi, [fact descriptions])."""
    if ty not in INT_RANGE:
        return None
    cmps = []
    for f in guards.facts_at(fn, bb):
        if guards._killed(fn, f, (bb, si)):
            continue
        cmps.extend(_comparisons(prog, f))
    used = []
    iv = _interval(cmps, operand, ty, used, 4)
    return iv[0], iv[1], used


def _interval(cmps, sym, ty, used, depth):
    lo, hi = shape_interval(sym, ty) or INT_RANGE[ty]
    tlo, thi = INT_RANGE[ty]
    s = _peel(sym)
    if s[0] == "field" and s[2] in (0, "0") and s[1][0] == "bin":
        s = s[1]
    if depth > 0 and s[0] == "bin":
        op = s[1].replace("WithOverflow", "").replace("Unchecked", "")
        if op in ("Add", "Sub"):
            a = _interval(cmps, s[2], ty, used, depth - 1)
            b = _interval(cmps, s[3], ty, used, depth - 1)
            x = (a[0] + b[0], a[1] + b[1]) if op == "Add" else (a[0] - b[1], a[1] - b[0])
            if tlo <= x[0] and x[1] <= thi:       # no wrap possible: the interval is exact
                lo, hi = max(lo, x[0]), min(hi, x[1])
    elif depth > 0 and s[0] == "un" and s[1] in ("Neg", "Not"):
        a = _interval(cmps, s[2], ty, used, depth - 1)
        if s[1] == "Neg":
            x = (-a[1], -a[0])
        elif tlo < 0:
            x = (-1 - a[1], -1 - a[0])
        else:
            x = (thi - a[1], thi - a[0])
        if tlo <= x[0] and x[1] <= thi:
            lo, hi = max(lo, x[0]), min(hi, x[1])
    elif depth > 0 and s[0] == "cast" and s[4] == "IntToInt" and is_narrowing(s[2], s[3]) is False and s[2] in INT_RANGE:
        a = _interval(cmps, s[1], s[2], used, depth - 1)
        lo, hi = max(lo, a[0]), min(hi, a[1])
    for op, l, r in cmps:
        if not _same_value(l, sym):
            continue
        if op == "In" and r[0] == "set":
            vals = [int(v) for v in r[1]]
            lo, hi = max(lo, min(vals)), min(hi, max(vals))
            used.append("in %s" % (sorted(vals)[:4],))
            continue
        c = const_eval(_peel(r))
        if c is None:
            continue
        if op == "Le":
            hi = min(hi, c)
        elif op == "Lt":
            hi = min(hi, c - 1)
        elif op == "Ge":
            lo = max(lo, c)
        elif op == "Gt":
            lo = max(lo, c + 1)
        elif op == "Eq":
            lo, hi = max(lo, c), min(hi, c)
        else:
            continue
        d = "%s %d" % (op, c)
        if d not in used:
            used.append(d)
    return lo, hi


def fits(lo, hi, to):
    tl, th = INT_RANGE[to]
    return tl <= lo and hi <= th


# ---------------------------------------------------------------- stable signatures (table keys)

def norm_fn(path):
    """Def-path with the schema-version segment and closure ordinals normalised: one key covers both expansions of the
    shared macro and survives adding/removing an unrelated closure."""
    p = re.sub(r"::v1(alpha|beta)::", "::v1*::", path)
    p = re.sub(r"\{closure#\d+\}", "{closure}", p)
    return re.sub(r"#\d+$", "", p)


def version_of(path):
    m = re.search(r"::v1(alpha|beta)::", path)
    return "v1" + m.group(1) if m else "-"


def prov_sig(sym, maxlen=200):
    """Provenance signature of a value: callee names, field names of ADTs, variant names, parameter positions and
    constants — no local variable names, no block numbers, no lines; refs/derefs are transparent."""
    def r(s):
        k = s[0]
        if k == "const":
            return str(s[1])
        if k == "param":
            return "p%d" % s[1]
        if k == "local":
            return "?"
        if k == "field":
            return "%s.%s" % (r(s[1]), s[2])
        if k in ("deref", "ref"):
            return r(s[1])
        if k == "downcast":
            return "(%s as %s)" % (r(s[1]), s[2])
        if k in ("index", "cindex", "subslice"):
            return "%s[]" % r(s[1])
        if k == "call":
            return "%s(%s)" % (short_path(re.sub(r"\{closure#\d+\}", "{closure}", s[1] or "?")), ",".join(r(a) for a in s[2]))
        if k == "bin":
            return "(%s %s %s)" % (r(s[2]), s[1], r(s[3]))
        if k == "un":
            return "%s(%s)" % (s[1], r(s[2]))
        if k == "cast":
            return "(%s as %s)" % (r(s[1]), s[3])
        if k == "discr":
            return "discr(%s)" % r(s[1])
        if k == "agg":
            return "%s::%s(..)" % (short_path(str(s[1])), s[2])
        if k in ("constsym", "fnconst"):
            return short_path(str(s[1]))
        return "<%s>" % k
    out = r(sym)
    return out if len(out) <= maxlen else out[:maxlen]


# ---------------------------------------------------------------- value flow

def _defs_syms(fn, l):
    """Symbolic values of every definition (full or partial) of local l."""
    out = []
    for bi, si, kind, payload in fn.defs().get(l, []):
        if isinstance(payload, dict):          # call terminator
            callee = payload.get("f") or payload.get("g") or "<indirect>"
            out.append(("call", callee, tuple(fn.sym_operand(a) for a in payload["args"]), bi))
        elif payload[0] == "a":
            out.append(fn.sym_rvalue(payload[2], SYM_DEPTH, (bi, si)))
    return out


def contributing(prog, fn, sym, same_crate=None, depth=3, callers=1, _seen=None):
    """[(Fn, call-node)] for every call the value `sym` (an expression of fn) may derive from.  Multi-definition locals
    contribute all their definitions; closure aggregates and calls to functions of `same_crate` contribute their return
    value's provenance (depth-limited); a parameter of fn contributes the matching argument at fn's call sites
    (`callers` levels)."""
    seen = _seen if _seen is not None else set()
    out = []
    work = [sym]
    while work:
        s = work.pop()
        for sub in sym_walk(s):
            k = sub[0]
            if k == "local" and len(sub) > 1:
                key = (fn.path, "l", sub[1])
                if key not in seen:
                    seen.add(key)
                    work.extend(_defs_syms(fn, sub[1]))
            elif k == "call":
                out.append((fn, sub))
                g = prog.fns.get(sub[1])
                if g is not None and depth > 0 and (same_crate is None or g.crate == same_crate):
                    key = (g.path, "ret")
                    if key not in seen:
                        seen.add(key)
                        out.extend(contributing(prog, g, g.sym_local(0), same_crate, depth - 1, 0, seen))
            elif k == "agg" and sub[1] == "closure" and depth > 0:
                g = prog.fns.get(sub[2])
                if g is not None:
                    key = (g.path, "ret")
                    if key not in seen:
                        seen.add(key)
                        out.extend(contributing(prog, g, g.sym_local(0), same_crate, depth - 1, 0, seen))
            elif k == "fnconst" and depth > 0:
                g = prog.fns.get(sub[1])
                if g is not None and (same_crate is None or g.crate == same_crate):
                    out.append((fn, ("call", sub[1], (), None)))
            elif k == "param" and callers > 0:
                key = (fn.path, "p", sub[1])
                if key in seen:
                    continue
                seen.add(key)
                for f2 in prog.fns.values():
                    for bi, t in f2.calls():
                        if t.get("f") == fn.path and sub[1] - 1 < len(t["args"]):
                            out.extend(contributing(prog, f2, f2.sym_operand(t["args"][sub[1] - 1]), same_crate, depth, callers - 1, seen))
    return out


def call_dest_ty(fn, node):
    """Type of the destination of a call node ('call', callee, args, bb) of fn; '' when unknown."""
    bb = node[3] if len(node) > 3 else None
    if not isinstance(bb, int):
        return ""
    t = fn.blocks[bb]["term"]
    d = t.get("dest")
    if d is None:
        return ""
    l = d if isinstance(d, int) else d[0]
    if isinstance(d, int) or not d[1]:
        return fn.local_ty(l)
    last = d[1][-1]
    return last[3] if last[0] == "field" and len(last) > 3 else ""


def derives_from_call(sym, callee_rx, bb=None):
    rx = re.compile(callee_rx) if isinstance(callee_rx, str) else callee_rx
    for sub in sym_walk(sym):
        if sub[0] == "call" and rx.search(strip_generics(sub[1] or "")) and (bb is None or (len(sub) > 3 and sub[3] == bb)):
            return True
    return False


def derives_from_param(sym, idx):
    return any(sub[0] == "param" and sub[1] == idx for sub in sym_walk(sym))


# ---------------------------------------------------------------- exact evaluation of integer -> big-integer conversions
#
# A finite-domain partial evaluation (engine E2 style) of one small conversion function at chosen boundary points: the MIR of
# the function (and of same-crate helpers / closures it calls) is evaluated over exact Python integers, wrapping to the type
# width at every typed operation, following the switches the concrete value determines.  Byte containers (arrays, slices,
# Vec<u8>, Bytes, byte iterators) are abstracted to (big-endian unsigned magnitude, length); conversions between containers
# and a leading-zero strip are the identity on the magnitude.  Anything outside the modelled set raises Unrecognised, which
# the rule reports (fail closed).  The facts come from the rustc driver; no compiled pallas code is run.

class Unrecognised(Exception):
    pass


class Panics(Exception):
    pass


_WIDTH = {"u8": 8, "u16": 16, "u32": 32, "u64": 64, "u128": 128, "usize": 64, "i8": 8, "i16": 16, "i32": 32, "i64": 64,
          "i128": 128, "isize": 64}


def _wrap(v, ty):
    if ty == "bool":
        return 1 if v else 0
    if ty not in _WIDTH:
        raise Unrecognised("integer type %s" % ty)
    w = _WIDTH[ty]
    v &= (1 << w) - 1
    if ty.startswith("i") and v >= 1 << (w - 1):
        v -= 1 << w
    return v


def _in(v, ty):
    lo, hi = INT_RANGE[ty]
    return lo <= v <= hi


def I(v, ty):
    return ("int", v, ty)


def _bytes(mag, n):
    return ("bytes", mag, n)


def _adt(adt, variant, vidx, fields):
    return ("adt", adt, variant, vidx, list(fields))


_SOME = lambda x: _adt("core::option::Option", "Some", 1, [x])
_NONE = _adt("core::option::Option", "None", 0, [])

_BYTES_IDENTITY = re.compile(
    r"(alloc::slice::<impl \[[^\]]*\]>::(to_vec|into_vec)|::to_owned|::into_iter|::iter|::copied|::cloned|::collect(::<.*>)?|::as_slice|::as_ref|::deref|::borrow|"
    r"::clone|::into_boxed_slice|::into_vec|alloc::vec::Vec::<u8>::from|bytes::bytes::Bytes::(from|copy_from_slice)|"
    r"core::convert::From<.*>>::from|core::convert::Into<.*>>::into|::by_ref|::as_bytes)(::<.*>)?$")


class Concrete:
    """Concrete evaluator of one MIR body over exact integers."""

    def __init__(self, prog, budget=4000):
        self.prog = prog
        self.budget = budget

    # -- places / operands
    def _proj(self, v, proj):
        for e in proj:
            k = e[0]
            if k == "deref":
                continue
            if k == "downcast":
                if v[0] == "adt" and e[2] is not None and v[2] != e[2]:
                    raise Unrecognised("downcast to %s of a %s value" % (e[2], v[2]))
                continue
            if k == "field":
                if v[0] == "adt":
                    v = v[4][e[1]]
                elif v[0] == "tuple":
                    v = v[1][e[1]]
                else:
                    raise Unrecognised("field of %s" % v[0])
                continue
            raise Unrecognised("projection %s" % k)
        return v

    def place(self, env, p):
        l = p if isinstance(p, int) else p[0]
        if l not in env:
            raise Unrecognised("read of an unset local _%d" % l)
        return self._proj(env[l], [] if isinstance(p, int) else p[1])

    def operand(self, env, o):
        c = o.get("k")
        if c is not None:
            if "v" in c:
                v = c["v"]
                if isinstance(v, bool):
                    v = int(v)
                return I(int(v), c["ty"])
            if "fn" in c:
                return ("fn", c["fn"])
            return ("opaque", c.get("sym"))
        p = o.get("c", o.get("m"))
        if p is None:
            raise Unrecognised("operand")
        return self.place(env, p)

    # -- rvalues
    def binop(self, op, l, r, lty):
        if l[0] != "int" or r[0] != "int":
            raise Unrecognised("binary %s on non-integers" % op)
        a, b, ty = l[1], r[1], l[2]
        checked = op.endswith("WithOverflow")
        base = op.replace("WithOverflow", "").replace("Unchecked", "")
        if base in CMP:
            return I(int({"Lt": a < b, "Le": a <= b, "Gt": a > b, "Ge": a >= b, "Eq": a == b, "Ne": a != b}[base]), "bool")
        if base == "Add":
            x = a + b
        elif base == "Sub":
            x = a - b
        elif base == "Mul":
            x = a * b
        elif base in ("Div", "Rem"):
            if b == 0:
                raise Panics("division by zero")
            q = abs(a) // abs(b) * (1 if (a < 0) == (b < 0) else -1)
            x = q if base == "Div" else a - q * b
        elif base == "BitAnd":
            x = a & b
        elif base == "BitOr":
            x = a | b
        elif base == "BitXor":
            x = a ^ b
        elif base in ("Shl", "Shr"):
            w = _WIDTH.get(ty)
            if w is None:
                raise Unrecognised("shift of %s" % ty)
            if checked:
                return ("tuple", [I(_wrap(a << (b % w) if base == "Shl" else a >> (b % w), ty), ty), I(int(not 0 <= b < w), "bool")])
            if not 0 <= b < w:
                raise Panics("shift by %d" % b)
            x = a << b if base == "Shl" else a >> b
        else:
            raise Unrecognised("binary operator %s" % op)
        if ty == "bool":
            return I(x & 1, "bool")
        if checked:
            return ("tuple", [I(_wrap(x, ty), ty), I(int(not _in(x, ty)), "bool")])
        return I(_wrap(x, ty), ty)

    def rvalue(self, env, rv, f):
        k = rv["k"]
        if k == "use":
            return self.operand(env, rv["x"])
        if k in ("ref", "rawptr"):
            return self.place(env, rv["p"])
        if k == "cast":
            x = self.operand(env, rv["x"])
            ck = rv["ck"]
            if ck == "IntToInt":
                if x[0] != "int":
                    raise Unrecognised("integer cast of %s" % x[0])
                return I(_wrap(x[1], rv["to"]), rv["to"])
            if ck.startswith("PointerCoercion(Unsize"):
                return x
            raise Unrecognised("cast %s" % ck)
        if k == "bin":
            return self.binop(rv["op"], self.operand(env, rv["l"]), self.operand(env, rv["r"]), rv.get("lty"))
        if k == "un":
            x = self.operand(env, rv["x"])
            if x[0] != "int":
                raise Unrecognised("unary on %s" % x[0])
            if rv["op"] == "Neg":
                return I(_wrap(-x[1], x[2]), x[2])
            if rv["op"] == "Not":
                return I(1 - x[1], "bool") if x[2] == "bool" else I(_wrap(~x[1], x[2]), x[2])
            raise Unrecognised("unary %s" % rv["op"])
        if k == "discr":
            v = self.place(env, rv["p"])
            if v[0] != "adt":
                raise Unrecognised("discriminant of %s" % v[0])
            return I(v[3], "isize")
        if k == "agg":
            fields = [self.operand(env, x) for x in rv["fields"]]
            ak = rv["ak"]
            if ak == "adt":
                return _adt(rv["adt"], rv["variant"], rv.get("vidx", 0), fields)
            if ak == "tuple":
                return ("tuple", fields)
            if ak == "closure":
                return ("closure", rv["def"], fields)
            if ak == "array" and rv.get("ety") == "u8" and all(x[0] == "int" for x in fields):
                m = 0
                for x in fields:
                    m = (m << 8) | (x[1] & 0xFF)
                return _bytes(m, len(fields))
            raise Unrecognised("aggregate %s" % ak)
        raise Unrecognised("rvalue %s" % k)

    # -- calls
    def call(self, t, args, dest_ty, depth):
        full = t.get("ffull") or t.get("f") or t.get("gfull") or t.get("g") or "<indirect>"
        path = t.get("f") or t.get("g") or ""
        name = strip_generics(path).split("::")[-1]
        a0 = args[0] if args else None
        g = self.prog.fns.get(path)
        if g is not None:
            if depth <= 0:
                raise Unrecognised("call depth")
            return self.run(g, args, depth - 1)
        m = re.search(r"core::num::<impl ([iu]\d+|[iu]size)>::(\w+)$", path)
        if m and a0 is not None and a0[0] == "int":
            return self.int_method(m.group(1), m.group(2), args)
        m = re.search(r"core::convert::num::<impl core::convert::TryFrom<(\w+)> for (\w+)>::try_from$", path)
        if m and a0 is not None and a0[0] == "int":
            to = m.group(2)
            if _in(a0[1], to):
                return _adt("core::result::Result", "Ok", 0, [I(a0[1], to)])
            return _adt("core::result::Result", "Err", 1, [("opaque", "TryFromIntError")])
        if a0 is not None and a0[0] == "int" and re.search(r"core::convert::(num::<impl core::convert::From<\w+> for \w+>::from|Into<\w+>>::into|From<\w+>>::from)$", path):
            to = dest_ty
            if to in INT_RANGE and _in(a0[1], to):
                return I(a0[1], to)
            raise Unrecognised("integer conversion %s" % full)
        if re.search(r"core::result::Result::<.*>::(is_ok|is_err|ok)$|core::result::Result::(is_ok|is_err|ok)$", strip_generics(path)) and a0 is not None and a0[0] == "adt":
            if name == "ok":
                return _SOME(a0[4][0]) if a0[2] == "Ok" else _NONE
            return I(int((a0[2] == "Ok") == (name == "is_ok")), "bool")
        if re.search(r"core::option::Option::(is_some|is_none)$", strip_generics(path)) and a0 is not None and a0[0] == "adt":
            return I(int((a0[2] == "Some") == (name == "is_some")), "bool")
        if re.search(r"core::ops::range::RangeInclusive::new$", strip_generics(path)) and len(args) == 2:
            return _adt("core::ops::range::RangeInclusive", "RangeInclusive", 0, list(args))
        if re.search(r"core::ops::range::Range(Inclusive)?::contains$", strip_generics(path)) and len(args) == 2 and a0[0] == "adt" and args[1][0] == "int":
            lo, hi = a0[4][0], a0[4][1]
            if lo[0] != "int" or hi[0] != "int":
                raise Unrecognised("range bounds")
            incl = "Inclusive" in a0[1]
            return I(int(lo[1] <= args[1][1] and (args[1][1] <= hi[1] if incl else args[1][1] < hi[1])), "bool")
        if re.search(r"core::cmp::Ord::(min|max)$|core::cmp::(min|max)$", strip_generics(path)) and len(args) == 2 and all(x[0] == "int" for x in args):
            return I((min if name == "min" else max)(args[0][1], args[1][1]), args[0][2])
        # byte containers
        if a0 is not None and a0[0] == "bytes":
            if name == "skip_while" and len(args) == 2:
                self.require_zero_test(args[1], depth)
                mag = a0[1]
                return _bytes(mag, (mag.bit_length() + 7) // 8)
            if name == "index" and len(args) == 2 and args[1][0] == "adt" and args[1][1].endswith("RangeFrom"):
                st = args[1][4][0]
                if st[0] != "int" or a0[2] is None or st[1] > a0[2]:
                    raise Unrecognised("slice bounds")
                n = a0[2] - st[1]
                return _bytes(a0[1] & ((1 << (8 * n)) - 1), n)
            if _BYTES_IDENTITY.search(path) or _BYTES_IDENTITY.search(strip_generics(path)):
                if dest_ty.startswith("core::option::Option<"):
                    return _SOME(a0)
                return a0
        if re.search(r"core::convert::Into<.*>>::into$|core::convert::From<.*>>::from$", path) and a0 is not None and a0[0] == "adt":
            if dest_ty.startswith("core::option::Option<") and not a0[1].startswith("core::option::Option"):
                return _SOME(a0)
            return a0
        raise Unrecognised("call of %s" % short_path(full))

    def int_method(self, ty, name, args):
        a = args[0][1]
        b = args[1][1] if len(args) > 1 and args[1][0] == "int" else None
        uty = "u" + ty[1:] if ty.startswith("i") else ty
        w = _WIDTH[ty]
        if name == "unsigned_abs":
            return I(abs(a), uty)
        if name == "abs":
            if not _in(abs(a), ty):
                raise Panics("abs overflow")
            return I(abs(a), ty)
        if name == "wrapping_abs":
            return I(_wrap(abs(a), ty), ty)
        if name == "wrapping_neg":
            return I(_wrap(-a, ty), ty)
        if name in ("to_be_bytes",):
            return _bytes(a & ((1 << w) - 1), w // 8)
        if name == "checked_neg":
            return _SOME(I(-a, ty)) if _in(-a, ty) else _NONE
        if name == "checked_abs":
            return _SOME(I(abs(a), ty)) if _in(abs(a), ty) else _NONE
        if name in ("is_negative", "is_positive"):
            return I(int(a < 0 if name == "is_negative" else a > 0), "bool")
        if name == "signum":
            return I((a > 0) - (a < 0), ty)
        if b is not None:
            ops = {"add": a + b, "sub": a - b, "mul": a * b}
            for pre in ("wrapping_", "checked_", "saturating_"):
                if name.startswith(pre) and name[len(pre):] in ops:
                    x = ops[name[len(pre):]]
                    if pre == "wrapping_":
                        return I(_wrap(x, ty), ty)
                    if pre == "checked_":
                        return _SOME(I(x, ty)) if _in(x, ty) else _NONE
                    lo, hi = INT_RANGE[ty]
                    return I(min(max(x, lo), hi), ty)
        raise Unrecognised("integer method %s::%s" % (ty, name))

    def require_zero_test(self, clo, depth):
        """The predicate of a leading-byte strip must be `byte == 0` (true for 0, false for every other byte)."""
        if clo[0] == "closure":
            g = self.prog.fns.get(clo[1])
        elif clo[0] == "fn":
            g = self.prog.fns.get(clo[1])
        else:
            g = None
        if g is None:
            raise Unrecognised("strip predicate that is not a closure of this crate")
        for b in (0, 1, 0x7f, 0x80, 0xff):
            r = self.run(g, [clo, I(b, "u8")][-g.argc:] if g.argc <= 2 else [clo, I(b, "u8")], depth - 1)
            if r[0] != "int" or r[1] != int(b == 0):
                raise Unrecognised("skip_while predicate other than `byte == 0`")

    # -- bodies
    def run(self, f, args, depth=4):
        if len(args) != f.argc:
            raise Unrecognised("arity of %s" % f.path)
        env = {i + 1: a for i, a in enumerate(args)}
        bb = 0
        while True:
            self.budget -= 1
            if self.budget <= 0:
                raise Unrecognised("evaluation budget exhausted (loop)")
            blk = f.blocks[bb]
            for s in blk["st"]:
                if s[0] == "a":
                    v = self.rvalue(env, s[2], f)
                    p = s[1]
                    if isinstance(p, int) or not p[1]:
                        env[p if isinstance(p, int) else p[0]] = v
                    else:
                        raise Unrecognised("assignment through a projection")
                elif s[0] == "setdiscr":
                    raise Unrecognised("set discriminant")
            t = blk["term"]
            k = t["k"]
            if k == "goto" or k == "drop":
                bb = t["t"]
            elif k == "return":
                if 0 not in env:
                    if f.locals[0]["ty"] == "()":
                        return ("tuple", [])
                    raise Unrecognised("return without a value")
                return env[0]
            elif k == "switch":
                d = self.operand(env, t["d"])
                if d[0] != "int":
                    raise Unrecognised("switch on %s" % d[0])
                nxt = t["o"]
                for val, tgt in t["ts"]:
                    if int(val) == d[1]:
                        nxt = tgt
                        break
                bb = nxt
            elif k == "assert":
                c = self.operand(env, t["cond"])
                if c[0] != "int":
                    raise Unrecognised("assert on %s" % c[0])
                if bool(c[1]) != bool(t["expected"]):
                    raise Panics(str(t.get("kind")))
                bb = t["t"]
            elif k == "call":
                args2 = [self.operand(env, a) for a in t["args"]]
                d = t["dest"]
                dl = d if isinstance(d, int) else d[0]
                if not isinstance(d, int) and d[1]:
                    raise Unrecognised("call result stored through a projection")
                env[dl] = self.call(t, args2, f.local_ty(dl), depth)
                if t.get("t") is None:
                    raise Unrecognised("diverging call")
                bb = t["t"]
            else:
                raise Unrecognised("terminator %s" % k)


def find_adt(v, adt_rx):
    """First ADT value whose path matches adt_rx inside a concrete value tree."""
    rx = re.compile(adt_rx) if isinstance(adt_rx, str) else adt_rx
    if not isinstance(v, tuple):
        return None
    if v[0] == "adt":
        if rx.search(v[1]):
            return v
        for x in v[4]:
            r = find_adt(x, rx)
            if r is not None:
                return r
    elif v[0] == "tuple":
        for x in v[1]:
            r = find_adt(x, rx)
            if r is not None:
                return r
    return None


def bigint_sample_points(ty):
    """Boundary points of the parameter type inside the CBOR integer range -2^64 ..= 2^64-1."""
    lo, hi = INT_RANGE[ty]
    lo, hi = max(lo, -2**64), min(hi, 2**64 - 1)
    pts = [0, 1, -1, 42, -42, 255, 256, -256, -257, 2**63 - 1, -2**63, 2**63, 2**63 + 12345, 2**64 - 1, -2**63 - 1, -2**63 - 12345, -2**64 + 1, -2**64,
           2**32, -2**32, lo, hi]
    out = []
    for p in pts:
        if lo <= p <= hi and p not in out:
            out.append(p)
    return out
