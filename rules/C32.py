"""C32 — slot, epoch and wall-clock conversions are mutually consistent.

Decides (necessary conditions; static, path- and context-sensitive abstract interpretation of the MIR arithmetic, engine pv/x_dim.py):
 R-DIM         dimensional consistency of every arithmetic/comparison node that reaches the result (or a branch) of the public
               conversion entry points of pallas_traverse::time, under the seed units of spec/time_units.json (GenesisValues fields
               by field name, entry parameters by position, declared result units).  Private helpers are inlined per call site.
 R-ERA-MIX     one `* / %` chain never combines per-era rate fields (slot length, epoch length) of two eras.
 R-ERA-ANCHOR  an era's known_time is only added to terms built from the same era's fields; a wall-clock result is anchored at a
               known_time and scales the slot distance by that era's slot length (and uses that era's known_slot unless it is 0 in
               every well-known network).
 R-ERA-GUARD   the era whose rates are applied to the query is selected by comparing the query with the era boundary taken from the
               boundary fields of the spec: earlier era on the `<` side, later era on the `>=` side (only where the test is a plain
               comparison; other spellings are reported as "not decided", never as violations).
 R-ERA-REBASE  on the later-era path the query is rebased by the boundary (query - boundary) before later-era rates are applied, and an
               absolute result carries the earlier era's total as an added offset with the boundary's field provenance — the same
               provenance sets in absolute_slot_to_relative and relative_slot_to_absolute (inverse pair).
 R-CAST        no dimensioned quantity is narrowed / sign-changed by an integer `as` cast to a type that cannot hold its width bound by
               provenance (fields and parameters have the width of their types; widening, same-width, provenance-bounded, range-tested and
               try_from narrowings are accepted) when the cast value reaches a result or a branch.
 R-CONST       every constant construction of GenesisValues (the well-known networks) makes the epoch a whole number of slots, puts
               the era boundary on an epoch start, and keeps wall-clock time continuous across the boundary.
Not decided: the numeric round trip and monotonicity themselves, overflow, behaviour for hand-built GenesisValues."""
import re

from pv.program import Program, AnchorLost
from pv.report import Result, finish
from pv.mir import pl_local, pl_proj
from pv import x_dim
from pv.x_dim import Spec, Interp, Node, Tup, Struct, Unk, Unanalysable, value_nodes, value_params, live_errs, query_eras, tree_str, SWAP

CRATE = "pallas_traverse"


def resolve_entries(P, spec):
    out = {}
    for label, d in spec.entries.items():
        if "method_of_adt" in d:
            c = [f for f in P.fns.values() if f.kind == "AssocFn" and f.b.get("impl_adt") == spec.adt and not f.b.get("impl_trait")
                 and f.name == d["method_of_adt"]]
        else:
            c = [f for f in P.fns.values() if f.kind == "Fn" and f.name == d["free_fn"] and f.b.get("vis") == "Public"]
        if len(c) != 1:
            raise AnchorLost("entry %s: expected exactly one function, found %d" % (label, len(c)))
        out[label] = c[0]
    return out


def field_readers(P, spec):
    """Functions (not trait impls: serde/Debug/Clone are derives) that read a seeded field of the ADT: {path: {field names}}."""
    out = {}
    for f in P.fns.values():
        if f.b.get("impl_trait") or f.kind not in ("Fn", "AssocFn", "Closure"):
            continue
        hit = set()
        for p in _places(f):
            if isinstance(p, int):
                continue
            ty = f.local_ty(pl_local(p))
            for e in pl_proj(p):
                if e[0] == "field":
                    if spec.adt in ty and not ty.startswith("core::option") and e[2] in spec.fields:
                        hit.add(e[2])
                    ty = e[3] or ""
        if hit:
            out[f.path] = hit
    return out


def _places(f):
    for bi, si, s in f.statements():
        if s[0] != "a":
            continue
        rv = s[2]
        k = rv["k"]
        ops = []
        if k in ("use", "cast", "un", "repeat"):
            ops = [rv["x"]]
        elif k == "bin":
            ops = [rv["l"], rv["r"]]
        elif k == "agg":
            ops = rv["fields"]
        for o in ops:
            p = o.get("c") if "c" in o else o.get("m")
            if p is not None:
                yield p
        if k in ("ref", "discr", "rawptr"):
            yield rv["p"]
    for bi, t in f.calls():
        for o in t["args"]:
            p = o.get("c") if "c" in o else o.get("m")
            if p is not None:
                yield p


def seed_args(fn, spec, interp, decl):
    args = []
    for i in range(fn.argc):
        ty = fn.local_ty(i + 1)
        want = decl["params"][i] if decl and i < len(decl["params"]) else None
        if spec.adt in ty:
            args.append(Struct())
        elif want and want != "self":
            args.append(interp.param(i, spec.parse(want), ty))
        else:
            args.append(interp.param(i, None, ty))
    return args


def boundary_for(spec, era):
    """(boundary dict, 'earlier'|'later') pairs the era takes part in."""
    out = []
    for b in spec.boundaries:
        if b["earlier"] == era:
            out.append((b, "earlier"))
        if b["later"] == era:
            out.append((b, "later"))
    return out


def dim_name(spec, unit):
    """'slot' / 'epoch' when the unit is exactly one base dimension."""
    for i, d in enumerate(spec.dims):
        if unit == tuple(1 if j == i else 0 for j in range(len(spec.dims))):
            return d
    return None


def run(tier):
    res = Result("C32", tier, level="other")
    spec = Spec()
    P = Program(crates=[CRATE])
    if P.adt(spec.adt) is None:
        raise AnchorLost("ADT %s not found" % spec.adt)
    adt_fields = [f["name"] for f in P.adt(spec.adt)["variants"][0]["fields"]]
    missing = [n for n in spec.fields if n not in adt_fields]
    if missing:
        raise AnchorLost("fields %s of the unit oracle are not fields of %s" % (missing, spec.adt))
    for n in adt_fields:
        if n not in spec.fields and n not in spec.raw.get("unseeded_fields_ok", []):
            res.violation("R-DIM|unseeded-field|%s" % n, "%s has a new field `%s` with no declared unit in spec/time_units.json" % (spec.adt, n),
                          where="%s:%s" % (P.adt(spec.adt).get("file"), P.adt(spec.adt).get("line")), rule="R-DIM")

    entries = resolve_entries(P, spec)
    entry_of = {f.path: label for label, f in entries.items()}
    zero_known_slot = constructor_laws(P, spec, res, adt_fields)

    inlined = set()
    seen_keys = set()
    n_paths = n_nodes = n_guard = n_undecided = 0

    def report(key, msg, where, rule):
        if key in seen_keys:
            return
        seen_keys.add(key)
        res.violation(key, msg, where=where, rule=rule)

    def analyse(label, fn, decl):
        nonlocal n_paths, n_nodes, n_guard, n_undecided
        it = Interp(P, spec, label, entry_of)
        try:
            outcomes = it.run(fn, seed_args(fn, spec, it, decl))
        except Unanalysable as e:
            report("R-DIM|%s|unanalysable" % label, "cannot analyse %s: %s (fail closed)" % (label, e), "%s:%s" % (fn.file, fn.line), "R-DIM")
            return
        inlined.update(it.inlined)
        res.count("arithmetic nodes evaluated", it.n_arith)
        res.count("helper call instances inlined", it.n_calls_inlined)
        res.count("integer casts examined", it.n_casts)
        n_nodes += it.n_arith
        if not outcomes:
            report("R-DIM|%s|no-return" % label, "%s has no returning path" % label, "%s:%s" % (fn.file, fn.line), "R-DIM")
            return
        before = len(res.violations)
        units_seen = set()
        for ret, conds in outcomes:
            n_paths += 1
            for e in live_errs(ret, conds, label):
                report(e.key, "%s: %s" % (label, e.msg), e.where, e.rule)
            comps = ret.comps if isinstance(ret, Tup) else [ret]
            if decl is None:
                units_seen.add(tuple(c.unit if isinstance(c, Node) else None for c in comps))
                continue
            # declared result units
            if len(comps) != len(decl["result"]):
                report("R-DIM-RET|%s|arity" % label, "%s returns %d components, the oracle declares %d" % (label, len(comps), len(decl["result"])),
                       "%s:%s" % (fn.file, fn.line), "R-DIM")
                continue
            for i, (c, rd) in enumerate(zip(comps, decl["result"])):
                want = spec.parse(rd["unit"])
                if not isinstance(c, Node):
                    report("R-DIM-RET|%s|result#%d|untracked" % (label, i), "%s: result component %d is not an integer value the checker can track (%s)"
                           % (label, i, getattr(c, "why", type(c).__name__)), "%s:%s" % (fn.file, fn.line), "R-DIM")
                    continue
                if c.unit is None:
                    continue
                if c.unit != want:
                    report("R-DIM-RET|%s|result#%d|%s~%s|%s" % (label, i, spec.ustr(c.unit), rd["unit"], it.prov(c)),
                           "%s: result component %d is in %s [%s], the function is declared to return %s"
                           % (label, i, spec.ustr(c.unit), it.prov(c), rd["unit"]), c.where or "%s:%s" % (fn.file, fn.line), "R-DIM")
            g, u = era_clauses(label, fn, decl, it, ret, comps, conds)
            n_guard += g
            n_undecided += u
        if decl is None and len(units_seen) > 1:
            report("R-DIM|%s|join" % label, "%s returns values of different units on different paths: %s"
                   % (label, sorted(str([spec.ustr(x) for x in us]) for us in units_seen)), "%s:%s" % (fn.file, fn.line), "R-DIM")
        if len(res.violations) == before:
            res.ok("R-DIM+R-ERA|%s" % label, "R-DIM", "%d return path(s), %d arithmetic nodes: units consistent, result in %s, era clauses hold"
                   % (len(outcomes), it.n_arith, [r["unit"] for r in decl["result"]] if decl else "undeclared units"))
            if outcomes and isinstance(outcomes[0][0], (Node, Tup)):
                c0 = outcomes[0][0].comps if isinstance(outcomes[0][0], Tup) else [outcomes[0][0]]
                res.sample({"entry": label, "path": 0, "result": [tree_str(c, spec) if isinstance(c, Node) else "?" for c in c0],
                            "units": [spec.ustr(c.unit) if isinstance(c, Node) else "?" for c in c0]})

    def era_clauses(label, fn, decl, it, ret, comps, conds):
        """R-ERA-GUARD / R-ERA-REBASE / R-ERA-ANCHOR(result) on one path.  Returns (#guards decided, #undecided)."""
        here = "%s:%s" % (fn.file, fn.line)
        decided = undecided = 0
        # wall-clock results: anchored at a known_time, scaled by that era's slot length
        for i, (c, rd) in enumerate(zip(comps, decl["result"])):
            if not isinstance(c, Node) or not rd.get("absolute") or rd["unit"] != "s" or not c.params:
                continue
            anchors = [t for s, t in c.terms() if s > 0 and t.kind == "field" and spec.fields[t.name]["role"] == "known_time"]
            if not anchors:
                report("R-ERA-ANCHOR|%s|result#%d|no-anchor" % (label, i), "%s: the wall-clock result is not anchored at any era's known time (no `*_known_time +` term)" % label,
                       c.where or here, "R-ERA-ANCHOR")
                continue
            for a in anchors:
                era = spec.fields[a.name]["era"]
                others = [t for s, t in c.terms() if t is not a]
                allf = set().union(*[t.fields for t in others]) if others else set()
                sl = spec.field_of(era, "slot_length")
                ks = spec.field_of(era, "known_slot")
                if sl not in allf:
                    report("R-ERA-ANCHOR|%s|result#%d|%s|no-%s" % (label, i, a.name, sl), "%s: the wall-clock result anchored at %s does not scale the slot distance by %s"
                           % (label, a.name, sl), c.where or here, "R-ERA-ANCHOR")
                if ks not in allf and ks not in zero_known_slot:
                    report("R-ERA-ANCHOR|%s|result#%d|%s|no-%s" % (label, i, a.name, ks), "%s: the wall-clock result anchored at %s does not measure the slot distance from %s "
                           "(which is not 0 in every well-known network)" % (label, a.name, ks), c.where or here, "R-ERA-ANCHOR")
        # which era's rates are applied to the query on this path?
        if not any(value_params(c) for c in comps):
            return 0, 0
        eras = set()
        for c in comps:
            eras |= query_eras(c)
            if isinstance(c, Node):
                for s, t in c.terms():
                    if t.kind == "field" and spec.fields[t.name]["role"] == "known_time" and c.params:
                        eras.add(spec.fields[t.name]["era"])
        eras.discard(None)
        if not eras:
            return 0, 0
        if len(eras) > 1:
            res.notes.append("%s: one path applies rates of eras %s to the query; era selection not decided on that path" % (label, sorted(eras)))
            return 0, 1
        era = next(iter(eras))
        for b, side in boundary_for(spec, era):
            # ---- guard
            recognised, involving, opaque_q = [], False, False
            for c in conds:
                if c.kind == "cmp" and isinstance(c.l, Node) and isinstance(c.r, Node):
                    for q, bnd, op in ((c.l, c.r, c.op), (c.r, c.l, SWAP[c.op])):
                        if q.kind == "param" and not bnd.params and bnd.fields and q.unit == bnd.unit and dim_name(spec, q.unit) in b:
                            recognised.append((q, bnd, op))
                    if c.l.params or c.r.params:
                        involving = True
                elif value_params(c.value) if c.value is not None else False:
                    involving = opaque_q = True
                elif c.kind == "cmp" and (value_params(c.l) or value_params(c.r)):
                    involving = opaque_q = True
            matching = [(q, bnd, op) for q, bnd, op in recognised
                        if set(bnd.fields) == set(b[dim_name(spec, q.unit)]) and not bnd.has_const and op not in ("Eq", "Ne")]
            want = "Lt" if side == "earlier" else "Ge"
            gkey = "R-ERA-GUARD|%s|%s" % (label, era)
            if matching:
                decided += 1
                badp = [(q, bnd, op) for q, bnd, op in matching if op != want]
                if badp:
                    q, bnd, op = badp[0]
                    report("%s|%s%s[%s]" % (gkey, q.name, x_dim.REL[op], it.prov(bnd)),
                           "%s: the %s-era conversion is applied on the path where %s %s boundary[%s]; the %s era covers exactly the queries %s the boundary"
                           % (label, era, q.name, x_dim.REL[op], it.prov(bnd), era, "<" if side == "earlier" else ">="), bnd.where or here, "R-ERA-GUARD")
                else:
                    res.ok("%s|%s" % (gkey, b["later"]), "R-ERA-GUARD", "%s-era rates on the %s side of boundary[%s]"
                           % (era, "<" if side == "earlier" else ">=", it.prov(matching[0][1])))
            elif [r for r in recognised if r[2] not in ("Eq", "Ne")] and not opaque_q:
                q, bnd, op = recognised[0]
                report("%s|wrong-boundary|%s[%s]" % (gkey, q.name, it.prov(bnd)),
                       "%s: the %s-era conversion is selected by comparing %s with a value from [%s]%s; the %s/%s boundary for a %s query comes from [%s]"
                       % (label, era, q.name, it.prov(bnd), " adjusted by a literal" if bnd.has_const else "", b["earlier"], b["later"], dim_name(spec, q.unit),
                          ",".join(sorted(b[dim_name(spec, q.unit)]))), bnd.where or here, "R-ERA-GUARD")
            elif involving:
                undecided += 1
                res.notes.append("%s: era test on the %s path is not a plain comparison of the query with the boundary; R-ERA-GUARD not decided there" % (label, era))
            else:
                report("%s|unguarded" % gkey, "%s: %s-era rates are applied to the query on a path that never tests the query against the %s/%s boundary"
                       % (label, era, b["earlier"], b["later"]), here, "R-ERA-GUARD")
            # ---- rebase / offset on the later-era path
            if side != "later":
                continue
            for c in comps:
                if not isinstance(c, Node):
                    continue
                for x in c.walk():
                    if x.kind != "bin" or x.op not in ("Mul", "Div", "Rem") or era not in x.chain:
                        continue
                    for k in x.kids:
                        p = o = None
                        if k.kind == "param":
                            p = k
                        elif k.kind == "bin" and k.op == "Sub" and k.kids[0].kind == "param":
                            p, o = k.kids
                        if p is None or dim_name(spec, p.unit) not in b:
                            continue
                        d = dim_name(spec, p.unit)
                        if o is None:
                            report("R-ERA-REBASE|%s|%s|%s|not-rebased" % (label, era, p.name),
                                   "%s: on the %s path the absolute %s %s is scaled by %s rates without first subtracting the era boundary [%s]"
                                   % (label, era, d, p.name, era, ",".join(sorted(b[d]))), x.where or here, "R-ERA-REBASE")
                        elif o.params or set(o.fields) != set(b[d]):
                            report("R-ERA-REBASE|%s|%s|%s|by[%s]" % (label, era, p.name, it.prov(o)),
                                   "%s: on the %s path the %s %s is rebased by a value from [%s]; the era boundary for a %s comes from [%s]"
                                   % (label, era, d, p.name, it.prov(o), d, ",".join(sorted(b[d]))), k.where or here, "R-ERA-REBASE")
                        else:
                            res.ok("R-ERA-REBASE|%s|%s|%s" % (label, era, p.name), "R-ERA-REBASE", "%s - boundary[%s] before %s rates" % (p.name, it.prov(o), era))
            for i, (c, rd) in enumerate(zip(comps, decl["result"])):
                d = rd["unit"]
                if not isinstance(c, Node) or not rd.get("absolute") or d not in b or not c.params:
                    continue
                wantu = spec.parse(d)
                allowed = set(b["slot"]) | set(b["epoch"])
                offs = [t for s, t in c.terms() if s > 0 and not t.params and t.fields and t.unit == wantu
                        and ((d == "epoch" and set(t.fields) == set(b["epoch"])) or (d == "slot" and set(b["slot"]) <= set(t.fields) <= allowed))]
                if offs:
                    res.ok("R-ERA-OFFSET|%s|%s|result#%d" % (label, era, i), "R-ERA-REBASE", "absolute %s = offset[%s] + %s-era part" % (d, it.prov(offs[0]), era))
                else:
                    report("R-ERA-OFFSET|%s|%s|result#%d" % (label, era, i),
                           "%s: on the %s path the absolute %s result does not add the total of the %s era (a query-independent term built from [%s])"
                           % (label, era, d, b["earlier"], ",".join(sorted(b[d]))), c.where or here, "R-ERA-REBASE")
        return decided, undecided

    for label, fn in entries.items():
        res.count("declared entries")
        analyse(label, fn, spec.entries[label])

    # census: any other function reading the seeded fields must have been analysed (inlined) or is analysed with polymorphic parameters
    readers = field_readers(P, spec)
    for path, flds in sorted(readers.items()):
        if path in entry_of or path in inlined:
            continue
        f = P.fns[path]
        if f.kind == "Closure":
            report("R-DIM|%s|closure" % path, "closure %s reads %s of %s; closures are not analysed (fail closed)" % (path, sorted(flds), spec.adt),
                   "%s:%s" % (f.file, f.line), "R-DIM")
            continue
        res.count("undeclared field readers")
        res.notes.append("%s reads %s but has no declared units in spec/time_units.json: analysed with unit-polymorphic parameters" % (path, sorted(flds)))
        analyse(path, f, None)

    res.count("return paths", n_paths)
    res.count("era guards decided", n_guard)
    res.count("era guards not decided", n_undecided)
    res.floor("declared entries analysed", len(entries), 4)
    res.floor("arithmetic nodes", n_nodes, 12)
    res.floor("functions reading the seeded fields", len(readers), 3)
    res.assumptions += [
        "units of the GenesisValues fields and of the public entry points as declared in spec/time_units.json (source: Cardano genesis files / wellknown.rs)",
        "integer literals are dimensionless scale factors",
    ]
    return finish(
        res,
        explanation="Dimensional and era consistency of the slot/epoch/wall-clock conversions: every arithmetic node that reaches a result of "
                    "slot_to_wallclock, absolute_slot_to_relative, relative_slot_to_absolute, shelley_start_epoch and compute_absolute_slot_within_era "
                    "(private helpers inlined per call site) is checked in the unit algebra {slot, s, epoch}; a remainder must be taken modulo a "
                    "quantity of the same unit (per epoch) — necessary for slot-in-epoch < epoch size in slots; a wall-clock result must be "
                    "known_time + slot distance * slot length of ONE era — necessary for time advancing by the era's slot length; era rates are never "
                    "mixed, no slot/epoch/time quantity is truncated by a narrowing cast, the era is chosen on the correct side of the boundary, and both directions of the epoch conversion use the same boundary "
                    "provenance; the well-known constants make epochs whole numbers of slots, align the boundary with an epoch start and keep time "
                    "continuous. NOT decided: the numeric round trip and strict monotonicity themselves, overflow, hand-built GenesisValues.",
        rule_text="R-DIM (unit-of-measure abstract interpretation, context-sensitive inlining) + R-CAST (width bound by provenance) + R-ERA-MIX/ANCHOR/GUARD/REBASE (era provenance) + "
                  "R-CONST (laws over the constant GenesisValues constructions)",
        trusted_base=["rustc MIR", "spec/time_units.json"])


# ------------------------------------------------------------------------------------------------ constants of the well-known networks

def constructor_laws(P, spec, res, adt_fields):
    """Evaluate the constructor laws on every all-constant construction of the ADT.  Returns the set of known_slot fields that are 0 in
    every such construction."""
    from pv import flow
    sites = []
    for f in P.fns.values():
        if f.b.get("impl_trait"):
            continue
        for bi, si, rv in flow.aggregates(f, "^" + re.escape(spec.adt) + "$"):
            vals = {}
            dynamic = []
            for name, o in zip(adt_fields, rv["fields"]):
                if name not in spec.fields:
                    continue
                k = o.get("k")
                if k is not None and "v" in k:
                    vals[name] = int(k["v"])
                else:
                    dynamic.append(name)
            line = f.blocks[bi]["st"][si][3][0]
            if dynamic:
                res.notes.append("%s builds %s with non-constant %s: not a well-known network, constructor laws not evaluated" % (f.path, spec.adt, dynamic))
                continue
            sites.append((f, line, vals))
    res.floor("constant constructions of GenesisValues", len(sites), 2)
    zero = None
    for f, line, v in sites:
        res.count("constant constructions")
        where = "%s:%s" % (f.file, line)
        short = f.path.replace("pallas_traverse::wellknown::", "")
        ks_zero = {n for n in v if spec.fields[n]["role"] == "known_slot" and v[n] == 0}
        zero = ks_zero if zero is None else (zero & ks_zero)
        for era in spec.eras:
            sl, el = v[spec.field_of(era, "slot_length")], v[spec.field_of(era, "epoch_length")]
            key = "R-CONST|%s|epoch_is_whole_slots|%s" % (short, era)
            if sl > 0 and el > 0 and el % sl == 0:
                res.ok(key, "R-CONST", "%s: %d s / %d s = %d slots per epoch" % (era, el, sl, el // sl))
            else:
                res.violation(key, "%s: %s epoch length %d s is not a positive whole number of %d s slots" % (short, era, el, sl), where=where, rule="R-CONST")
        for b in spec.boundaries:
            e, l = b["earlier"], b["later"]
            lks, eks = v[spec.field_of(l, "known_slot")], v[spec.field_of(e, "known_slot")]
            esl, eel = v[spec.field_of(e, "slot_length")], v[spec.field_of(e, "epoch_length")]
            lkt, ekt = v[spec.field_of(l, "known_time")], v[spec.field_of(e, "known_time")]
            key = "R-CONST|%s|boundary_on_epoch_start|%s-%s" % (short, e, l)
            if eel > 0 and (lks * esl) % eel == 0:
                res.ok(key, "R-CONST", "%s starts at slot %d = start of %s epoch %d" % (l, lks, e, lks * esl // eel))
            else:
                res.violation(key, "%s: the %s era starts at slot %d, which is not the first slot of a %s epoch; relative_slot_to_absolute cannot "
                              "reproduce the boundary from the start epoch" % (short, l, lks, e), where=where, rule="R-CONST")
            key = "R-CONST|%s|time_is_continuous|%s-%s" % (short, e, l)
            expect = ekt + (lks - eks) * esl
            if lks >= eks and lkt == expect:
                res.ok(key, "R-CONST", "%s_known_time %d = %s_known_time + (%d - %d) * %d" % (l, lkt, e, lks, eks, esl))
            else:
                back = lks > eks and lkt <= ekt + (lks - 1 - eks) * esl
                res.violation(key, "%s: %s known time %d differs from %s known time %d + (%d - %d) slots * %d s = %d (by %d s): wall-clock time does not advance by "
                              "the %s slot length from slot %d to slot %d%s" % (short, l, lkt, e, ekt, lks, eks, esl, expect, lkt - expect, e, lks - 1, lks,
                                                                                " — it goes BACKWARDS, slot_to_wallclock is not increasing" if back else ""),
                              where=where, rule="R-CONST")
    return zero or set()
