// C28 demonstration — place as pallas-network2/tests/c28_reentrancy.rs and run
//   cargo test --offline -p pallas-network2 --test c28_reentrancy
//
// Only the public API is used.  Each test brings one peer to the Initialized state, lets the trigger of one
// emitter fire TWICE before the interface has confirmed (`Sent`) the first emission, collects what the initiator
// asked the interface to send to that peer, and replays it through the mini-protocol's own state machine
// (`State::apply`, the relation C24 compares with the specification) as a conformant responder would see it.
// Every test fails on the unfixed tree: the second emission is not permitted in the state the first one produced.
use futures::{FutureExt, StreamExt};
use pallas_network2::behavior::{AnyMessage, InitiatorBehavior, InitiatorCommand};
use pallas_network2::protocol::{self as proto, handshake, MAINNET_MAGIC, Point};
use pallas_network2::{Behavior, BehaviorOutput, InterfaceCommand, InterfaceEvent, PeerId};
use std::collections::HashMap;

fn drain(b: &mut InitiatorBehavior) -> Vec<BehaviorOutput<InitiatorBehavior>> {
    let mut out = Vec::new();
    while let Some(Some(o)) = b.next().now_or_never() {
        out.push(o);
    }
    out
}

fn sends_to(pid: &PeerId, outs: Vec<BehaviorOutput<InitiatorBehavior>>) -> Vec<AnyMessage> {
    outs.into_iter()
        .filter_map(|o| match o {
            BehaviorOutput::InterfaceCommand(InterfaceCommand::Send(p, m)) if &p == pid => Some(m),
            _ => None,
        })
        .collect()
}

/// include -> housekeeping (warm, Connect) -> Connected -> Sent(Propose) -> Recv(Accept) -> housekeeping (hot),
/// with every emission of the set-up phase confirmed, so the peer is Initialized and all protocols are idle.
fn initialized_peer(b: &mut InitiatorBehavior, version: u64) -> PeerId {
    let pid = PeerId { host: "10.0.0.1".into(), port: 3001 };
    b.execute(InitiatorCommand::IncludePeer(pid.clone()));
    b.execute(InitiatorCommand::Housekeeping);
    drain(b);
    b.handle_io(InterfaceEvent::Connected(pid.clone()));
    drain(b);
    let data = handshake::n2n::VersionData::new(MAINNET_MAGIC, false, Some(1), Some(false));
    let mut values = HashMap::new();
    values.insert(version, data.clone());
    let propose = AnyMessage::Handshake(handshake::Message::Propose(handshake::VersionTable { values }));
    b.handle_io(InterfaceEvent::Sent(pid.clone(), propose));
    b.handle_io(InterfaceEvent::Recv(
        pid.clone(),
        vec![AnyMessage::Handshake(handshake::Message::Accept(version, data))],
    ));
    drain(b);
    pid
}

/// Confirm (echo as `Sent`) everything currently queued for the peer, so that the next pass starts from a
/// state in which every previous emission has been acknowledged.
fn confirm_all(b: &mut InitiatorBehavior, pid: &PeerId) {
    for m in sends_to(pid, drain(b)) {
        b.handle_io(InterfaceEvent::Sent(pid.clone(), m));
    }
}

macro_rules! replay {
    ($proto:ident, $variant:ident, $msgs:expr) => {{
        let mut st = proto::$proto::State::default();
        let mut n = 0;
        for m in $msgs.iter() {
            if let AnyMessage::$variant(m) = m {
                n += 1;
                st = st.apply(m).unwrap_or_else(|e| {
                    panic!("emission #{} ({:?}) is not permitted in state {:?}: {:?}", n, m, st, e)
                });
            }
        }
        n
    }};
}

#[test]
fn keepalive_twice_before_sent() {
    let mut b = InitiatorBehavior::default();
    let pid = initialized_peer(&mut b, 13);
    b.execute(InitiatorCommand::Housekeeping);
    confirm_all(&mut b, &pid);
    // answer the keep-alive of the set-up pass so the protocol is back in the client's hands
    b.handle_io(InterfaceEvent::Recv(
        pid.clone(),
        vec![AnyMessage::KeepAlive(proto::keepalive::Message::ResponseKeepAlive(u16::MAX))],
    ));
    drain(&mut b);
    b.execute(InitiatorCommand::Housekeeping);
    b.execute(InitiatorCommand::Housekeeping);
    let msgs = sends_to(&pid, drain(&mut b));
    assert!(replay!(keepalive, KeepAlive, msgs) >= 1);
}

#[test]
fn blockfetch_two_requests_before_sent() {
    let mut b = InitiatorBehavior::default();
    let pid = initialized_peer(&mut b, 13);
    b.execute(InitiatorCommand::RequestBlocks((Point::Origin, Point::new(1, vec![1; 32]))));
    b.execute(InitiatorCommand::RequestBlocks((Point::Origin, Point::new(2, vec![2; 32]))));
    b.execute(InitiatorCommand::Housekeeping);
    b.execute(InitiatorCommand::Housekeeping);
    let msgs = sends_to(&pid, drain(&mut b));
    assert!(replay!(blockfetch, BlockFetch, msgs) >= 1);
}

#[test]
fn chainsync_find_intersect_twice_before_sent() {
    let mut b = InitiatorBehavior::default();
    let pid = initialized_peer(&mut b, 13);
    b.execute(InitiatorCommand::Housekeeping); // warm -> hot
    confirm_all(&mut b, &pid);
    b.execute(InitiatorCommand::StartSync(vec![Point::Origin]));
    b.execute(InitiatorCommand::Housekeeping);
    b.execute(InitiatorCommand::Housekeeping);
    let msgs = sends_to(&pid, drain(&mut b));
    let mut st = proto::chainsync::State::<proto::chainsync::HeaderContent>::default();
    let mut n = 0;
    for m in msgs.iter() {
        if let AnyMessage::ChainSync(m) = m {
            n += 1;
            st = st
                .apply(m)
                .unwrap_or_else(|e| panic!("emission #{} ({:?}) is not permitted: {:?}", n, m, e));
        }
    }
    assert!(n >= 1);
}

#[test]
fn chainsync_request_next_twice_before_sent() {
    let mut b = InitiatorBehavior::default();
    let pid = initialized_peer(&mut b, 13);
    b.execute(InitiatorCommand::Housekeeping); // warm -> hot
    confirm_all(&mut b, &pid);
    b.execute(InitiatorCommand::StartSync(vec![Point::Origin]));
    b.execute(InitiatorCommand::Housekeeping);
    confirm_all(&mut b, &pid); // FindIntersect confirmed
    b.handle_io(InterfaceEvent::Recv(
        pid.clone(),
        vec![AnyMessage::ChainSync(proto::chainsync::Message::IntersectFound(
            Point::Origin,
            proto::chainsync::Tip(Point::Origin, 0),
        ))],
    ));
    drain(&mut b);
    // the consumer asks for the next header twice (e.g. a retry) before the first request is confirmed
    b.execute(InitiatorCommand::ContinueSync(pid.clone()));
    b.execute(InitiatorCommand::ContinueSync(pid.clone()));
    let msgs = sends_to(&pid, drain(&mut b));
    // responder view: Idle after the intersection
    let mut st = proto::chainsync::State::<proto::chainsync::HeaderContent>::default();
    st = st
        .apply(&proto::chainsync::Message::FindIntersect(vec![Point::Origin]))
        .unwrap();
    st = st
        .apply(&proto::chainsync::Message::IntersectFound(
            Point::Origin,
            proto::chainsync::Tip(Point::Origin, 0),
        ))
        .unwrap();
    let mut n = 0;
    for m in msgs.iter() {
        if let AnyMessage::ChainSync(m) = m {
            n += 1;
            st = st
                .apply(m)
                .unwrap_or_else(|e| panic!("emission #{} ({:?}) is not permitted: {:?}", n, m, e));
        }
    }
    assert!(n >= 1);
}

#[test]
fn peersharing_request_twice_before_sent() {
    let mut b = InitiatorBehavior::default();
    let pid = initialized_peer(&mut b, 13);
    b.execute(InitiatorCommand::Housekeeping);
    b.execute(InitiatorCommand::Housekeeping);
    let msgs = sends_to(&pid, drain(&mut b));
    assert!(replay!(peersharing, PeerSharing, msgs) >= 1);
}

#[test]
fn leios_notify_request_twice_before_sent() {
    let mut b = InitiatorBehavior::default();
    let pid = initialized_peer(&mut b, 15);
    b.execute(InitiatorCommand::Housekeeping);
    b.execute(InitiatorCommand::Housekeeping);
    let msgs = sends_to(&pid, drain(&mut b));
    assert!(replay!(leiosnotify, LeiosNotify, msgs) >= 1);
}

#[test]
fn leios_fetch_two_requests_before_sent() {
    let mut b = InitiatorBehavior::default();
    let pid = initialized_peer(&mut b, 15);
    b.execute(InitiatorCommand::FetchEb(pid.clone(), Point::new(7, vec![7; 32])));
    b.execute(InitiatorCommand::FetchEb(pid.clone(), Point::new(8, vec![8; 32])));
    b.execute(InitiatorCommand::Housekeeping);
    b.execute(InitiatorCommand::Housekeeping);
    let msgs = sends_to(&pid, drain(&mut b));
    assert!(replay!(leiosfetch, LeiosFetch, msgs) >= 1);
}
