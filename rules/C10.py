"""C10 — Blake2b hashing, hash values and nonce derivations (structural clauses only; digests are never computed).

 (a) R-CTORS  non-relaxed `Hash::<N>::decode`: evaluated over scenarios (byte-string length n vs BYTES, decoder ok/failed) every
              feasible return path yields Ok exactly when the decoder succeeded and n == BYTES (any spelling of the length test,
              or a `TryFrom<&[u8]> for [u8; N]` conversion), Err otherwise; the array given to the Hash is filled from the decoded
              bytes.  `FromStr` decodes hex into a fixed `[u8; BYTES]` buffer (`hex::decode_to_slice` / `FromHex for [u8; N]`), returns
              Ok only on success, with that buffer.  serde's visitor builds a Hash only through `FromStr`.
 (b) R-ORDER  every `Hasher::<N>::{hash, hash_tagged, hash_cbor, hash_tagged_cbor}` (N = 160/224/256) is read as a *digest term*
              H_N(feed, feed, ...) from its tabulated paths — which object is finalised, and the ordered feeds of that object
              (`input(bytes)` / `minicbor::encode(value, &mut hasher)`), operands by provenance — and compared with
              spec/blake2b_compositions.json (tag byte first, then the data; CBOR streamed into the hasher).
              The primitives are checked once: `new` builds the Blake2b context with digest length N/8, `finalize` reads the
              result into an N/8-byte buffer and returns it, `input` / `Write::write_all` forward their bytes to the context.
 (c) R-PROV   `generate_rolling_nonce` and `generate_epoch_nonce` as digest terms: H256(prev || H256(vrf)),
              H256(nc || nh) and, with extra entropy, H256(H256(nc || nh) || entropy) — operand ORDER by provenance.
Helper functions are summarised by their own digest term, so extraction / `let` hoisting / renamed locals do not matter."""
import json
import os
import re
from pv import flow
from pv.program import Program
from pv.report import Result, finish
from pv.tabulate import tabulate, BudgetExceeded
from pv.mir import sym_str, sym_walk
from pv.facts import VERIF
from pv.x_misc import Ev, Unknown, feasible, sg, strip, subst_params, where, contains_call

HASHER = "pallas_crypto::hash::hasher::Hasher"
HASH = "pallas_crypto::hash::hash::Hash"
RX_NEW = re.compile(r"^pallas_crypto::hash::hasher::Hasher::<(\d+|BITS)>::new$|^<pallas_crypto::hash::hasher::Hasher<(\d+)> as core::default::Default>::default$")
RX_FIN = re.compile(r"^pallas_crypto::hash::hasher::Hasher::<(\d+)>::finalize$")
TRYFROM = r"TryFrom::try_from$|TryInto::try_into$|^core::array::try_from$|::try_into$"
RX_INPUT = re.compile(r"^pallas_crypto::hash::hasher::Hasher::<\w+>::input$")


# ------------------------------------------------------------------ digest terms
class Digests:
    def __init__(self, P):
        self.P = P
        self.cache = {}
        self.active = set()

    def summary(self, F):
        """{case label: set(terms)} over the returning paths of F."""
        if F.path in self.cache:
            return self.cache[F.path]
        if F.path in self.active:
            return {"-": {("?", "recursion")}}
        self.active.add(F.path)
        try:
            out = {}
            try:
                paths = tabulate(F, self.P, 1024)
            except BudgetExceeded:
                paths = None
            if paths is None:
                out = {"-": {("?", "path budget")}}
            else:
                for p in paths:
                    if p.end == "loop":
                        if any(RX_INPUT.search(c) or RX_FIN.search(c) for c, a, b in p.calls):
                            out.setdefault("-", set()).add(("?", "hasher used inside a loop"))
                        continue
                    if p.end != "return":
                        continue
                    label = "-"
                    for c in p.conds:
                        d = c[0]
                        if d[0] == "discr":
                            s = strip(d[1])
                            if s[0] == "param" and (d[2] or "").startswith("core::option::Option"):
                                is_some = (c[1] == ("eq", 1)) or (c[1][0] == "ne" and 0 in [int(x) for x in c[1][1]])
                                label = "p%d=%s" % (s[1], "Some" if is_some else "None")
                    out.setdefault(label, set()).add(self.value(p.ret, p, F))
        finally:
            self.active.discard(F.path)
        self.cache[F.path] = out
        return out

    def value(self, sym, p, F):
        s = strip(sym)
        if s[0] == "param":
            return "p%d" % s[1]
        if s[0] == "field" and s[1][0] == "downcast" and strip(s[1][1])[0] == "param" and s[1][2] == "Some":
            return "p%d" % strip(s[1][1])[1]
        if s[0] == "agg" and s[1] == "array" and len(s[3]) == 1:
            return self.value(s[3][0], p, F)
        if s[0] == "call":
            m = RX_FIN.search(s[1])
            if m:
                obj = strip(s[2][0], None)
                return self.digest(obj, int(m.group(1)), p, F, s[3])
            g = self.P.fns.get(s[1])
            if g is not None and not RX_NEW.search(s[1]):
                sm = self.summary(g)
                if set(sm) == {"-"} and len(sm["-"]) == 1:
                    t = next(iter(sm["-"]))
                    args = [self.value(a, p, F) for a in s[2]]
                    return _subst_term(t, args)
                return ("?", "helper %s has several digest cases" % g.path)
        return ("?", sym_str(s, 80))

    def digest(self, obj, bits, p, F, fin_bb):
        if not (obj[0] == "call" and RX_NEW.search(obj[1])):
            return ("?", "finalised object is not a fresh Hasher: %s" % sym_str(obj, 60))
        mb = RX_NEW.search(obj[1])
        nb = mb.group(1) or mb.group(2)
        if nb != "BITS" and int(nb) != bits:
            return ("?", "Hasher<%s> finalised as %d bits" % (nb, bits))
        feeds = []
        for callee, args, bb in p.calls:
            if bb == fin_bb and RX_FIN.search(callee):
                break
            touches = [i for i, a in enumerate(args) if strip(a, None) == obj]
            if not touches:
                continue
            if RX_INPUT.search(callee) and touches == [0] and len(args) == 2:
                feeds.append(("bytes", self.value(args[1], p, F)))
            elif sg(callee) == "minicbor::encode" and touches == [1]:
                feeds.append(("cbor", self.value(args[0], p, F)))
            elif RX_FIN.search(callee):
                continue
            else:
                feeds.append(("?", "hasher passed to %s" % sg(callee)))
        return ("H", bits, tuple(feeds))


def _subst_term(t, args):
    if isinstance(t, str):
        m = re.match(r"^p(\d+)$", t)
        if m and int(m.group(1)) - 1 < len(args):
            return args[int(m.group(1)) - 1]
        return t
    if isinstance(t, tuple):
        return tuple(_subst_term(x, args) for x in t)
    return t


def spec_term(j, bits):
    if isinstance(j, str):
        return j
    b = bits if j["bits"] == "N" else int(j["bits"])
    feeds = []
    for f in j["feeds"]:
        (k, v), = f.items()
        feeds.append((k, spec_term(v, bits)))
    return ("H", b, tuple(feeds))


def term_str(t):
    if isinstance(t, str):
        return t
    if t[0] == "H":
        return "Blake2b-%d(%s)" % (t[1], " || ".join(("cbor(%s)" % term_str(v)) if k == "cbor" else (term_str(v) if k == "bytes" else "<%s>" % (v,)) for k, v in t[2]))
    return "<unrecognised: %s>" % (t[1],)


def compare_digest(res, D, F, want_cases, bits, key, what):
    got = D.summary(F)
    ok = True
    for label, wj in want_cases.items():
        want = spec_term(wj, bits)
        terms = got.get(label)
        if terms is None and label == "-" and len(got) == 1:
            terms = next(iter(got.values()))
        if not terms:
            res.violation(key + ":" + label + "=>missing", "%s has no returning path for case %s" % (F.path, label), where=where(F), rule="R-ORDER")
            ok = False
            continue
        for t in terms:
            if t != want:
                ok = False
                res.violation("%s:%s=>%s" % (key, label, re.sub(r"[^A-Za-z0-9_|()<> -]", "", term_str(t))[:80]),
                              "%s%s computes %s; %s is %s" % (F.path, "" if label == "-" else " [%s]" % label, term_str(t), what, term_str(want)),
                              where=where(F), rule="R-ORDER")
    extra = set(got) - set(want_cases) - ({"-"} if len(got) == 1 else set())
    if extra and not (set(want_cases) == {"-"} and False):
        for e in sorted(extra):
            if any(t != spec_term(w, bits) for w in want_cases.values() for t in got[e]) and set(want_cases) == {"-"}:
                ok = False
                res.violation("%s:%s=>unexpected-case" % (key, e), "%s distinguishes case %s, which the reference composition does not" % (F.path, e), where=where(F), rule="R-ORDER")
    if ok:
        res.ok(key, "R-ORDER", "; ".join("%s: %s" % (l, term_str(spec_term(w, bits))) for l, w in want_cases.items()))
        res.sample({F.path.split("pallas_crypto::")[-1]: {l: term_str(spec_term(w, bits)) for l, w in want_cases.items()}})


# ------------------------------------------------------------------ (b) primitives
def check_primitives(res, P, bits_list):
    ev = Ev(lambda s: (_ for _ in ()).throw(Unknown(s)))
    for n in bits_list:
        f = P.one(r"^pallas_crypto::hash::hasher::Hasher::<%d>::new$" % n)
        k = "hasher<%d>:new" % n
        calls = [(c, a, b) for p in tabulate(f, P, 64) if p.end == "return" for c, a, b in p.calls if sg(c).endswith("blake2b::Blake2b::new")]
        try:
            sizes = {ev(a[0]) for c, a, b in calls}
        except Unknown:
            sizes = {"?"}
        if sizes == {n // 8}:
            res.ok(k, "R-TABLE", "Blake2b::new(%d)" % (n // 8))
        else:
            res.violation(k + "=>%s" % "|".join(str(s) for s in sorted(sizes, key=str)), "Hasher::<%d>::new builds the Blake2b context with digest length %s, not %d bytes" % (n, sorted(sizes, key=str), n // 8),
                          where=where(f), rule="R-TABLE")
        g = P.one(r"^pallas_crypto::hash::hasher::Hasher::<%d>::finalize$" % n)
        k = "hasher<%d>:finalize" % n
        okf, why = False, "no call of Digest::result on the context"
        for p in tabulate(g, P, 64):
            if p.end != "return":
                continue
            rs = [(c, a, b) for c, a, b in p.calls if sg(c).endswith("cryptoxide::digest::Digest::result") or sg(c).endswith("Blake2b::result")]
            if len(rs) != 1:
                okf, why = False, "%d calls of Digest::result" % len(rs)
                break
            ctx = flow.origin_chain(rs[0][1][0])
            buf = strip(rs[0][1][1], None)
            ret = strip(p.ret, None)
            ret_arr = strip(ret[2][0], None) if ret[0] == "call" and sg(ret[1]).endswith("hash::hash::Hash::new") and ret[2] else (
                strip(ret[3][0], None) if ret[0] == "agg" and str(ret[1]) == HASH else None)
            if ctx != (("param", 1), ["0"]):
                okf, why = False, "Digest::result is not taken from the hasher's own context"
            elif buf[0] != "repeat" or str(buf[2]) != str(n // 8):
                okf, why = False, "the result buffer is not a fresh [0; %d] array (%s)" % (n // 8, sym_str(buf, 60))
            elif ret_arr != buf:
                okf, why = False, "the returned Hash is not built from the buffer the digest was written to"
            else:
                okf, why = True, "Digest::result(&mut self.0, &mut [0; %d]) -> Hash::new(buffer)" % (n // 8)
        if okf:
            res.ok(k, "R-PROV", why)
        else:
            res.violation(k, "Hasher::<%d>::finalize: %s" % (n, why), where=where(g), rule="R-PROV")
    f = P.one(r"^pallas_crypto::hash::hasher::Hasher::<BITS>::input$")
    okc = False
    for p in tabulate(f, P, 64):
        if p.end == "return":
            ds = [(c, a) for c, a, b in p.calls if sg(c).endswith("cryptoxide::digest::Digest::input") or sg(c).endswith("Blake2b::input")]
            okc = len(ds) == 1 and flow.origin_chain(ds[0][1][0]) == (("param", 1), ["0"]) and flow.origin_chain(ds[0][1][1]) == (("param", 2), [])
            if not okc:
                break
    if okc:
        res.ok("hasher:input", "R-PROV", "input(bytes) forwards exactly its bytes to the Blake2b context, once")
    else:
        res.violation("hasher:input", "Hasher::input does not forward its `bytes` argument once to the Blake2b context", where=where(f), rule="R-PROV")
    w = P.one(r"^<&mut pallas_crypto::hash::hasher::Hasher<BITS> as minicbor::encode::write::Write>::write_all$")
    okw = False
    for p in tabulate(w, P, 64):
        if p.end == "return":
            ds = [(c, a) for c, a, b in p.calls if RX_INPUT.search(c)]
            direct = [(c, a) for c, a, b in p.calls if sg(c).endswith("cryptoxide::digest::Digest::input")]
            okw = (len(ds) == 1 and not direct and flow.origin_chain(ds[0][1][0]) == (("param", 1), []) and flow.origin_chain(ds[0][1][1]) == (("param", 2), [])) or \
                  (len(direct) == 1 and not ds and flow.origin_chain(direct[0][1][1]) == (("param", 2), []))
            okw = okw and p.ret is not None and p.ret[0] == "agg" and p.ret[2] == "Ok"
            if not okw:
                break
    if okw:
        res.ok("hasher:write_all", "R-PROV", "the minicbor writer feeds every buffer to the hasher and reports Ok")
    else:
        res.violation("hasher:write_all", "`Write for &mut Hasher`::write_all does not feed its buffer exactly once to the hasher (or does not return Ok)", where=where(w), rule="R-PROV")


# ------------------------------------------------------------------ (a) decode / from_str
def result_kind(sym, ev):
    s = sym
    if s is None:
        return "?"
    if s[0] == "agg" and str(s[1]) == "core::result::Result":
        return s[2]
    if s[0] == "call":
        n = sg(s[1])
        if n.endswith("FromResidual::from_residual"):
            return "Err"
        if re.search(r"core::result::Result::(map|map_err|inspect|inspect_err)$", n) and s[2]:
            try:
                v = ev(s[2][0])
                if isinstance(v, tuple) and v[0] == "variant":
                    return "Ok" if v[1] == 0 else "Err"
            except Unknown:
                pass
            return result_kind(s[2][0], ev)
        try:
            v = ev(s)
            if isinstance(v, tuple) and v[0] == "variant":
                return "Ok" if v[1] == 0 else "Err"
        except Unknown:
            pass
    return "?"


def check_decode(res, P):
    f = P.one(r"^<pallas_crypto::hash::hash::Hash<BYTES> as minicbor::decode::Decode<'a, C>>::decode$")
    where_f = where(f)
    paths = [p for p in tabulate(f, P, 1024) if p.end in ("return", "loop")]
    if any(p.end == "loop" for p in paths):
        res.violation("decode:loop", "Hash::decode contains a loop; the length table cannot be read off", where=where_f, rule="R-CTORS")
        return
    B = 28
    is_bytes = lambda s: bool(contains_call(s, r"minicbor::decode::decoder::Decoder::bytes$"))
    bad = set()
    n_cells = 0
    for dec_ok in (True, False):
        for n in (0, 1, 27, 28, 29, 32, 64):
            def leaf(s, n=n, dec_ok=dec_ok):
                if s[0] == "constsym" and s[1] == "BYTES":
                    return B
                if s[0] == "call":
                    nm = sg(s[1])
                    if nm.endswith("Try::branch") and s[2] and is_bytes(s[2][0]) and strip(s[2][0], None)[0] == "call" and sg(strip(s[2][0], None)[1]).endswith("Decoder::bytes"):
                        return ("variant", 0 if dec_ok else 1)
                    if nm.endswith("Decoder::bytes"):
                        return ("variant", 0 if dec_ok else 1)
                    if re.search(r"core::slice::len$|::len$", nm) and s[2] and is_bytes(s[2][0]):
                        return n
                    if re.search(TRYFROM, nm) and s[2] and is_bytes(s[2][0]):
                        return ("variant", 0 if n == B else 1)
                raise Unknown(s)
            ev = Ev(leaf, prog=P)
            live = []
            for p in paths:
                fz = feasible(p, ev)
                if fz is None:
                    k = "decode:condition"
                    if k not in bad:
                        bad.add(k)
                        res.violation(k, "Hash::decode branches on something other than the decoder result and the byte-string length: %s" %
                                      "; ".join(sym_str(c[0], 70) for c in p.conds), where=where_f, rule="R-CTORS")
                elif fz:
                    live.append(p)
            for p in live:
                n_cells += 1
                kind = result_kind(p.ret, ev)
                want = "Ok" if (dec_ok and n == B) else "Err"
                if kind != want:
                    if kind == "Ok":
                        k, msg = "decode:accepts-wrong-length", "Hash::<%d>::decode returns Ok for a byte string of length %d%s" % (B, n, "" if dec_ok else " / after a decoder error")
                    elif kind == "Err":
                        k, msg = "decode:rejects-right-length", "Hash::<%d>::decode returns Err for a byte string of exactly %d bytes" % (B, n)
                    else:
                        k, msg = "decode:unrecognised-return", "Hash::decode returns %s, which is neither Ok(..) nor an error in a recognisable form" % sym_str(p.ret, 80)
                    if k not in bad:
                        bad.add(k)
                        res.violation(k, msg, where=where_f, rule="R-CTORS")
    res.count("decode (scenario, path) cells", n_cells)
    if not bad:
        res.ok("decode:length-table", "R-CTORS", "Ok iff the decoder succeeded and len == BYTES (lengths 0,1,27,28,29,32,64 against BYTES=28)")
    # provenance of the array
    okp, why = False, "no Hash is constructed"
    for bi, t in f.calls():
        if sg(t.get("f") or "") .endswith("hash::hash::Hash::new"):
            arr = f.sym_operand(t["args"][0])
            okp, why = _array_from_bytes(f, arr, bi, is_bytes)
    for bi, si, rv in flow.aggregates(f, "^" + re.escape(HASH) + "$"):
        okp, why = _array_from_bytes(f, f.sym_operand(rv["fields"][0]), bi, is_bytes)
    for bi, t in f.calls():
        # `try_from(bytes).map(Hash::new)`: the constructor is passed as a function value
        syms = [f.sym_operand(a) for a in t["args"]]
        if any(s[0] == "fnconst" and re.search(r"hash::hash::Hash::<BYTES>::new$|Hash<BYTES> as core::convert::From<\[u8; BYTES\]>>::from$", s[1]) for s in syms) and \
                any(contains_call(s, TRYFROM) and is_bytes(s) for s in syms):
            okp, why = True, "array converted from the decoded bytes with TryFrom and mapped through Hash::new"
    if okp:
        res.ok("decode:bytes-provenance", "R-PROV", why)
    else:
        res.violation("decode:bytes-provenance", "Hash::decode: " + why, where=where_f, rule="R-PROV")


def _array_from_bytes(f, arr, at_bb, is_bytes):
    a = strip(arr, None)
    if contains_call(a, TRYFROM) and is_bytes(a):
        return True, "array converted from the decoded bytes with TryFrom"
    if a[0] == "local":
        for bi, t in f.calls():
            if re.search(r"::(copy_from_slice|clone_from_slice)$", sg(t.get("f") or "")):
                dst = flow.origin_chain(f.sym_operand(t["args"][0]))
                if dst == (("local", a[1]), []) and is_bytes(f.sym_operand(t["args"][1])) and flow.dominates(f, bi, at_bb):
                    if strip(f.sym_operand(t["args"][1]), None)[0] in ("field", "call", "downcast"):
                        return True, "array filled by copy_from_slice from the decoded bytes"
                    return False, "the array is filled from a sub-slice / transformation of the decoded bytes"
    return False, "the array given to the Hash does not originate from the decoded byte string (%s)" % sym_str(a, 60)


def check_from_str(res, P):
    f = P.one(r"^<pallas_crypto::hash::hash::Hash<BYTES> as core::str::traits::FromStr>::from_str$")
    paths = [p for p in tabulate(f, P, 256) if p.end in ("return", "loop")]
    is_hex = lambda s: bool(contains_call(s, r"^hex::decode_to_slice$|hex::FromHex::from_hex$"))
    bad = set()
    for okv in (True, False):
        def leaf(s, okv=okv):
            if s[0] == "call" and (sg(s[1]).endswith("Try::branch") or sg(s[1]) in ("hex::decode_to_slice",) or sg(s[1]).endswith("FromHex::from_hex")) and is_hex(s):
                return ("variant", 0 if okv else 1)
            raise Unknown(s)
        ev = Ev(leaf, prog=P)
        for p in paths:
            fz = feasible(p, ev)
            if fz is None:
                bad.add("from_str:condition")
            elif fz and p.end == "return":
                k = result_kind(p.ret, ev)
                if k != ("Ok" if okv else "Err"):
                    bad.add("from_str:%s-on-%s" % (k, "success" if okv else "hex-error"))
    # fixed-size buffer
    fixed = False
    for bi, t in f.calls():
        n = sg(t.get("f") or "")
        if n == "hex::decode_to_slice":
            dst = flow.origin_chain(f.sym_operand(t["args"][1]))
            src = flow.origin_chain(f.sym_operand(t["args"][0]))
            if dst and dst[0][0] == "local" and re.match(r"^\[u8; BYTES\]$", f.local_ty(dst[0][1])) and src == (("param", 1), []):
                # the buffer is what the Hash is built from
                for bj, u in f.calls():
                    if sg(u.get("f") or "").endswith("hash::hash::Hash::new") and flow.origin_chain(f.sym_operand(u["args"][0])) == (dst[0], []) and flow.dominates(f, bi, bj):
                        fixed = True
                for bj, sj, rv in flow.aggregates(f, "^" + re.escape(HASH) + "$"):
                    if flow.origin_chain(f.sym_operand(rv["fields"][0])) == (dst[0], []) and flow.dominates(f, bi, bj):
                        fixed = True
        if n.endswith("FromHex::from_hex") and any(re.match(r"^\[u8; BYTES\]$", x) for x in t.get("targs", []) + [t.get("selfty") or ""]):
            fixed = True
    if not fixed:
        bad.add("from_str:not-fixed-size")
    if bad:
        for k in sorted(bad):
            res.violation(k, "Hash::from_str must decode the hex text of its argument into a fixed [u8; BYTES] buffer, return Ok(Hash(buffer)) when that succeeded and the "
                          "hex error otherwise (%s)" % k.split(":", 1)[1], where=where(f), rule="R-CTORS")
    else:
        res.ok("from_str:fixed-buffer", "R-CTORS", "hex::decode_to_slice(s, &mut [0; BYTES]) ? -> Hash::new(buffer)")
    # serde: only through FromStr
    n_ser = 0
    for g in P.fns.values():
        if not g.path.startswith("pallas_crypto::hash::serde::") and "pallas_crypto::hash::serde::" not in g.path:
            continue
        if "::tests::" in g.path:
            continue
        n_ser += 1
        direct = [bi for bi, t in g.calls() if re.search(r"hash::hash::Hash::new$|Hash as core::convert::From", sg(t.get("f") or ""))] + \
                 [bi for bi, si, rv in flow.aggregates(g, "^" + re.escape(HASH) + "$")]
        if direct:
            res.violation("serde:%s:direct-construction" % g.name, "%s builds a Hash without going through FromStr (length-checked hex)" % g.path, where=where(g), rule="R-CTORS")
    v = P.find(r"HashVisitor<BYTES> as serde_core::de::Visitor<'_>>::visit_str$|HashVisitor<BYTES> as serde::de::Visitor<'_>>::visit_str$")
    if len(v) == 1 and flow.calls_matching(v[0], r"Hash as core::str::traits::FromStr::from_str$|core::str::parse$"):
        res.ok("serde:visit_str", "R-CTORS", "deserialisation goes through Hash::from_str")
    else:
        res.violation("serde:visit_str", "the serde visitor of Hash no longer builds the value through Hash::from_str", rule="R-CTORS")


def run(tier):
    res = Result("C10", tier, level="other")
    P = Program(crates=["pallas_crypto"])
    spec = json.load(open(os.path.join(VERIF, "spec", "blake2b_compositions.json")))
    check_decode(res, P)
    check_from_str(res, P)
    bits_list = spec["instantiations"]
    check_primitives(res, P, bits_list)
    D = Digests(P)
    n = 0
    for bits in bits_list:
        for name, cases in spec["hasher"].items():
            f = P.one(r"^pallas_crypto::hash::hasher::Hasher::<%d>::%s$" % (bits, name))
            compare_digest(res, D, f, cases, bits, "hasher<%d>:%s" % (bits, name), "the documented composition")
            n += 1
    for name, cases in spec["nonce"].items():
        f = P.one(r"^pallas_crypto::nonce::%s$" % name)
        compare_digest(res, D, f, cases, 256, "nonce:%s" % name, "the Praos composition")
        n += 1
    res.floor("digest compositions compared", n, 10)
    res.trusted += ["spec/blake2b_compositions.json", "cryptoxide Blake2b (digest arithmetic, split-independence of Digest::input)", "hex crate", "minicbor::encode streams exactly the CBOR encoding to its writer"]
    res.assumptions += ["the `relaxed` feature configuration of Hash::decode (truncating) is not analysed: the property names the non-relaxed decode"]
    return finish(res,
                  explanation="Structural clauses of C10: (a) Hash::decode yields Ok exactly for a successfully decoded byte string of length BYTES (evaluated over "
                              "length scenarios, any spelling of the test) and fills the hash from those bytes; FromStr goes through a fixed-size hex buffer; serde goes "
                              "through FromStr. (b) each hash_* function of Hasher<160|224|256> and (c) the two nonce functions are read as digest terms "
                              "(which hasher object is finalised and the ordered, provenance-resolved feeds) and compared with spec/blake2b_compositions.json; "
                              "the Blake2b context is created with N/8 bytes and finalised into an N/8-byte buffer. NOT decided: digest values (cryptoxide), "
                              "independence of how input is split, the relaxed decode.",
                  rule_text="R-CTORS(Hash::decode, FromStr, serde) + R-ORDER/R-PROV(digest terms of hash_*, nonce) + R-TABLE(digest size)",
                  trusted_base=["rustc MIR", "spec/blake2b_compositions.json", "cryptoxide", "hex", "minicbor"])
