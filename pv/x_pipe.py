"""Shared helpers for the phase-1 pipeline rules (C35, C37, C38): R-PIPE, R-LAZY and result-flow classification.

Everything here is stated over resolved callees, ADT variants, types and CFG facts — never over function names, local names or
source text.  A *rule function* is identified by the error variants it can make the pipeline return, its name is only a label.

Vocabulary
  error key      "<Era>::<Variant>", e.g. "PostAlonzo::TxInsEmpty" — a variant of one of the per-era error enums wrapped by
                 pallas_validate::utils::validation::ValidationError.
  direct(f)      error keys constructed in the body of f (closures written inside f included).
  propagated     the Result produced by a call reaches the caller's own return as an error whenever it is an Err: tail position,
                 `?`, `match`/`if let` whose Err side only leads to error returns, `map_err(..)?`, `is_err()` + error return.
                 `let _ =`, `.ok()`, an unused value, or an Err side that continues are *not* propagation.
  can(f)         error keys f can return: direct(f) plus can(g) of every callee g whose result is propagated in f (closures of f
                 are callees of the iterator consumer that receives them).
  always(f, V)   V in direct(f), or every path from the entry of f to an exit that may carry Ok passes through a propagated call
                 to some g with always(g, V).
  must1(f, V)    V in direct(f), or every such path passes through a propagated call to some g with V in can(g).
"""
import re

from .mir import op_place, pl_local, pl_proj, sym_walk
from .panic import strip_generics

ERA_ENUM = re.compile(r"^pallas_validate::utils::validation::(?!Validation)(\w+)Error$")
RESULT = "core::result::Result"

# Result -> Result combinators that keep an Err an Err (first argument is the receiver)
KEEP_ERR = re.compile(r"^core::result::Result::(map_err|map|and_then|inspect|inspect_err|or)$|"
                      r"^core::result::Result as core::ops::try_trait::Try::branch$|::Try::branch$|"
                      r"::FromResidual::from_residual$|from_residual$|^core::convert::Into::into$| as core::convert::From::from$")
TRY_BRANCH = re.compile(r"Try::branch$")
FROM_RESIDUAL = re.compile(r"from_residual$")
ADAPTER_TY = re.compile(r"^(core|std)::iter::adapters::|^(core|std)::iter::sources::|^itertools::")


def callee(t):
    return strip_generics(t.get("f") or t.get("g") or "<indirect>")


def where(f, bb=None):
    if bb is not None:
        t = f.blocks[bb]["term"]
        ln = (t.get("s") or [None])[0]
        if ln is None:
            for s in f.blocks[bb]["st"]:
                ln = s[3][0] if len(s) > 3 and s[3] else None
                if ln:
                    break
        if ln:
            return "%s:%s" % (f.file, ln)
    return "%s:%s" % (f.file, f.line)


# ------------------------------------------------------------------------------------------------- uses of a local

def local_uses(f, l):
    """Every use of local `l` as a whole value: [(kind, bb, extra)], kind in
    arg (moved/copied into a call, extra=arg index) | ref / refmut (borrowed, extra=dest local) | use (moved into another
    place, extra=dest place) | agg (stored into an aggregate, extra=dest local) | read (projection read / discriminant)."""
    out = []
    for bi in f.live_blocks():
        b = f.blocks[bi]
        for s in b["st"]:
            if s[0] != "a":
                continue
            rv = s[2]
            k = rv["k"]
            if k in ("use", "cast", "un", "repeat"):
                p = op_place(rv["x"])
                if p is not None and pl_local(p) == l:
                    out.append(("use" if not pl_proj(p) else "read", bi, s[1]))
            elif k in ("ref", "rawptr"):
                if pl_local(rv["p"]) == l:
                    out.append(("refmut" if rv.get("mut") else "ref", bi, pl_local(s[1])))
            elif k == "discr":
                if pl_local(rv["p"]) == l:
                    out.append(("read", bi, None))
            elif k == "bin":
                for o in (rv["l"], rv["r"]):
                    p = op_place(o)
                    if p is not None and pl_local(p) == l:
                        out.append(("read", bi, None))
            elif k == "agg":
                for o in rv["fields"]:
                    p = op_place(o)
                    if p is not None and pl_local(p) == l:
                        out.append(("agg", bi, pl_local(s[1])))
        t = b["term"]
        if t["k"] in ("call", "tailcall"):
            for i, a in enumerate(t["args"]):
                p = op_place(a)
                if p is not None and pl_local(p) == l:
                    out.append(("arg" if not pl_proj(p) else "read", bi, i))
        elif t["k"] == "switch":
            p = op_place(t["d"])
            if p is not None and pl_local(p) == l:
                out.append(("read", bi, None))
    return out


# ------------------------------------------------------------------------------------------------- exits of a function

class Exits:
    """Return places of f (locals whose value becomes the return value) and the assignments that decide the outcome.

    rp        set of locals: _0 and every local moved whole into a member of rp
    reject    blocks holding an assignment of a *definite rejection* to a member of rp: Err(..) aggregate, the residual of a
              `?`, `false` for a bool-returning predicate
    maybe_ok  blocks holding any other non-transfer assignment to a member of rp (Ok(..), a call result, a copied value)"""

    def __init__(self, f):
        self.f = f
        # candidate return places: _0 and locals moved whole into one
        cand = {0}
        transfers = {}              # local -> [(bb, si)] of `rp-member = move local`
        changed = True
        while changed:
            changed = False
            for bi, si, s in f.statements():
                if s[0] == "a" and isinstance(s[1], int) and s[1] in cand and s[2]["k"] == "use":
                    p = op_place(s[2]["x"])
                    if p is not None and isinstance(p, int) and p > f.argc:
                        if (bi, si) not in transfers.setdefault(p, []):
                            transfers[p].append((bi, si))
                        if p not in cand:
                            cand.add(p)
                            changed = True
        rets = set(f.return_blocks())
        # a candidate is a return place only if each of its definitions can reach a return only through one of its transfers
        # (`let r = f(); if r.is_err() { return r }` does NOT make r a return place: on the other branch r is dropped)
        rp = {0}
        partial = set()
        for l in sorted(cand - {0}):
            tb = {b for b, _ in transfers.get(l, [])}
            captured = True
            for d in f.defs().get(l, []):
                db = d[0]
                if db in tb:
                    continue
                free = f.reach_from(db, avoid=tb)
                if free & rets:
                    captured = False
                    break
            if captured:
                rp.add(l)
            else:
                partial.add(l)
        self.rp = rp
        self.partial = partial
        self.reject = set()
        self.maybe_ok = set()
        self.reject_pos = set()     # (bb, statement index); index len(st) = the block's call terminator
        self.ok_pos = set()
        self.ok_sites = []          # (bb, description) of maybe-ok assignments
        bool_ret = f.local_ty(0) == "bool"
        for bi, si, s in f.statements():
            if s[0] != "a" or pl_local(s[1]) not in rp:
                continue
            if not isinstance(s[1], int):
                continue                                   # partial write into the return place (field of a tuple, ...)
            rv = s[2]
            if rv["k"] == "use":
                p = op_place(rv["x"])
                if p is not None and isinstance(p, int) and p in rp:
                    continue                               # transfer between return places
                if p is not None and isinstance(p, int) and p in partial:
                    # conditional hand-over of a Result held in a local: an error return when it sits on the Err side of a
                    # test of that very Result, otherwise an exit that may carry Ok
                    if self._on_err_side(p, bi):
                        self.reject.add(bi)
                        self.reject_pos.add((bi, si))
                    else:
                        self.maybe_ok.add(bi)
                        self.ok_pos.add((bi, si))
                        self.ok_sites.append((bi, "move"))
                    continue
                c = rv["x"].get("k")
                if bool_ret and c is not None and "v" in c and int(c["v"]) == 0:
                    self.reject.add(bi)
                    self.reject_pos.add((bi, si))
                    continue
            if rv["k"] == "agg" and rv.get("ak") == "adt" and rv.get("adt") == RESULT and rv.get("variant") == "Err":
                self.reject.add(bi)
                self.reject_pos.add((bi, si))
                continue
            self.maybe_ok.add(bi)
            self.ok_pos.add((bi, si))
            self.ok_sites.append((bi, "assign"))
        for bi, t in f.calls():
            if pl_local(t["dest"]) in rp and isinstance(t["dest"], int):
                n = len(f.blocks[bi]["st"])
                if FROM_RESIDUAL.search(callee(t)):
                    self.reject.add(bi)
                    self.reject_pos.add((bi, n))
                else:
                    self.maybe_ok.add(bi)
                    self.ok_pos.add((bi, n))
                    self.ok_sites.append((bi, "call"))

    def _on_err_side(self, local, block):
        """Is `block` only reachable through the Err side of a test of the Result held in `local`?"""
        f = self.f
        dom = f.dominators().get(block, ())
        for d in f.defs().get(local, []):
            if d[2] != "call":
                continue
            for sb, tgt, how in result_tests(f, d[0]):
                if tgt is not None and (tgt == block or tgt in dom) and f.pred(tgt) == [sb]:
                    return True
        return False

    def rejects_from(self, start):
        """Every path from block `start` to a return passes through a definite rejection and none reaches an exit that may
        carry Ok (so control that arrives at `start` always ends in an error / `false`)."""
        f = self.f
        region = f.reach_from(start) | {start}
        if region & self.maybe_ok:
            return False
        rets = set(f.return_blocks())
        if not (region & rets):
            return True                                    # diverges (panic / unreachable)
        if start in self.reject:
            return True
        free = f.reach_from(start, avoid=self.reject) | {start}
        return not (free & rets)


_SAME_TRUTH = re.compile(r"^core::bool::then_some$|^core::bool::then$|bool::then_some$|bool::then$|"
                         r"^core::option::Option::(ok_or|ok_or_else|map|as_ref|as_mut|as_deref|cloned|copied|inspect|is_some|filter_never)$|"
                         r"^core::result::Result::(map|map_err|as_ref|inspect|inspect_err|ok|is_ok)$|Try::branch$")
_NEG_TRUTH = re.compile(r"^core::option::Option::is_none$|^core::result::Result::is_err$")


def _discr_of(ty, truth):
    ty = re.sub(r"^&(mut )?", "", ty)
    if ty.startswith("core::option::Option<"):
        return 1 if truth else 0
    if ty.startswith("core::result::Result<") or ty.startswith("core::ops::control_flow::ControlFlow<"):
        return 0 if truth else 1
    return None


def bool_flow(f, bb, si, env, avoid=(), stop_at_reject=True):
    """Path-sensitive walk from statement position (bb, si) with known facts `env`.
    Keys: a local, or ("some", local) for the payload of an Option local.  Values: True/False — the value of a bool, or
    "is Some / is Ok / is Continue" for Option / Result / ControlFlow locals.  Facts are propagated through copies, `!`, refs,
    Some/None/Ok/Err aggregates, discriminant reads and the truth-preserving std calls (bool::then_some, Option::ok_or / map,
    Result::map_err, `?`, is_some / is_ok / is_none / is_err); a switch on a known value follows only the feasible edge, so
    `let ok = a && b; if !ok {..}`, `ok.then_some(()).ok_or(e)` and `match v { true => .. }` are all read alike.
    -> {"ok": first (bb, si) of an assignment that may carry Ok reached (None if none), "ret": a return was reached without passing
        a definite rejection, "ret_vals": values of the return place at those returns, "blocks", "positions"}"""
    ex = exits(f)
    avoid = set(avoid)
    seen = set()
    blocks = set()
    positions = set()
    out = {"ok": None, "ret": False, "blocks": blocks, "positions": positions, "ret_vals": set()}
    work = [(bb, si, frozenset(env.items()))]

    def val_of_operand(o, e):
        c = o.get("k")
        if c is not None:
            if c.get("ty") == "bool" and "v" in c:
                return bool(int(c["v"]))
            return None
        p = op_place(o)
        if p is None:
            return None
        if isinstance(p, int):
            return e.get(p)
        proj = pl_proj(p)
        kinds = [x[0] for x in proj]
        if kinds == ["downcast", "field"] and proj[0][2] == "Some":
            return e.get(("some", pl_local(p)))
        if kinds == ["deref"]:
            return e.get(pl_local(p))
        return None

    while work:
        b, i0, envt = work.pop()
        if (b, i0, envt) in seen or len(seen) > 20000:
            continue
        seen.add((b, i0, envt))
        if b in avoid and i0 == 0:
            continue
        e = dict(envt)
        blk = f.blocks[b]
        if blk.get("cleanup"):
            continue
        blocks.add(b)
        dead = False
        for i in range(i0, len(blk["st"])):
            st = blk["st"][i]
            positions.add((b, i))
            if (b, i) in ex.reject_pos and stop_at_reject:
                dead = True
                break
            if (b, i) in ex.ok_pos and out["ok"] is None:
                out["ok"] = (b, i)
            if st[0] != "a":
                continue
            dst = st[1]
            if not isinstance(dst, int):
                continue
            rv = st[2]
            val = None
            payload = None
            k = rv["k"]
            if k in ("use", "cast"):
                val = val_of_operand(rv["x"], e)
                p = op_place(rv["x"])
                if p is not None and isinstance(p, int):
                    payload = e.get(("some", p))
            elif k == "un" and rv.get("op") == "Not":
                v = val_of_operand(rv["x"], e)
                if isinstance(v, bool):
                    val = not v
            elif k in ("ref", "rawptr"):
                p = rv["p"]
                if isinstance(p, int):
                    val = e.get(p)
                    payload = e.get(("some", p))
                elif [x[0] for x in pl_proj(p)] == ["deref"]:
                    val = e.get(pl_local(p))
                    payload = e.get(("some", pl_local(p)))
            elif k == "discr":
                p = rv["p"]
                l = pl_local(p)
                if (isinstance(p, int) or [x[0] for x in pl_proj(p)] == ["deref"]) and isinstance(e.get(l), bool):
                    n = _discr_of(rv.get("pty", "") or f.local_ty(l), e[l])
                    if n is not None:
                        val = ("d", n)
            elif k == "agg" and rv.get("ak") == "adt" and rv.get("adt") in ("core::option::Option", RESULT):
                val = rv.get("variant") in ("Some", "Ok")
                if rv.get("variant") == "Some" and rv["fields"]:
                    payload = val_of_operand(rv["fields"][0], e)
            if val is None:
                e.pop(dst, None)
            else:
                e[dst] = val
            if payload is None:
                e.pop(("some", dst), None)
            else:
                e[("some", dst)] = payload
        if dead:
            continue
        t = blk["term"]
        n = len(blk["st"])
        k = t["k"]
        if k == "return":
            out["ret"] = True
            out["ret_vals"].add(e.get(0))
            continue
        if k in ("call", "tailcall"):
            positions.add((b, n))
            if (b, n) in ex.reject_pos and stop_at_reject:
                continue
            d = t["dest"]
            name = callee(t)
            val = None
            if t["args"]:
                a0 = val_of_operand(t["args"][0], e)
                if isinstance(a0, bool):
                    if _SAME_TRUTH.search(name):
                        val = a0
                    elif _NEG_TRUTH.search(name):
                        val = not a0
            if (b, n) in ex.ok_pos:
                if val is False and stop_at_reject and _discr_of(f.local_ty(pl_local(d)), True) is not None and f.local_ty(pl_local(d)).startswith("core::result"):
                    continue                               # the value handed to the return place is known to be an Err
                if out["ok"] is None:
                    out["ok"] = (b, n)
            dl = pl_local(d)
            e.pop(("some", dl), None)
            if val is None or not isinstance(d, int):
                e.pop(dl, None)
            else:
                e[dl] = val
            if t.get("t") is not None:
                work.append((t["t"], 0, frozenset(e.items())))
            continue
        if k == "switch":
            known = val_of_operand(t["d"], e)
            if isinstance(known, bool) and t.get("dty") == "bool":
                zero = [x for v, x in t["ts"] if int(v) == 0]
                if known:
                    nz = [x for v, x in t["ts"] if int(v) != 0]
                    tgt = nz[0] if nz else t["o"]
                else:
                    tgt = zero[0] if zero else t["o"]
                work.append((tgt, 0, frozenset(e.items())))
            elif isinstance(known, tuple) and known and known[0] == "d":
                tg = [x for v, x in t["ts"] if int(v) == known[1]]
                work.append((tg[0] if tg else t["o"], 0, frozenset(e.items())))
            else:
                for x in f.succ(b):
                    work.append((x, 0, frozenset(e.items())))
            continue
        for x in f.succ(b):
            work.append((x, 0, frozenset(e.items())))
    return out


def always_rejects(f, bb, si, env):
    """From position (bb, si), with the boolean facts `env`, every path ends in a definite rejection."""
    r = bool_flow(f, bb, si, env)
    return r["ok"] is None and not r["ret"]


_EXITS = {}


def exits(f):
    e = _EXITS.get(id(f))
    if e is None or e.f is not f:
        e = Exits(f)
        _EXITS[id(f)] = e
    return e


# ------------------------------------------------------------------------------------------------- propagation

def res_root(sym):
    """The call (bb) whose Result a symbolic value is, looking through refs, `?` machinery and Err-preserving combinators."""
    while True:
        k = sym[0]
        if k in ("ref", "deref"):
            sym = sym[1]
        elif k == "call":
            name = strip_generics(sym[1])
            if KEEP_ERR.search(name) and sym[2]:
                inner = sym[2][0]
                probe = inner
                while probe[0] in ("ref", "deref"):
                    probe = probe[1]
                if probe[0] == "call":
                    sym = inner
                    continue
            return sym[3]
        else:
            return None


def _switch_sides(t, err_value):
    """(err target, other targets) of a switch for the discriminant/boolean value that means 'error'."""
    tgt = None
    others = []
    for v, b in t["ts"]:
        if int(v) == err_value:
            tgt = b
        else:
            others.append(b)
    if tgt is None:
        tgt = t["o"]
    else:
        others.append(t["o"])
    return tgt, others


def result_tests(f, bb):
    """Switches that test the Result produced by the call at `bb`: [(switch bb, err-side target, how)]."""
    out = []
    for bi in f.live_blocks():
        t = f.blocks[bi]["term"]
        if t["k"] != "switch":
            continue
        c = f.sym_operand(t["d"])
        neg = False
        while c[0] == "un" and c[1] == "Not":
            neg = not neg
            c = c[2]
        if c[0] == "discr":
            if res_root(c[1]) != bb:
                continue
            # Result: Err = 1 ; ControlFlow (after Try::branch): Break = 1
            tgt, _ = _switch_sides(t, 1)
            out.append((bi, tgt, "match"))
        elif c[0] == "call" and c[2]:
            name = strip_generics(c[1])
            m = re.search(r"^core::result::Result::(is_err|is_ok)$", name)
            if not m or res_root(c[2][0]) != bb:
                continue
            err_val = 1 if m.group(1) == "is_err" else 0
            if neg:
                err_val = 1 - err_val
            tgt, _ = _switch_sides(t, err_val)
            out.append((bi, tgt, m.group(1)))
    return out


def propagated(f, bb):
    """Is the Result returned by the call at block `bb` of f propagated?  -> (bool, how)."""
    t = f.blocks[bb]["term"]
    ex = exits(f)
    d = t["dest"]
    if isinstance(d, int) and d in ex.rp:
        return True, "tail"
    tests = result_tests(f, bb)
    for sb, tgt, how in tests:
        if ex.rejects_from(tgt):
            return True, ("?" if how == "match" and _is_try(f, sb) else how)
    if tests:
        return False, "the Err side of the test at %s does not always end in an error return" % where(f, tests[0][0])
    # moved whole into a return place through Err-preserving combinators (e.g. `check().map_err(f)` in tail position)
    for bi, u in f.calls():
        if isinstance(u["dest"], int) and u["dest"] in ex.rp and KEEP_ERR.search(callee(u)) and u["args"]:
            if res_root(f.sym_operand(u["args"][0])) == bb:
                return True, "tail"
    uses = [x for x in local_uses(f, pl_local(d)) if x[0] != "read"]
    if not uses:
        return False, "the result is never used (discarded)"
    names = sorted({callee(f.blocks[b]["term"]).split("::")[-1] for k, b, _ in uses if k == "arg"})
    return False, "the result is consumed by %s and never reaches the return value" % ("/".join(names) or "a move")


def _is_try(f, switch_bb):
    c = f.sym_operand(f.blocks[switch_bb]["term"]["d"])
    return c[0] == "discr" and any(s[0] == "call" and TRY_BRANCH.search(strip_generics(s[1])) for s in sym_walk(c))


# ------------------------------------------------------------------------------------------------- closures and their consumers

def closure_aggs(f, P):
    """Closure values built in f: [(bb, local, child Fn)]."""
    kids = {c.b.get("path", c.path): c for c in P.closure_children(f)}
    out = []
    for bi, si, s in f.statements():
        if s[0] == "a" and s[2]["k"] == "agg" and s[2].get("ak") == "closure":
            h = kids.get(s[2].get("def"))
            if h is not None and isinstance(s[1], int):
                out.append((bi, s[1], h, s[2]))
    return out


def consumer_of(f, local, depth=6):
    """Follow a value (closure or lazy adaptor) into the calls that receive it until a call whose result is not itself a lazy
    iterator adaptor: -> (final call bb | None, chain of callee names).  None = the value is never consumed."""
    chain = []
    cur = local
    for _ in range(depth):
        nxt = None
        for kind, bi, extra in local_uses(f, cur):
            if kind == "arg":
                nxt = bi
                break
            if kind == "use" and isinstance(extra, int):
                r = consumer_of(f, extra, depth - 1)
                if r[0] is not None:
                    return r[0], chain + r[1]
            if kind in ("refmut", "ref"):
                r = consumer_of(f, extra, depth - 1)
                if r[0] is not None:
                    return r[0], chain + r[1]
        if nxt is None:
            return None, chain
        t = f.blocks[nxt]["term"]
        chain.append(callee(t).split("::")[-1])
        d = t["dest"]
        if isinstance(d, int) and ADAPTER_TY.search(f.local_ty(d)):
            cur = d
            continue
        return nxt, chain
    return None, chain


# ------------------------------------------------------------------------------------------------- the error model

class Site:
    __slots__ = ("bb", "target", "kind", "chain", "first_bb")

    def __init__(self, bb, target, kind, chain=None, first_bb=None):
        self.bb = bb                # block of the call whose result carries the target's verdict (None: never consumed)
        self.target = target        # Fn (workspace function or closure)
        self.kind = kind            # "call" | "closure"
        self.chain = chain or []
        self.first_bb = first_bb if first_bb is not None else bb


class ErrModel:
    def __init__(self, P, crate="pallas_validate"):
        self.P = P
        self.crate = crate
        self._direct = {}
        self._sites = {}
        self._can = {}
        self._mentions = {}
        self._always = {}
        self._prop = {}

    # -- what a function constructs
    def direct(self, f):
        r = self._direct.get(f.path)
        if r is not None:
            return r
        out = set()
        h = f.hir
        tr = f.b.get("impl_trait") or ""
        if tr.startswith(("core::", "std::", "alloc::")):
            h = None                                       # derived / std-trait impls (Clone, Debug, Display) are not rules
            self._direct[f.path] = out
            return out
        if h is not None:
            from . import hirwalk
            for n in hirwalk.walk(h["root"]):
                if n.get("k") in ("call", "path", "struct") and n.get("variant") and n.get("adt"):
                    m = ERA_ENUM.match(n["adt"])
                    if m and str(n.get("rk", "")).startswith("Ctor"):
                        out.add("%s::%s" % (m.group(1), n["variant"]))
        else:
            for bi, si, s in f.statements():
                if s[0] == "a" and s[2]["k"] == "agg" and s[2].get("ak") == "adt":
                    m = ERA_ENUM.match(s[2]["adt"])
                    if m:
                        out.add("%s::%s" % (m.group(1), s[2]["variant"]))
        self._direct[f.path] = out
        return out

    def returns_verr(self, f):
        ty = f.local_ty(0)
        return ty.startswith("core::result::Result<") and "ValidationError" in ty

    # -- call sites whose verdict matters
    def sites(self, f):
        r = self._sites.get(f.path)
        if r is not None:
            return r
        out = []
        for bi, t in f.calls():
            g = self.P.fns.get(t.get("f") or "")
            if g is not None and g.crate == self.crate and g is not f and self.returns_verr(g):
                out.append(Site(bi, g, "call"))
        for bi, l, h, agg in closure_aggs(f, self.P):
            if not (self.returns_verr(h) or h.local_ty(0) == "bool"):
                continue
            fb, chain = consumer_of(f, l)
            out.append(Site(fb, h, "closure", chain, bi))
        self._sites[f.path] = out
        return out

    def site_propagated(self, f, s):
        key = (f.path, s.bb, s.target.path)
        r = self._prop.get(key)
        if r is None:
            if s.bb is None:
                r = (False, "the closure is handed to %s whose value is never consumed" % ("/".join(s.chain) or "nothing"))
            elif s.kind == "closure" and not self.returns_verr(s.target):
                r = (False, "closure does not return a validation result")
            else:
                r = propagated(f, s.bb)
            self._prop[key] = r
        return r

    # -- error keys reachable ignoring how results are consumed (for diagnostics) / honouring propagation
    def mentions(self, f, _stack=None):
        r = self._mentions.get(f.path)
        if r is not None:
            return r
        _stack = _stack or set()
        if f.path in _stack:
            return set()
        _stack = _stack | {f.path}
        out = set(self.direct(f))
        for s in self.sites(f):
            out |= self.mentions(s.target, _stack)
        self._mentions[f.path] = out
        return out

    def can(self, f, _stack=None):
        r = self._can.get(f.path)
        if r is not None:
            return r
        _stack = _stack or set()
        if f.path in _stack:
            return set()
        _stack = _stack | {f.path}
        out = set(self.direct(f))
        for s in self.sites(f):
            if self.site_propagated(f, s)[0]:
                out |= self.can(s.target, _stack)
        self._can[f.path] = out
        return out

    # -- must-pass-through
    def _covered(self, f, producer_blocks):
        """No exit of f that may carry Ok is reachable from the entry without passing one of `producer_blocks`."""
        ex = exits(f)
        free = (f.reach_from(0, avoid=producer_blocks) | {0}) - set(producer_blocks)
        if 0 in producer_blocks:
            return True, None
        leak = sorted(b for b in free & ex.maybe_ok)
        if leak:
            return False, leak[0]
        return True, None

    def always(self, f, V, _stack=None):
        key = (f.path, V)
        r = self._always.get(key)
        if r is not None:
            return r
        _stack = _stack or set()
        if key in _stack:
            return False
        _stack = _stack | {key}
        if V in self.direct(f):
            r = True
        else:
            prods = {s.bb for s in self.sites(f)
                     if s.bb is not None and self.site_propagated(f, s)[0] and self.always(s.target, V, _stack)}
            r = bool(prods) and self._covered(f, prods)[0]
        self._always[key] = r
        return r

    def must1(self, f, V):
        if V in self.direct(f):
            return True
        prods = {s.bb for s in self.sites(f)
                 if s.bb is not None and self.site_propagated(f, s)[0] and V in self.can(s.target)}
        return bool(prods) and self._covered(f, prods)[0]

    # -- diagnosis of a failed obligation
    def explain(self, f, V, level, depth=0):
        """One sentence saying where the chain from f to a construction of V breaks."""
        if V not in self.mentions(f):
            return "no function reachable from %s constructs %s any more (rule removed or hollowed out)" % (f.name, V)
        cands = [s for s in self.sites(f) if V in self.mentions(s.target)]
        if not cands:
            return "%s constructs %s itself" % (f.name, V)
        dropped = [s for s in cands if not self.site_propagated(f, s)[0]]
        live = [s for s in cands if self.site_propagated(f, s)[0]]
        if not live:
            s = dropped[0]
            return "in %s the result of %s is not propagated: %s (%s)" % (
                f.name, s.target.name or s.target.path.split("::")[-1], self.site_propagated(f, s)[1], where(f, s.first_bb))
        good = [s for s in live if (self.always(s.target, V) if level == "always" else V in self.can(s.target))]
        if good:
            ok, leak = self._covered(f, {s.bb for s in good})
            if not ok:
                return "in %s a path reaches the Ok exit at %s without passing the call to %s (%s)" % (
                    f.name, where(f, leak), "/".join(sorted({s.target.name or "closure" for s in good})), where(f, good[0].first_bb))
            return "%s is enforced in %s" % (V, f.name)
        if depth > 6:
            return "chain too deep"
        s = live[0]
        return self.explain(s.target, V, level, depth + 1)

    def discards(self, f):
        """Call sites of f whose validation result is not propagated: [(Site, why)]."""
        out = []
        for s in self.sites(f):
            if s.kind == "closure" and not self.returns_verr(s.target):
                continue
            ok, why = self.site_propagated(f, s)
            if not ok:
                out.append((s, why))
        return out

    def closure_fns(self, root):
        """Functions of the crate reachable from root (calls + closures)."""
        cl = self.P.closure_of([root], stop=lambda g: g.crate != self.crate)
        return [g for g, _ in cl.values()]


# ------------------------------------------------------------------------------------------------- pipelines table

def load_pipelines():
    import json
    import os
    from .facts import VERIF
    with open(os.path.join(VERIF, "tables", "pipelines.json")) as fh:
        return json.load(fh)


def check_pipeline_rules(res, M, era, spec, prop, judged_props):
    """R-PIPE for one era: every rule of the table tagged with one of `judged_props` is enforced by the pipeline.
    Returns the number of error keys judged."""
    P = M.P
    pipe = P.one("^%s$" % re.escape(spec["pipeline"]))
    n = 0
    for rule in spec["rules"]:
        if rule.get("property") not in judged_props:
            continue
        for V in rule["errors"]:
            n += 1
            level = rule.get("level", "always")
            key = "pipe:%s:%s" % (era, V)
            holds = M.always(pipe, V) if level == "always" else M.must1(pipe, V)
            if holds:
                res.ok(key, "R-PIPE", "%s (%s) enforced %s by %s" % (V, rule["ledger_rule"], "on every accepting path" if level == "always" else "through an unconditional top-level call", pipe.name))
            else:
                why = M.explain(pipe, V, level)
                res.violation(key, "%s: ledger rule '%s' (today: %s) is not enforced by %s — %s" % (V, rule["ledger_rule"], rule["label"], pipe.path, why),
                              where=where(pipe), rule="R-PIPE")
    return n


def check_no_discard(res, M, era, spec, keys, prop):
    """No call on the way from the pipeline to a construction of one of `keys` throws its validation result away."""
    P = M.P
    pipe = P.one("^%s$" % re.escape(spec["pipeline"]))
    n = 0
    for g in M.closure_fns(pipe):
        for s, why in M.discards(g):
            hit = sorted(M.mentions(s.target) & keys)
            if not hit:
                continue
            n += 1
            tn = s.target.name or s.target.path.split("::")[-1]
            res.violation("discard:%s:%s->%s" % (era, g.path.split("phase1::")[-1], tn),
                          "in %s the validation result of %s (can report %s) is not propagated: %s" % (g.path, tn, ", ".join(hit[:4]), why),
                          where=where(g, s.first_bb), rule="R-PIPE")
    return n


# ------------------------------------------------------------------------------------------------- R-LAZY

def lazy_unconsumed(f):
    """Lazy iterator adaptor values (Map, Filter, ...) built in f that nothing ever drives: the value is never moved into a call,
    never borrowed mutably (next / try_fold take `&mut self`), never stored or returned — e.g. `let _ = it.map(|x| ..)`.
    -> [(bb of the call that builds it, adaptor type, callee name)]"""
    out = []
    for bi, t in f.calls():
        d = t["dest"]
        if not isinstance(d, int):
            continue
        ty = f.local_ty(d)
        if not ADAPTER_TY.search(ty) or d in exits(f).rp:
            continue
        if _driven(f, d, set()):
            continue
        out.append((bi, ty.split("<")[0], callee(t).split("::")[-1]))
    return out


def _driven(f, l, seen):
    if l in seen:
        return False
    seen.add(l)
    for kind, bi, extra in local_uses(f, l):
        if kind == "arg":
            t = f.blocks[bi]["term"]
            d = t["dest"]
            if isinstance(d, int) and ADAPTER_TY.search(f.local_ty(d)) and d not in exits(f).rp:
                if _driven(f, d, seen):              # a further adaptor: the chain must end in a consumer
                    return True
                continue
            return True
        if kind in ("refmut", "agg"):
            return True
        if kind == "use" and isinstance(extra, int):
            if extra in exits(f).rp or _driven(f, extra, seen):
                return True
        if kind == "use" and not isinstance(extra, int):
            return True                              # stored into a field / through a reference
        if kind == "ref":
            if _driven(f, extra, seen) or any(k == "arg" for k, _, _ in local_uses(f, extra)):
                return True
    return False
