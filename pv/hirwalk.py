"""Helpers to walk the type-resolved HIR trees dumped by the driver."""

CHILD_KEYS = ("recv", "args", "e", "a", "b", "c", "then", "else", "scrut", "arms", "body", "stmts", "expr", "init", "els",
              "lhs", "rhs", "f", "xs", "fields", "base", "i", "iter", "guard", "g", "sub")


def children(n):
    """Child expression nodes of an HIR node, in evaluation order (approximately source order)."""
    if isinstance(n, list):
        for x in n:
            if isinstance(x, (dict, list)):
                yield x
        return
    if not isinstance(n, dict):
        return
    for k in CHILD_KEYS:
        v = n.get(k)
        if v is None:
            continue
        if k == "fields" and isinstance(v, list):
            for pair in v:
                if isinstance(pair, list) and len(pair) == 2 and isinstance(pair[1], dict):
                    yield pair[1]
            continue
        if isinstance(v, dict):
            yield v
        elif isinstance(v, list):
            for x in v:
                if isinstance(x, dict):
                    yield x


def walk(n):
    """Pre-order traversal of all expression nodes."""
    stack = [n]
    while stack:
        x = stack.pop()
        if isinstance(x, dict):
            yield x
            ch = list(children(x))
            stack.extend(reversed(ch))
        elif isinstance(x, list):
            stack.extend(reversed([y for y in x if isinstance(y, (dict, list))]))


def strip(n):
    """Look through try/await/ref/block-with-only-expr wrappers."""
    while isinstance(n, dict):
        k = n.get("k")
        if k in ("try", "await", "ref", "cast"):
            n = n.get("e") or n.get("a")
        elif k == "block" and not n.get("stmts") and n.get("expr") is not None:
            n = n["expr"]
        elif k == "un" and n.get("op") == "Deref":
            n = n["a"]
        else:
            break
    return n


def ctor_variant(n):
    """(adt, variant) if the expression constructs an enum variant (call of a ctor, unit path, or struct literal)."""
    n = strip(n)
    if not isinstance(n, dict):
        return None
    if n.get("k") in ("call", "path", "struct") and n.get("variant") and n.get("adt"):
        return n["adt"], n["variant"]
    return None


def pat_variants(p):
    """Set of (adt, variant) matched by a pattern (through refs and or-patterns); None for catch-alls."""
    if p is None:
        return None
    k = p.get("k")
    if k in ("ref", "deref"):
        return pat_variants(p["sub"])
    if k == "bind":
        return pat_variants(p["sub"]) if p.get("sub") else None
    if k in ("tstruct", "struct"):
        if p.get("variant"):
            return {(p.get("adt"), p["variant"])}
        return None
    if k == "expr":
        e = p["e"]
        if e.get("k") == "path" and e.get("variant"):
            return {(e.get("adt"), e["variant"])}
        return None
    if k == "or":
        out = set()
        for a in p["alts"]:
            v = pat_variants(a)
            if v is None:
                return None
            out |= v
        return out
    return None


def is_local(n, name=None):
    n = strip(n)
    return isinstance(n, dict) and n.get("k") == "path" and n.get("rk") == "Local" and (name is None or n.get("local") == name)
