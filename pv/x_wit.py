"""C35 — clauses about *which* witnesses and *which* inputs the vkey-witness rule looks at (companion of rules/C35.py).

 W            the vkey-input-witness rule of an era: the function(s) reachable from the pipeline that hold a value of type
              MultiEraOutput (the resolved UTxO entry) and either mark check-list entries as covered or call the function that does.
 (1) list     the `(bool, VKeyWitness)` check list is a 1:1 image of the witness vector: the iterator chain that builds it (found by
              the type of the value built, not by name) is rooted at the witness collection and contains no element-dropping
              operation; a push-loop pushes on every iteration; no function of the pipeline shrinks the list afterwards.
 (2) inputs   in W (or the helper that gathers the inputs) the payload of the body's `inputs` — and, in eras with collateral,
              of `collateral` — is consumed (moved into the iterated collection / iterated) on every accepting path; the only test the
              consumption of `collateral` may depend on is `collateral` being Some.
 (3) variants for every MultiEraOutput variant that can sit in the era's UTxO set (tables/pipelines.json `utxo_output_variants`; Byron
              outputs are exempt — bootstrap witnesses), a walk of W that knows what each accessor (as_alonzo / as_babbage / as_conway,
              tabulated from pallas-traverse, not hard-coded) answers for that variant reaches the payment-part classification (any
              call yielding a ShelleyPaymentPart) or an error return before the next input is taken / Ok is returned: no resolved
              non-Byron input is silently skipped.
"""
import re

from .mir import op_place, pl_local, pl_proj, sym_walk
from .panic import strip_generics
from .x_pipe import callee, where, exits, closure_aggs, bool_flow

CHECKLIST_VEC = re.compile(r"Vec<\(bool, [^()]*VKeyWitness\)")
CHECKLIST_ANY = re.compile(r"\(bool, [^()]*VKeyWitness\)")
WITNESS_VEC = re.compile(r"Vec<[^()]*VKeyWitness>")
MEO = "pallas_traverse::MultiEraOutput"
PAYMENT_PART = "ShelleyPaymentPart"

# operations that can drop (or duplicate away) elements of a sequence
DROP_ITER = {"filter", "filter_map", "skip", "skip_while", "take", "take_while", "step_by", "map_while", "scan", "flat_map", "flatten",
             "zip", "unique", "unique_by", "dedup", "dedup_by", "dedup_by_key", "dedup_with_count", "nth", "last", "next", "find", "find_map",
             "position", "chunks", "windows", "rchunks", "split_first", "split_last", "first", "min", "max", "min_by", "max_by", "min_by_key",
             "max_by_key", "reduce", "peeking_take_while", "coalesce", "tuple_windows", "tuples", "skip_last", "into_group_map", "into_values",
             "into_keys", "group_by", "chunk_by", "partition", "unzip"}
DROP_MUT = {"retain", "retain_mut", "dedup", "dedup_by", "dedup_by_key", "truncate", "drain", "pop", "remove", "swap_remove", "clear",
            "split_off", "resize", "resize_with", "extract_if", "drain_filter"}
# set-like collectors silently merge equal elements
SETLIKE = re.compile(r"(HashSet|BTreeSet|HashMap|BTreeMap|IndexSet|IndexMap)<")


def last_seg(name):
    return strip_generics(name).split("::")[-1]


# ------------------------------------------------------------------------------------------------- (1) the check list

def chain_of(f, t, bb):
    """Symbolic value of a call (callee applied to the symbolic values of its arguments)."""
    return ("call", t.get("f") or t.get("g") or "?", tuple(f.sym_operand(a) for a in t["args"]), bb)


def chain_calls(sym, f, P, depth=0):
    """Names of the calls in an iterator chain, looking into closures only for nothing: [(name, bb)]."""
    return [(last_seg(n[1]), n[3], n[1]) for n in sym_walk(sym) if n[0] == "call"]


def rooted_at_witnesses(f, sym):
    for n in sym_walk(sym):
        if n[0] == "param" and "VKeyWitness" in f.local_ty(n[1]):
            return True
        if n[0] == "field" and str(n[2]) == "vkeywitness":
            return True
    return False


def check_witness_list(res, P, CF, era, done=None):
    """Clause (1).  Returns the number of construction sites analysed.  `done`: functions already judged for another era."""
    n = 0
    done = done if done is not None else set()
    fns = {}
    for F in CF:
        fns[F.path] = F
        for c in P.closure_children(F):
            fns[c.path] = c
    for F in fns.values():
        if F.path in done:
            continue
        done.add(F.path)
        fkey = F.path.split("pallas_validate::")[-1].replace("phase1::", "")
        for bi, t in F.calls():
            d = t["dest"]
            if not isinstance(d, int):
                continue
            ty = F.local_ty(d)
            g = P.fns.get(t.get("f") or "")
            builds_list = bool(CHECKLIST_VEC.search(ty))
            builds_wits = bool(WITNESS_VEC.search(ty)) and not builds_list
            if not (builds_list or builds_wits) or (g is not None and g.crate == F.crate):
                continue
            sym = chain_of(F, t, bi)
            if not rooted_at_witnesses(F, sym):
                continue                                   # e.g. Vec::new(), or a list derived from something else
            n += 1
            bad = [(nm, b) for nm, b, full in chain_calls(sym, F, P) if nm in DROP_ITER]
            setlike = [full for nm, b, full in chain_calls(sym, F, P) if nm in ("collect", "from_iter") and b != bi
                       and SETLIKE.search(full)]
            what = "the (covered, witness) check list" if builds_list else "the witness vector handed to the witness rules"
            k = "witness-list:%s" % fkey
            if bad or setlike:
                ops = sorted({nm for nm, _ in bad}) + (["collect into a set/map"] if setlike else [])
                res.violation(k + ":" + "+".join(ops), "in %s %s is built from the transaction's vkey witnesses through %s: witnesses can be left out of the list, and a "
                              "witness that is not in the list is never verified" % (F.path, what, "/".join(ops)), where=where(F, bad[0][1] if bad else bi), rule="R-FORALL")
            else:
                res.ok(k, "R-FORALL", "%s is a 1:1 image of the witness collection (%s)" % (what, ".".join(reversed([nm for nm, _, _ in chain_calls(sym, F, P)][:8]))))
        # push-loops and later shrinking of the list
        for bi, t in F.calls():
            if not t["args"]:
                continue
            p0 = op_place(t["args"][0])
            if p0 is None:
                continue
            ty0 = F.local_ty(pl_local(p0))
            if not (ty0.startswith("&mut") and CHECKLIST_ANY.search(ty0)):
                continue
            g = P.fns.get(t.get("f") or "")
            if g is not None and g.crate == F.crate:
                continue
            nm = last_seg(callee(t))
            k = "witness-list:%s" % fkey
            if nm in DROP_MUT:
                res.violation("%s:%s" % (k, nm), "%s applies %s(..) to the (covered, witness) check list: entries removed from the list are never verified" % (F.path, nm),
                              where=where(F, bi), rule="R-FORALL")
            elif nm in ("push", "insert", "push_back", "extend_one") and F.can_reach_strict(bi, bi):
                # a conditional push inside the building loop drops witnesses: without the push block the loop must fall apart
                scc = ({x for x in F.reach_from(bi) if F.can_reach(x, bi)} | {bi}) & set(F.live_blocks())
                heads = {x for x in scc if any(p not in scc for p in F.pred(x))}
                skip = any(F.can_reach(s, h, avoid={bi}) for h in heads for s in F.succ(h) if s in scc and s != bi) if heads else False
                n += 1
                if skip:
                    res.violation("%s:conditional-push" % k, "in %s an iteration of the loop that fills the (covered, witness) check list can skip the push: that witness is never verified" % F.path,
                                  where=where(F, bi), rule="R-FORALL")
                else:
                    res.ok(k, "R-FORALL", "every iteration of the filling loop pushes an entry")
    return n


# ------------------------------------------------------------------------------------------------- W

def witness_rule_fns(P, CF, flag_writes):
    """The vkey-input-witness rule(s): functions holding a resolved MultiEraOutput that cover witnesses or call the function that does."""
    coverers = {F.path for F in CF if flag_writes(F)}
    out = []
    for F in CF:
        if F.kind == "Closure":
            continue
        if not any(MEO in l["ty"] for l in F.locals):
            continue
        calls_cov = any((t.get("f") or "") in coverers for _, t in F.calls())
        if F.path in coverers or calls_cov:
            out.append(F)
    return out


# ------------------------------------------------------------------------------------------------- (2) inputs and collateral

def _tainted_calls(H, field, elem="TransactionInput"):
    """Calls of H that consume the payload of `<body>.<field>` -> (sink blocks, blocks reading the field).
    Values derived from the payload are followed while they are collections / iterators of the element type; a *sink* is a call
    that moves such a value into another collection of that type (`&mut` receiver) or starts iterating it."""
    tainted = set()

    def mentions(sym):
        for n in sym_walk(sym):
            if n[0] == "field" and str(n[2]) == field:
                return True
            if n[0] == "local" and n[1] in tainted:
                return True
        return False

    def coll(l):
        return elem in H.local_ty(l)
    changed = True
    rounds = 0
    while changed and rounds < 8:
        changed = False
        rounds += 1
        for bi, si, s in H.statements():
            if s[0] == "a" and isinstance(s[1], int) and s[1] not in tainted and s[1] > H.argc and coll(s[1]):
                if mentions(H.sym_rvalue(s[2], 30)):
                    tainted.add(s[1])
                    changed = True
        for bi, t in H.calls():
            args = [H.sym_operand(a) for a in t["args"]]
            hit = [i for i, a in enumerate(args) if mentions(a)]
            if not hit:
                continue
            d = t["dest"]
            if isinstance(d, int) and d not in tainted and coll(d):
                tainted.add(d)
                changed = True
    # the collection(s) that end up being iterated by the rule or returned by the helper
    def ref_target(l):
        for dd in H.defs().get(l, []):
            if dd[2] == "assign" and dd[3][2]["k"] in ("ref", "rawptr"):
                return pl_local(dd[3][2]["p"])
        return l
    rp = exits(H).rp
    final = set(x for x in rp if x == 0 or coll(x))
    for bi, t in H.calls():
        if last_seg(callee(t)) in ("iter", "into_iter", "iter_mut", "deref", "as_slice", "for_each", "try_for_each", "all", "any") and t["args"]:
            p = op_place(t["args"][0])
            if p is not None and isinstance(p, int):
                final.add(ref_target(p))
                final.add(p)
    sinks, reads = [], []
    for bi, t in H.calls():
        args = [H.sym_operand(a) for a in t["args"]]
        hit = [i for i, a in enumerate(args) if mentions(a)]
        if not hit:
            continue
        nm = last_seg(callee(t))
        direct = [i for i in hit if _derived_not_via(args[i], final)]
        d = t["dest"]
        recv = [ref_target(op_place(a)) for i, a in enumerate(t["args"]) if i not in direct and op_place(a) is not None and isinstance(op_place(a), int)
                and H.local_ty(op_place(a)).startswith("&mut") and coll(op_place(a))]
        p0 = op_place(t["args"][0]) if t["args"] else None
        if direct and any(r in final for r in recv) and nm not in ("next", "next_back"):
            sinks.append(bi)                               # payload moved into the final collection (extend / push / append)
        elif direct and isinstance(d, int) and d in final and coll(d) and nm not in ("iter", "into_iter", "iter_mut", "deref", "as_slice"):
            sinks.append(bi)                               # the final collection is created from the payload (collect / clone / to_vec)
        elif direct and nm == "chain":
            sinks.append(bi)
        elif direct and nm in ("into_iter", "for_each", "try_for_each", "all", "any", "try_fold", "fold") and 0 in direct \
                and p0 is not None and coll(pl_local(p0)):
            sinks.append(bi)                               # the payload itself is iterated
        if any(_has_field(args[i], field) for i in hit):
            reads.append(bi)
    return sinks, reads


def _derived_not_via(sym, final):
    """The symbolic value mentions the payload other than through one of the final collections themselves."""
    return not (sym[0] in ("ref", "local") and _root_local(sym) in final)


def _root_local(sym):
    while sym[0] in ("ref", "deref"):
        sym = sym[1]
    return sym[1] if sym[0] == "local" else None


def _has_field(sym, field):
    return any(n[0] == "field" and str(n[2]) == field for n in sym_walk(sym))


def _option_switches(H, field):
    """Switches on the discriminant of `<body>.<field>` (an Option): [(bb, some target, none target)]."""
    out = []
    for bi in H.live_blocks():
        t = H.blocks[bi]["term"]
        if t["k"] != "switch":
            continue
        c = H.sym_operand(t["d"])
        if c[0] != "discr":
            continue
        s = c[1]
        while s[0] in ("ref", "deref"):
            s = s[1]
        if s[0] == "field" and str(s[2]) == field:
            some = [b for v, b in t["ts"] if int(v) == 1]
            none = [b for v, b in t["ts"] if int(v) == 0]
            out.append((bi, some[0] if some else t["o"], none[0] if none else t["o"]))
    return out


def _reaches_return(H, start, avoid):
    """A return is reachable from block `start` without passing a block of `avoid` or a definite error return."""
    return bool_flow(H, start, 0, {}, avoid=avoid)["ret"]


def check_inputs_consumed(res, P, W, era, has_collateral, CF=()):
    """Clause (2) for one witness-rule function (helpers of the crate that gather the inputs are looked into)."""
    wkey = "%s:%s" % (era, W.path.split("phase1::")[-1])
    hosts = [W] + [g for g in {id(g): g for g in (P.fns.get(t.get("f") or "") for _, t in W.calls())
                               if g is not None and g.crate == W.crate and g.kind != "Closure" and "ValidationError" not in g.local_ty(0)}.values()]
    # the rule may handle ONE input and be driven by its caller(s): they are hosts too
    frontier = [W]
    for _ in range(2):
        nxt = []
        for X in frontier:
            for G in CF:
                if G is not X and G not in hosts and any((t.get("f") or "") == X.b.get("path", X.path) for _, t in G.calls()):
                    hosts.append(G)
                    nxt.append(G)
        frontier = nxt
    for field, needed in (("inputs", True), ("collateral", has_collateral)):
        if not needed:
            continue
        k = "%s-consumed:%s" % (field, wkey)
        found = None
        for H in hosts:
            sinks, reads = _tainted_calls(H, field)
            if sinks:
                found = (H, sinks)
                break
        if found is None:
            res.violation(k, "%s never feeds the transaction body's `%s` into the inputs whose payment keys must sign: key-locked %s need no witness"
                          % (W.path, field, "collateral inputs" if field == "collateral" else "inputs"), where=where(W), rule="R-MPT")
            continue
        H, sinks = found
        avoid = set(sinks)
        if field == "collateral":
            sw = _option_switches(H, field)
            # (a) no accepting path avoids both the test of `collateral` and its consumption; (b) from the Some side of the test the
            # consumption is unavoidable (a further guard such as `if has_plutus_scripts` opens a by-pass)
            leak = _reaches_return(H, 0, avoid | {b for b, _, _ in sw})
            for sb, some_t, none_t in sw:
                if not leak and some_t is not None:
                    leak = _reaches_return(H, some_t, avoid)
            leak = True if leak else None
            if leak is None:
                res.ok(k, "R-MPT", "`collateral` is consumed whenever it is present (%d consumer call(s) in %s)" % (len(sinks), H.name))
            else:
                res.violation(k, "in %s the collateral inputs are added to the inputs that need a payment-key witness only under an extra condition "
                              "(an accepting path from a present `collateral` by-passes %s at %s): a key-locked collateral input can go unsigned"
                              % (H.path, "/".join(sorted({last_seg(callee(H.blocks[b]["term"])) for b in sinks})), where(H, sinks[0])), where=where(H, sinks[0]), rule="R-MPT")
        else:
            if not _reaches_return(H, 0, avoid):
                res.ok(k, "R-MPT", "`inputs` is consumed on every accepting path (%s)" % H.name)
            else:
                res.violation(k, "in %s an accepting path by-passes the consumption of the body's `inputs`" % H.path, where=where(H, sinks[0]), rule="R-MPT")


# ------------------------------------------------------------------------------------------------- (3) output variants

def tabulate_accessors(P):
    """fn path -> {variant index: 'some' | 'none' | '?'} for every pallas-traverse function `fn(&MultiEraOutput) -> Option<_>`,
    read off its MIR (switch on the discriminant, constant Some/None per arm)."""
    out = {}
    for f in P.by_crate.get("pallas_traverse", []):
        if f.argc != 1 or MEO not in f.local_ty(1) or not f.local_ty(0).startswith("core::option::Option<"):
            continue
        table = {}
        ok = False
        for bi in f.live_blocks():
            t = f.blocks[bi]["term"]
            if t["k"] != "switch":
                continue
            disc = [s for s in f.blocks[bi]["st"] if s[0] == "a" and s[2]["k"] == "discr" and s[2].get("pty", "").startswith(MEO)]
            if not disc:
                continue
            ok = True
            for v, tgt in t["ts"]:
                kinds = set()
                for b in (f.reach_from(tgt) | {tgt}):
                    for s in f.blocks[b]["st"]:
                        if s[0] == "a" and s[1] == 0 and s[2]["k"] == "agg" and s[2].get("adt") == "core::option::Option":
                            kinds.add(s[2]["variant"])
                    tt = f.blocks[b]["term"]
                    if tt["k"] == "call" and tt["dest"] == 0:
                        kinds.add("?")
                table[int(v)] = "some" if kinds == {"Some"} else "none" if kinds == {"None"} else "?"
            break
        if ok:
            out[f.b.get("path", f.path)] = table
    return out


def variant_walk(W, P, start_bb, start_env, vidx, accessors, byron_addr_idx):
    """Walk W from the successor of the call that resolved a UTxO entry, knowing the entry is MultiEraOutput variant `vidx`.
    -> None when every path reaches a payment-part classification or an error return, else (bb, why)."""
    ex = exits(W)
    seen = set()
    t0 = W.blocks[start_bb]["term"]
    work = [(t0["t"], 0, tuple(sorted(start_env.items())))]
    while work:
        b, i0, envt = work.pop()
        if (b, envt) in seen or len(seen) > 40000:
            continue
        seen.add((b, envt))
        if b == start_bb:
            return b, "the next input is taken"
        e = dict(envt)
        blk = W.blocks[b]
        if blk.get("cleanup"):
            continue
        dead = False
        for i, st in enumerate(blk["st"]):
            if (b, i) in ex.reject_pos:
                dead = True
                break
            if (b, i) in ex.ok_pos:
                return b, "Ok is returned"
            if st[0] != "a" or not isinstance(st[1], int):
                continue
            dst, rv = st[1], st[2]
            val = None
            k = rv["k"]
            if k == "discr":
                pty = rv.get("pty", "")
                l = pl_local(rv["p"])
                if pty.startswith(MEO):
                    val = ("int", vidx)
                elif pty.startswith("pallas_addresses::Address"):
                    val = ("addr",)
                elif pty.startswith("core::option::Option") and e.get(l, ("",))[0] == "opt":
                    val = ("int", 1 if e[l][1] else 0)
            elif k in ("use", "cast"):
                p = op_place(rv["x"])
                if p is not None and isinstance(p, int) and p in e:
                    val = e[p]
            elif k in ("ref", "rawptr"):
                p = rv["p"]
                if isinstance(p, int) and p in e:
                    val = e[p]
                elif not isinstance(p, int) and [x[0] for x in pl_proj(p)] == ["deref"] and pl_local(p) in e:
                    val = e[pl_local(p)]
            elif k == "agg" and rv.get("adt") == "core::option::Option":
                val = ("opt", rv["variant"] == "Some")
            if val is None:
                e.pop(dst, None)
            else:
                e[dst] = val
        if dead:
            continue
        t = blk["term"]
        n = len(blk["st"])
        kk = t["k"]
        if kk == "return":
            return b, "the function returns"
        if kk in ("call", "tailcall"):
            if (b, n) in ex.reject_pos:
                continue
            d = t["dest"]
            dty = W.local_ty(pl_local(d)) if isinstance(d, int) else ""
            if PAYMENT_PART in dty:
                continue                                   # classification reached
            g = P.fns.get(t.get("f") or "")
            if g is not None and PAYMENT_PART in g.local_ty(0):
                continue
            if (b, n) in ex.ok_pos:
                return b, "the verdict of another call is returned"
            val = None
            fpath = t.get("f") or ""
            a0 = op_place(t["args"][0]) if t["args"] else None
            a0l = pl_local(a0) if a0 is not None else None
            if fpath in accessors and a0l is not None and MEO in W.local_ty(a0l):
                r = accessors[fpath].get(vidx, "?")
                val = ("opt", True) if r == "some" else ("opt", False) if r == "none" else None
            elif re.search(r"^core::option::Option::<[^>]*>::and_then$|^core::option::Option::and_then$", strip_generics(fpath)) or strip_generics(fpath).endswith("Option::and_then"):
                o = e.get(a0l)
                fn = t["args"][1].get("k", {}).get("fn") if len(t["args"]) > 1 and t["args"][1].get("k") else None
                r = accessors.get(fn, {}).get(vidx, "?") if fn else "?"
                if (o and o[0] == "opt" and not o[1]) or r == "none":
                    val = ("opt", False)
                elif o and o[0] == "opt" and o[1] and r == "some":
                    val = ("opt", True)
            elif re.search(r"Option::(as_ref|as_deref|as_mut|cloned|copied|map|inspect|take)$", strip_generics(fpath)) and a0l in e and e[a0l][0] == "opt":
                val = e[a0l]
            if isinstance(d, int):
                if val is None:
                    e.pop(d, None)
                else:
                    e[d] = val
            if t.get("t") is not None:
                work.append((t["t"], 0, tuple(sorted(e.items()))))
            continue
        if kk == "switch":
            p = op_place(t["d"])
            v = e.get(p) if (p is not None and isinstance(p, int)) else None
            if v is not None and v[0] == "int":
                tg = [x for val_, x in t["ts"] if int(val_) == v[1]]
                work.append(((tg[0] if tg else t["o"]), 0, tuple(sorted(e.items()))))
            elif v is not None and v[0] == "addr" and byron_addr_idx is not None:
                for x in {x for val_, x in t["ts"] if int(val_) != byron_addr_idx} | ({t["o"]} if W.blocks[t["o"]]["term"]["k"] != "unreachable" else set()):
                    work.append((x, 0, tuple(sorted(e.items()))))
            elif v is not None and v[0] == "opt" and t.get("dty") == "bool":
                for x in W.succ(b):
                    work.append((x, 0, tuple(sorted(e.items()))))
            else:
                for x in W.succ(b):
                    work.append((x, 0, tuple(sorted(e.items()))))
            continue
        for x in W.succ(b):
            work.append((x, 0, tuple(sorted(e.items()))))
    return None


def check_output_variants(res, P, W, era, variants, accessors):
    """Clause (3) for one witness-rule function."""
    adt = P.adt(MEO)
    names = [v["name"] for v in adt["variants"]] if adt else []
    addr = P.adt("pallas_addresses::Address")
    byron_idx = None
    if addr:
        for i, v in enumerate(addr["variants"]):
            if v["name"] == "Byron":
                byron_idx = i
    wkey = "%s:%s" % (era, W.path.split("phase1::")[-1])
    starts = []
    for bi, t in W.calls():
        d = t["dest"]
        if not isinstance(d, int) or MEO not in W.local_ty(d) or t.get("t") is None:
            continue
        if any(op_place(a) is not None and re.match(r"^&(mut )?%s" % re.escape(MEO), W.local_ty(pl_local(op_place(a)))) for a in t["args"]):
            continue                                       # an accessor applied to the entry, not the lookup
        env = {d: ("opt", True)} if W.local_ty(d).startswith("core::option::Option") else {}
        starts.append((bi, env))
    if not starts:
        res.violation("utxo-variant:%s:no-lookup" % wkey, "%s holds a MultiEraOutput but the call that resolves the spent input cannot be found (fail closed)" % W.path,
                      where=where(W), rule="R-MPT")
        return 0
    n = 0
    for vname in variants:
        if vname not in names:
            res.violation("utxo-variant:%s:%s" % (wkey, vname), "MultiEraOutput has no variant %s any more (table out of date)" % vname, rule="anchor")
            continue
        vidx = names.index(vname)
        n += 1
        bad = None
        for bi, env in starts:
            r = variant_walk(W, P, bi, env, vidx, accessors, byron_idx)
            if r is not None:
                bad = (bi, r)
                break
        k = "utxo-variant:%s:%s" % (wkey, vname)
        if bad is None:
            res.ok(k, "R-MPT", "a spent %s output always reaches the payment-part classification or an error" % vname)
        else:
            bi, (bb, why) = bad
            res.violation(k, "in %s a spent or collateral input whose UTxO entry is a MultiEraOutput::%s is skipped without looking at its payment credential (%s at %s): "
                          "a key-locked %s output can be spent without a witness of its payment key" % (W.path, vname, why, where(W, bb), vname), where=where(W, bi), rule="R-MPT")
    return n
