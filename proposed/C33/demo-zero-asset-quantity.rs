// Goes into pallas-validate/tests/conway.rs, inside `mod conway_tests` (after `use super::*;`).
// Fails before the fix (panic: called `Result::unwrap()` on an `Err` value in conway::get_produced),
// passes with proposed/C33/fix-zero-asset-quantity.diff.

    #[test]
    // Same as successful_mainnet_tx, except that the first output is turned into a
    // legacy (pre-Babbage format) output holding an asset with quantity zero.
    fn legacy_output_with_zero_asset_quantity_is_rejected() {
        let cbor_bytes: Vec<u8> = cbor_to_bytes(include_str!("../../test_data/conway3.tx"));
        let mut mtx: Tx = conway_minted_tx_from_cbor(&cbor_bytes);
        let tx_outs_info: &[ConwayTxOutInfo] = &[(
            String::from(
                "015c5c318d01f729e205c95eb1b02d623dd10e78ea58f72d0c13f892b2e8904edc699e2f0ce7b72be7cec991df651a222e2ae9244eb5975cba",
            ),
            Value::Coin(20000000),
            None,
            None,
        )];
        let utxos: UTxOs = mk_utxo_for_conway_tx(&mtx.transaction_body, tx_outs_info);
        let mut tx_body: TransactionBody = (*mtx.transaction_body).clone();
        let (address, coin) = match &tx_body.outputs[0] {
            TransactionOutput::PostAlonzo(output) => (
                output.address.clone(),
                match &output.value {
                    Value::Coin(coin) => *coin,
                    Value::Multiasset(coin, _) => *coin,
                },
            ),
            TransactionOutput::Legacy(output) => (
                output.address.clone(),
                match &output.amount {
                    pallas_primitives::alonzo::Value::Coin(coin) => *coin,
                    pallas_primitives::alonzo::Value::Multiasset(coin, _) => *coin,
                },
            ),
        };
        let zero_asset: BTreeMap<Bytes, u64> = BTreeMap::from([(Bytes::from(vec![0x61]), 0)]);
        let legacy_output = pallas_primitives::alonzo::TransactionOutput {
            address,
            amount: pallas_primitives::alonzo::Value::Multiasset(
                coin,
                BTreeMap::from([(pallas_crypto::hash::Hash::<28>::new([7; 28]), zero_asset)]),
            ),
            datum_hash: None,
        };
        tx_body.outputs[0] = TransactionOutput::Legacy(legacy_output.into());
        tx_body.fee += 1_000_000; // the legacy output is a few bytes longer: keep the fee above the minimum
        let mut tx_buf: Vec<u8> = Vec::new();
        let _ = encode(tx_body, &mut tx_buf);
        mtx.transaction_body =
            Decode::decode(&mut Decoder::new(tx_buf.as_slice()), &mut ()).unwrap();
        let metx: MultiEraTx = MultiEraTx::from_conway(&mtx);
        let env: Environment = Environment {
            prot_params: MultiEraProtocolParameters::Conway(mk_mainnet_params_epoch_365()),
            prot_magic: 764824073,
            block_slot: 72316896,
            network_id: 1,
            acnt: Some(AccountState {
                treasury: 261_254_564_000_000,
                reserves: 0,
            }),
        };
        let mut cert_state: CertState = CertState::default();
        match validate_txs(&[metx], &env, &utxos, &mut cert_state) {
            Ok(()) => panic!("A zero asset quantity should be rejected"),
            Err(err) => match err {
                PostAlonzo(PostAlonzoError::ZeroAssetQuantity) => (),
                _ => panic!("Unexpected error ({err:?})"),
            },
        }
    }
