#!/bin/bash
# Regression corpus for the rules themselves.  variants/<Cnn>/break-*.diff must be REPORTED by ./check Cnn,
# variants/<Cnn>/benign-*.diff (behaviour-preserving rewrites of the anchored code) must stay SILENT.
# Each variant is applied to a scratch copy of /repo (never /repo itself); the check is pointed at it with
# PALLAS_REPO, so reports/evidence go to <scratch>/.verif-out and /verif/evidence is untouched.
# usage: tools/variants_check.sh [Cnn ...]     exit 0 iff every variant behaved as its name says
set -u
cd "$(dirname "$0")/.."
ids="$@"; [ -z "$ids" ] && ids=$(ls variants 2>/dev/null)
fail=0
for id in $ids; do
  for v in variants/$id/*.diff; do
    [ -f "$v" ] || continue
    name=$(basename $v .diff)
    S=$(mktemp -d /var/tmp/pallas_var_XXXXXX)
    rsync -a --exclude target --exclude .git /repo/ $S/
    if ! (cd $S && patch -p1 -s < /verif/$v); then
      echo "$id/$name: PATCH-DOES-NOT-APPLY"; fail=1; rm -rf $S; continue
    fi
    out=$(PALLAS_REPO=$S ./check $id 2>&1); rc=$?
    nv=$(echo "$out" | grep -c '^VIOLATION')
    case $name in
      break-*)  if [ $rc -ne 0 ] && [ $nv -ge 1 ]; then echo "$id/$name: reported (ok)"; else echo "$id/$name: MISSED"; fail=1; fi ;;
      benign-*) if [ $rc -eq 0 ] && [ $nv -eq 0 ]; then echo "$id/$name: silent (ok)"; else echo "$id/$name: FALSE-ALARM"; echo "$out" | grep 'violation:' | head -5; fail=1; fi ;;
      *) echo "$id/$name: unknown prefix" ;;
    esac
    rm -rf $S
  done
done
exit $fail
