#!/bin/bash
# Confirm that each seeded mutation (seeded/<id>/patch.diff) is reported by ./check <id>.
# The mutant lives in a scratch copy of /repo (never /repo itself); the check is pointed at it with
# PALLAS_REPO, so its evidence/report go to <scratch>/.verif-out and /verif/evidence is untouched.
# usage: tools/mutate_check.sh [ids...]      exit 0 iff every listed mutation was reported
set -u
cd "$(dirname "$0")/.."
ids="$@"; [ -z "$ids" ] && ids=$(ls seeded)
fail=0
for id in $ids; do
  [ -f seeded/$id/patch.diff ] || continue
  S=$(mktemp -d /var/tmp/pallas_mut_XXXXXX)
  rsync -a --exclude target --exclude .git /repo/ $S/
  if ! (cd $S && patch -p1 -s < /verif/seeded/$id/patch.diff); then
    if grep -q '"superseded_by"' seeded/$id/meta.json 2>/dev/null; then
      echo "$id: patch no longer applies — superseded by a later fix commit (see meta.json), skipped"; rm -rf $S; continue
    fi
    echo "$id: patch does not apply"; fail=1; rm -rf $S; continue
  fi
  prop=$(jq -r '.property // empty' seeded/$id/meta.json 2>/dev/null | cut -c1-3); [ -z "$prop" ] && prop=${id%%-*}
  out=$(PALLAS_REPO=$S ./check $prop --tier quick 2>&1); rc=$?
  if [ $rc -eq 1 ] && echo "$out" | grep -q "^VIOLATION property=$prop "; then
    echo "$id: mutation reported:"; echo "$out" | grep "^\[$prop\] violation" | cut -c1-220
  elif [ $rc -eq 0 ] && grep -q '"result": "MISSED' seeded/$id/meta.json; then
    echo "$id: not reported — documented miss (outside the claimed clause, see seeded/$id/meta.json)"
  else
    echo "$id: MUTATION NOT REPORTED (rc=$rc)"; echo "$out" | tail -5; fail=1
  fi
  rm -rf $S
done
exit $fail
