// Demonstration tests for the C34 findings (value conservation).
//
// Where it goes: copy this file to `pallas-validate/tests/c34_value_conservation.rs`
// (it uses `tests/common.rs` like the other integration tests) and run
//     cargo test --offline -p pallas-validate --test c34_value_conservation
// Every test fails on the unfixed tree and passes once
// `fix-byron-fee-balance.diff` and `fix-multiasset-exact-arithmetic.diff` are applied.

pub mod common;

use std::collections::BTreeMap;

use common::*;
use pallas_codec::utils::Bytes;
use pallas_primitives::{
    AssetName, NonZeroInt, PolicyId,
    alonzo::{Tx, Value},
    byron::TxPayload,
    conway::{Multiasset as ConwayMultiasset, Value as ConwayValue},
};
use pallas_traverse::{Era, MultiEraTx};
use pallas_validate::{
    phase1::validate_txs,
    utils::{
        AccountState, AlonzoProtParams, ByronError, ByronProtParams, CertState, Environment,
        MultiEraProtocolParameters, PostAlonzoError, UTxOs, ValidationError,
        conway_add_minted_non_zero, conway_add_values,
    },
};

fn conway_single_asset<A>(amount: A) -> ConwayMultiasset<A> {
    let policy = PolicyId::from([0u8; 28]);
    let asset_name = AssetName::from(b"asset".to_vec());
    let mut assets = BTreeMap::new();
    assets.insert(asset_name, amount);
    let mut multiasset = BTreeMap::new();
    multiasset.insert(policy, assets);
    multiasset
}

// ---------------------------------------------------------------------------------------------
// Alonzo-compatible eras (Mary, Alonzo, Babbage share `add_values`): asset quantities were summed
// as `amount as i64`.  Mainnet transaction 65160f40…f7ba (tests/alonzo.rs,
// `successful_mainnet_tx_with_plutus_script`) spends one `Hypebeasts2423` token and produces one.
// With a UTxO set in which its first input holds 2 and its second input holds 2^64-1 of that token
// the transaction consumes 2^64+1 tokens and still produces 1: it must not validate.
// Unfixed: 2 + ((2^64-1) as i64) = 2 + (-1) = 1 and the transaction is accepted.
#[test]
fn alonzo_tx_destroying_two_to_the_64_tokens_is_rejected() {
    let cbor_bytes: Vec<u8> = cbor_to_bytes(include_str!("../../test_data/alonzo2.tx"));
    let mtx: Tx = minted_tx_from_cbor(&cbor_bytes);
    let metx: MultiEraTx = MultiEraTx::from_alonzo_compatible(&mtx, Era::Alonzo);
    let hype = |ada: u64, quantity: u64| {
        Value::Multiasset(
            ada,
            [(
                "b001076b34a87e7d48ec46703a6f50f93289582ad9bdbeff7f1e3295"
                    .parse()
                    .unwrap(),
                [(
                    Bytes::from(hex::decode("4879706562656173747332343233").unwrap()),
                    quantity,
                )]
                .into(),
            )]
            .into(),
        )
    };
    let wallet = String::from(
        "01c81ffcbc08ff49965d74f90c391541ff1cc2b043ffe41c81d840be8729f2ae5ed49a1734823ba37fd09923f5f7d494ae0efa23dd98ce02da",
    );
    let mut utxos: UTxOs = mk_utxo_for_alonzo_compatible_tx(
        &mtx.transaction_body,
        &[
            (
                String::from("714a59ebd93ea53d1bbf7f82232c7b012700a0cf4bb78d879dabb1a20a"),
                hype(1724100, 2), // really 1
                Some(
                    hex::decode("0C125EDC771B9E590D96B3C7B01CC24F906BD552CECE6D861BFA5F23281E0BBE")
                        .unwrap()
                        .as_slice()
                        .into(),
                ),
            ),
            (wallet.clone(), hype(20292207, u64::MAX), None), // really ada only
            (wallet.clone(), Value::Coin(20292207), None),
            (wallet.clone(), Value::Coin(29792207), None),
            (wallet.clone(), Value::Coin(29792207), None),
            (wallet.clone(), Value::Coin(61233231), None),
            (wallet.clone(), Value::Coin(20292207), None),
        ],
    );
    add_collateral_alonzo(
        &mtx.transaction_body,
        &mut utxos,
        &[(wallet, Value::Coin(5000000), None)],
    );
    let env: Environment = Environment {
        prot_params: MultiEraProtocolParameters::Alonzo(alonzo_params_epoch_300()),
        prot_magic: 764824073,
        block_slot: 58924928,
        network_id: 1,
        acnt: Some(AccountState {
            treasury: 261_254_564_000_000,
            reserves: 0,
        }),
    };
    let mut cert_state: CertState = CertState::default();
    let res = validate_txs(&[metx], &env, &utxos, &mut cert_state);
    assert!(
        res.is_err(),
        "a transaction that consumes 2^64+1 tokens and produces 1 was accepted"
    );
}

// ---------------------------------------------------------------------------------------------
// Conway: a burn of an asset that the spent outputs do not contain was turned into a huge positive
// quantity (`i64::from(amount) as u64`): inputs with ada only, mint = -5, outputs holding 2^64-5 of
// the asset balanced.
#[test]
fn conway_burn_without_the_asset_is_not_a_huge_mint() {
    let err = ValidationError::PostAlonzo(PostAlonzoError::NegativeValue);
    let burn = conway_single_asset(NonZeroInt::try_from(-5i64).unwrap());

    let consumed = conway_add_minted_non_zero(&ConwayValue::Coin(10_000_000), &burn, &err);

    assert!(
        consumed.is_err(),
        "burning 5 tokens that are not there yields {consumed:?} on the consumed side"
    );
}

// Conway: two spent outputs holding 2^63 of one asset each.  The sum is 2^64, which wrapped to 0 in a
// release build (and panics in a dev build): the consumed side lost 2^64 tokens.
#[test]
fn conway_asset_sum_above_u64_is_an_error_not_a_wrap() {
    let err = ValidationError::PostAlonzo(PostAlonzoError::NegativeValue);
    let half = |ada: u64| {
        ConwayValue::Multiasset(
            ada,
            conway_single_asset(pallas_primitives::PositiveCoin::try_from(1u64 << 63).unwrap()),
        )
    };

    let res = std::panic::catch_unwind(|| conway_add_values(&half(1), &half(1), &err));

    assert!(
        matches!(res, Ok(Err(_))),
        "2^63 + 2^63 tokens must be reported as an error"
    );
}

// ---------------------------------------------------------------------------------------------
// Byron.  Mainnet transaction a06e5a01…1e26 (tests/byron.rs `successful_mainnet_tx`) produces
// 19_998_822_007 lovelace.
fn byron_env() -> Environment {
    Environment {
        prot_params: MultiEraProtocolParameters::Byron(ByronProtParams {
            block_version: (1, 0, 0),
            start_time: 1506203091,
            script_version: 0,
            slot_duration: 20000,
            max_block_size: 2000000,
            max_header_size: 2000000,
            max_tx_size: 4096,
            max_proposal_size: 700,
            mpc_thd: 20000000000000,
            heavy_del_thd: 300000000000,
            update_vote_thd: 1000000000000,
            update_proposal_thd: 100000000000000,
            update_implicit: 10000,
            soft_fork_rule: (900000000000000, 600000000000000, 50000000000000),
            summand: 155381,
            multiplier: 44,
            unlock_stake_epoch: 18446744073709551615,
        }),
        prot_magic: 764824073,
        block_slot: 6341,
        network_id: 1,
        acnt: None,
    }
}

// Spending an output worth 1 lovelace: outputs exceed inputs.  Unfixed: `inputs - outputs` wraps in a
// release build (the fee looks enormous, the transaction is accepted) and panics in a dev build.
#[test]
fn byron_outputs_exceeding_inputs_are_rejected() {
    let cbor_bytes: Vec<u8> = cbor_to_bytes(include_str!("../../test_data/byron1.tx"));
    let mtxp: TxPayload = minted_tx_payload_from_cbor(&cbor_bytes);
    let metx: MultiEraTx = MultiEraTx::from_byron(&mtxp);
    let utxos: UTxOs = mk_utxo_for_byron_tx(
        &mtxp.transaction,
        &[(
            String::from(
                "83581cff66e7549ee0706abe5ce63ba325f792f2c1145d918baf563db2b457a101581e581cca3e553c9c63c5927480e7434620200eb3a162ef0b6cf6f671ba925100",
            ),
            1,
        )],
    );
    let env = byron_env();
    let res = std::panic::catch_unwind(move || {
        let mut cert_state: CertState = CertState::default();
        validate_txs(&[metx], &env, &utxos, &mut cert_state)
    });
    assert!(
        matches!(
            res,
            Ok(Err(ValidationError::Byron(ByronError::FeesBelowMin)))
        ),
        "outputs exceed inputs: expected FeesBelowMin"
    );
}

// The same transaction spending a *redeem* output worth 1 lovelace.  Redeem-only transactions pay no
// fee, but they cannot create value either.  Unfixed: the fee rule returns Ok without comparing inputs
// with outputs, and validation goes on to the witness rule (a different error is reported).
#[test]
fn byron_redeem_only_tx_cannot_create_value() {
    let cbor_bytes: Vec<u8> = cbor_to_bytes(include_str!("../../test_data/byron1.tx"));
    let mtxp: TxPayload = minted_tx_payload_from_cbor(&cbor_bytes);
    let metx: MultiEraTx = MultiEraTx::from_byron(&mtxp);
    // address payload [root, {}, 2]: a redeem address
    let redeem_payload = format!("83581c{}a002", "ab".repeat(28));
    let utxos: UTxOs = mk_utxo_for_byron_tx(&mtxp.transaction, &[(redeem_payload, 1)]);
    let env = byron_env();
    let mut cert_state: CertState = CertState::default();
    let res = validate_txs(&[metx], &env, &utxos, &mut cert_state);
    assert!(
        matches!(
            res,
            Err(ValidationError::Byron(ByronError::FeesBelowMin))
        ),
        "redeem-only transaction producing more than it consumes: expected FeesBelowMin, got {res:?}"
    );
}

// copy of `mk_params_epoch_300` of tests/alonzo.rs
fn alonzo_params_epoch_300() -> AlonzoProtParams {
    use pallas_primitives::alonzo::{ExUnitPrices, ExUnits, Language, Nonce, NonceVariant, RationalNumber};
    AlonzoProtParams {
        system_start: chrono::DateTime::parse_from_rfc3339("2017-09-23T21:44:51Z").unwrap(),
        epoch_length: 432000,
        slot_length: 1,
        minfee_a: 44,
        minfee_b: 155381,
        max_block_body_size: 81920,
        max_transaction_size: 16384,
        max_block_header_size: 1100,
        key_deposit: 2000000,
        pool_deposit: 500000000,
        maximum_epoch: 18,
        desired_number_of_stake_pools: 500,
        pool_pledge_influence: RationalNumber {
            numerator: 3,
            denominator: 10,
        },
        expansion_rate: RationalNumber {
            numerator: 3,
            denominator: 1000,
        },
        treasury_growth_rate: RationalNumber {
            numerator: 2,
            denominator: 10,
        },
        decentralization_constant: RationalNumber {
            numerator: 0,
            denominator: 1,
        },
        extra_entropy: Nonce {
            variant: NonceVariant::NeutralNonce,
            hash: None,
        },
        protocol_version: (6, 0),
        min_pool_cost: 340000000,
        ada_per_utxo_byte: 34482,
        cost_models_for_script_languages: [(
            Language::PlutusV1,
            vec![
                197209, 0, 1, 1, 396231, 621, 0, 1, 150000, 1000, 0, 1, 150000, 32, 2477736,
                29175, 4, 29773, 100, 29773, 100, 29773, 100, 29773, 100, 29773, 100, 29773,
                100, 100, 100, 29773, 100, 150000, 32, 150000, 32, 150000, 32, 150000, 1000, 0,
                1, 150000, 32, 150000, 1000, 0, 8, 148000, 425507, 118, 0, 1, 1, 150000, 1000,
                0, 8, 150000, 112536, 247, 1, 150000, 10000, 1, 136542, 1326, 1, 1000, 150000,
                1000, 1, 150000, 32, 150000, 32, 150000, 32, 1, 1, 150000, 1, 150000, 4,
                103599, 248, 1, 103599, 248, 1, 145276, 1366, 1, 179690, 497, 1, 150000, 32,
                150000, 32, 150000, 32, 150000, 32, 150000, 32, 150000, 32, 148000, 425507,
                118, 0, 1, 1, 61516, 11218, 0, 1, 150000, 32, 148000, 425507, 118, 0, 1, 1,
                148000, 425507, 118, 0, 1, 1, 2477736, 29175, 4, 0, 82363, 4, 150000, 5000, 0,
                1, 150000, 32, 197209, 0, 1, 1, 150000, 32, 150000, 32, 150000, 32, 150000, 32,
                150000, 32, 150000, 32, 150000, 32, 3345831, 1, 1,
            ],
        )]
        .into(),
        execution_costs: ExUnitPrices {
            mem_price: RationalNumber {
                numerator: 577,
                denominator: 10000,
            },
            step_price: RationalNumber {
                numerator: 721,
                denominator: 10000000,
            },
        },
        max_tx_ex_units: ExUnits {
            mem: 14000000,
            steps: 10000000000,
        },
        max_block_ex_units: ExUnits {
            mem: 62000000,
            steps: 40000000000,
        },
        max_value_size: 5000,
        collateral_percentage: 150,
        max_collateral_inputs: 3,
    }
}
