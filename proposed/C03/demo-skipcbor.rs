// Demonstration for the C03 known finding (would go to pallas-codec/tests/c03_skipcbor.rs): the wrapper decodes but
// panics when encoded.
use pallas_codec::minicbor;
use pallas_codec::utils::SkipCbor;

#[test]
#[should_panic(expected = "not yet implemented")]
fn skipcbor_cannot_be_encoded() {
    let v: SkipCbor<0> = minicbor::decode(&[0x01]).unwrap();
    let _ = minicbor::to_vec(v);
}
