"""C23 — original-stack agents follow the mini-protocol state machines.

Decides, for every agent (protocol x role) of pallas-network named by the property:
 (1) send/receive acceptance: the effective relations
        can_send(s, m) = has_agency(s) and assert_outbound_state(s, m) = Ok
        can_recv(s, m) = not has_agency(s) and assert_inbound_state(s, m) = Ok
     tabulated from MIR (E2) equal the specification's relation for the agent's role, cell by cell
     (send exactly what the role may send in s; receive exactly what the peer may send; nothing in terminal states);
 (2) next state: every `pub async fn` that sends or receives a message and then assigns the agent's state assigns the
     state the specification prescribes for that message (read from the type-resolved HIR of the async bodies)."""
import json
import os
import re
from pv.program import Program
from pv.report import Result, finish
from pv.tabulate import tabulate, cond_variants, strip_adt
from pv.facts import VERIF
from pv.mir import sym_str

AGENTS = [  # (module, spec protocol, [(role, agent-type regex)])
    ("blockfetch", "blockfetch"), ("chainsync", "chainsync"), ("handshake", "handshake"), ("keepalive", "keepalive"),
    ("localstate", "localstate"), ("localtxsubmission", "localtxsubmission"), ("peersharing", "peersharing"),
    ("txmonitor", "txmonitor"), ("txsubmission", "txsubmission"),
]
NAMES = {  # Rust variant -> spec name (messages), per module, only where they differ
    "handshake": {"Propose": "ProposeVersions", "Accept": "AcceptVersion"},
    "keepalive": {"ResponseKeepAlive": "KeepAliveResponse"},
    "txmonitor": {"ResponseNextTx": "ReplyNextTx", "ResponseHasTx": "ReplyHasTx", "ResponseSizeAndCapacity": "ReplyGetSizes",
                  "RequestNextTx": "NextTx", "RequestHasTx": "HasTx", "RequestSizeAndCapacity": "GetSizes"},
    "blockfetch": {},
    "localstate": {},
}
STATE_NAMES = {
    "txsubmission": {},
}


def table_of(P, f):
    """rows: list of (state-set or None, msg-set or None, outcome) for a has_agency/assert_* function."""
    rows = []
    for p in tabulate(f, P, 2048):
        if p.end != "return":
            continue
        st = msg = None
        extra = []
        for c in p.conds:
            cv = cond_variants(P, c)
            if cv is None:
                extra.append(sym_str(c[0]))
                continue
            subj, names = cv
            if subj == "*msg":
                msg = names if msg is None else (msg & names)
            elif names & {"true", "false"} and not names - {"true", "false"}:
                extra.append((subj, tuple(sorted(names))))
            else:
                st = names if st is None else (st & names)
        r = p.ret
        if r is not None and r[0] == "agg":
            out = r[2]
        elif r is not None and r[0] == "const":
            out = bool(int(r[1]))
        else:
            out = None
        rows.append((st, msg, out, extra))
    return rows


def lookup(rows, s, m):
    outs = set()
    for st, msg, out, extra in rows:
        if (st is None or s in st) and (msg is None or m is None or m in msg):
            outs.add(out)
    return outs


def agent_transitions(f):
    """[(direction, message variant, assigned state variant or None)] from one method's HIR."""
    from pv import hirwalk as hw
    h = f.hir
    if h is None:
        return [], 0
    lets = {}
    for n in hw.walk(h["root"]):
        if n.get("k") == "let" and n.get("init") is not None and n["pat"].get("k") == "bind":
            lets[n["pat"]["lid"]] = n["init"]
    out = []
    unknown = 0

    def msg_of(arg):
        a = hw.strip(arg)
        cv = hw.ctor_variant(a)
        if cv:
            return cv[1]
        if isinstance(a, dict) and a.get("k") == "path" and a.get("rk") == "Local":
            init = lets.get(a.get("lid"))
            if init is not None:
                cv = hw.ctor_variant(init)
                if cv:
                    return cv[1]
        return None

    def state_assigns(node):
        res_ = []
        for n in hw.walk(node):
            if n.get("k") == "assign":
                cv = hw.ctor_variant(n["rhs"])
                lhs = n["lhs"]
                root = lhs
                while isinstance(root, dict) and root.get("k") in ("field", "un", "index"):
                    root = root.get("e") or root.get("a")
                if cv and cv[0].endswith("::State") and hw.is_local(root, "self"):
                    res_.append(cv[1])
        return res_

    def contains_call(node, suffix):
        for n in hw.walk(node):
            if n.get("k") == "mcall" and (n.get("def") or "").endswith(suffix):
                return n
        return None

    def visit_seq(node, after_send=None):
        """walk a statement sequence keeping track of the last message sent"""
        nonlocal unknown
        k = node.get("k") if isinstance(node, dict) else None
        if k == "block":
            cur = after_send
            items = list(node.get("stmts", []))
            if node.get("expr") is not None:
                items.append({"k": "expr", "e": node["expr"]})
            for st in items:
                e = st.get("init") if st.get("k") == "let" else st.get("e")
                if e is None:
                    continue
                cur = visit_seq(e, cur)
            return cur
        if k == "match":
            rc = contains_call(node["scrut"], "::recv_message")
            if rc is not None:
                for arm in node["arms"]:
                    vs = hw.pat_variants(arm["pat"])
                    if not vs:
                        continue
                    asg = state_assigns(arm["body"])
                    for (adt, v) in vs:
                        if adt and adt.endswith("::Message"):
                            if asg:
                                for a in asg:
                                    out.append(("recv", v, a))
                            else:
                                out.append(("recv", v, None))
                return after_send
            cur = after_send
            for arm in node["arms"]:
                visit_seq(arm["body"], cur)
            return cur
        if k in ("if",):
            visit_seq(node["then"], after_send)
            if node.get("else") is not None:
                visit_seq(node["else"], after_send)
            return after_send
        if not isinstance(node, dict):
            return after_send
        # expression statement: a send?
        sc = contains_call(node, "::send_message")
        if sc is not None and k != "closure":
            m = msg_of(sc["args"][0]) if sc.get("args") else None
            if m is None:
                unknown += 1
                return None
            out.append(("send", m, "__pending__"))
            return m
        if k == "assign" and after_send is not None:
            cv = hw.ctor_variant(node["rhs"])
            if cv and cv[0].endswith("::State"):
                for i in range(len(out) - 1, -1, -1):
                    if out[i][0] == "send" and out[i][1] == after_send:
                        if out[i][2] == "__pending__":
                            out[i] = ("send", after_send, cv[1])
                        else:
                            out.append(("send", after_send, cv[1]))
                        break
            return after_send
        if k in ("closure",):
            return visit_seq(node["body"], after_send)
        if k in ("loop", "for"):
            visit_seq(node["body"], after_send)
            return after_send
        return after_send

    visit_seq(h["root"])
    out = [(d, m, (None if s_ == "__pending__" else s_)) for d, m, s_ in out]
    return out, unknown


def check_gates(res, P):
    from pv import hirwalk as hw
    n = 0
    for module, proto in AGENTS:
        for role in ("client", "server"):
            for fname, need_before, chan, need_after in (("send_message", ["assert_agency_is_ours", "assert_outbound_state"], "send_msg_chunks", []),
                                                        ("recv_message", ["assert_agency_is_theirs"], "recv_full_msg", ["assert_inbound_state"])):
                fs = P.find(r"^pallas_network::miniprotocols::%s::%s::\w+(::<.*>)?::%s$" % (module, role, fname))
                if not fs:
                    continue
                f = fs[0]
                n += 1
                seq = []
                tried = set()
                for node in hw.walk(f.hir["root"]):
                    if node.get("k") == "try":
                        inner = hw.strip(node["e"])
                        if isinstance(inner, dict) and inner.get("k") == "mcall":
                            tried.add(inner.get("name"))
                        elif isinstance(inner, dict):
                            for sub in hw.walk(inner):
                                if sub.get("k") == "mcall":
                                    tried.add(sub.get("name"))
                    if node.get("k") == "mcall":
                        seq.append(node.get("name"))
                key = "gate:%s:%s:%s" % (module, role, fname)
                problems = []
                if chan not in seq:
                    problems.append("no %s call" % chan)
                else:
                    ci = seq.index(chan)
                    for nb in need_before:
                        if nb not in seq or seq.index(nb) > ci:
                            problems.append("%s is not called before %s" % (nb, chan))
                        elif nb not in tried:
                            problems.append("the result of %s is not propagated with `?`" % nb)
                    for na in need_after:
                        if na not in seq or seq.index(na) < ci:
                            problems.append("%s is not called after %s" % (na, chan))
                        elif na not in tried:
                            problems.append("the result of %s is not propagated with `?`" % na)
                if problems:
                    res.violation(key, "%s::%s::%s does not gate the channel on the state tables: %s" % (module, role, fname, "; ".join(problems)),
                                  where="%s:%s" % (f.file, f.line), rule="R-ORDER")
                else:
                    res.ok(key, "R-ORDER", "tables consulted (%s) and propagated around %s" % (", ".join(need_before + need_after), chan))
    return n


def check_next_states(res, P, spec):
    n = 0
    unknown_total = 0
    for module, proto in AGENTS:
        sp = spec[proto]
        mmap = NAMES.get(module, {})
        for role in ("client", "server"):
            peer = "server" if role == "client" else "client"
            methods = [f for f in P.find(r"^pallas_network::miniprotocols::%s::%s::\w+(::<.*>)?::\w+$" % (module, role))
                       if f.b.get("asyncness") and f.name not in ("send_message", "recv_message")]
            for f in sorted(methods, key=lambda f: f.path):
                trans, unknown = agent_transitions(f)
                unknown_total += unknown
                grouped = {}
                for d, m, nxt in trans:
                    grouped.setdefault((d, m), set()).add(nxt)
                for (d, m), nxts in sorted(grouped.items()):
                    n += 1
                    sm = mmap.get(m, m)
                    who = role if d == "send" else peer
                    by_src = {}
                    for (s_, mm, g, t) in sp["transitions"]:
                        if mm == sm and sp["states"][s_] == who:
                            by_src.setdefault(s_, set()).add(t)
                    key = "next:%s:%s:%s:%s:%s" % (module, role, f.name, d, m)
                    if not by_src:
                        res.violation(key + "=>unspecified", "%s::%s::%s %ss %s, which the specification does not let the %s send" % (module, role, f.name, d, m, who),
                                      where="%s:%s" % (f.file, f.line), rule="R-NEXT")
                        continue
                    bad = None
                    for s_, want in by_src.items():
                        eff = {(x if x is not None else s_) for x in nxts}
                        if eff != want:
                            bad = (s_, want, eff)
                            break
                    if bad:
                        s_, want, eff = bad
                        res.violation(key + "=>" + "|".join(sorted(str(x) for x in nxts)), "%s::%s::%s leaves the agent in %s after %s %s (from %s) but the specification prescribes %s" % (
                            module, role, f.name, sorted(eff), "sending" if d == "send" else "receiving", m, s_, sorted(want)), where="%s:%s" % (f.file, f.line), rule="R-NEXT")
                    else:
                        res.ok(key, "R-NEXT", "state after %s %s is %s as specified" % (d, m, sorted(str(x) for x in nxts)))
    res.count("send sites with unclassified message", unknown_total)
    return n


def check_reject_without_state_change(res, P):
    """Clause (4) — "rejects everything else with an error rather than a state change": a state assignment made after a
    message was received but *before* its variant was examined is unconditional; if the same message is afterwards matched
    with a rejecting arm (an arm that yields Err), the rejection leaves a changed state.  Looked for in one method and through
    receive helpers (a method that receives a message, assigns the state outside any arm on the message and hands the message
    back).  HIR, so independent of how the match is spelled (match / if let / matches!)."""
    from pv import hirwalk as hw
    n = 0

    def is_state_assign(nd):
        if nd.get("k") != "assign":
            return False
        cv = hw.ctor_variant(nd["rhs"])
        root = nd["lhs"]
        while isinstance(root, dict) and root.get("k") in ("field", "un", "index"):
            root = root.get("e") or root.get("a")
        return bool(cv and cv[0].endswith("::State") and hw.is_local(root, "self"))

    def msg_match_nodes(root):
        """(match node, has rejecting arm) for every match/if-let whose arms test Message variants."""
        out = []
        for nd in hw.walk(root):
            if nd.get("k") != "match":
                continue
            arms = nd.get("arms", [])
            on_msg = any((hw.pat_variants(a["pat"]) or set()) and any((adt or "").endswith("::Message") for adt, _ in hw.pat_variants(a["pat"])) for a in arms)
            if not on_msg:
                continue
            rej = False
            for a in arms:
                for sub in hw.walk(a["body"]):
                    cv = hw.ctor_variant(sub) if isinstance(sub, dict) else None
                    if cv and cv[0] == "core::result::Result" and cv[1] == "Err":
                        rej = True
            out.append((nd, rej))
        return out

    def inside(node, container):
        return any(x is node for x in hw.walk(container))

    methods = {}
    for module, proto in AGENTS:
        for role in ("client", "server"):
            for f in P.find(r"^pallas_network::miniprotocols::%s::%s::\w+(::<.*>)?::\w+$" % (module, role)):
                if f.b.get("asyncness") and f.hir is not None and f.name not in ("send_message",):
                    methods[f.path] = f
    # summary: methods that receive and then assign the state outside every arm on the message
    def uncond_assigns(f):
        root = f.hir["root"]
        recvs = [nd for nd in hw.walk(root) if nd.get("k") == "mcall" and ((nd.get("def") or "").endswith("::recv_message") or (nd.get("def") or "") in helper_paths)]
        if not recvs:
            return []
        mm = msg_match_nodes(root)
        out = []
        for nd in hw.walk(root):
            if isinstance(nd, dict) and is_state_assign(nd):
                if not any(inside(nd, a["body"]) for m_, _ in mm for a in m_["arms"]):
                    out.append(hw.ctor_variant(nd["rhs"])[1])
        return out

    helper_paths = set()
    changed = True
    summaries = {}
    while changed:
        changed = False
        for pth, f in methods.items():
            if f.name == "recv_message":
                continue
            ua = uncond_assigns(f)
            if ua and pth not in helper_paths:
                helper_paths.add(pth.split("::<")[0])
                helper_paths.add(pth)
                summaries[pth] = ua
                changed = True
    for pth, f in sorted(methods.items()):
        if f.name == "recv_message":
            continue
        root = f.hir["root"]
        mm = msg_match_nodes(root)
        if not mm:
            continue
        n += 1
        bad = None
        own = summaries.get(pth)
        for m_, rej in mm:
            if not rej:
                continue
            if own:
                bad = "assigns %s after receiving and before the message is examined, then rejects some messages" % sorted(set(own))
            for nd in hw.walk(m_["scrut"]):
                if nd.get("k") == "mcall" and (nd.get("def") or "") in summaries and (nd.get("def") or "") != pth:
                    bad = "matches the message returned by %s, which has already assigned %s, and rejects some messages" % (nd.get("name"), sorted(set(summaries[nd["def"]])))
            # message bound to a local by a helper call earlier in this method
            for nd in hw.walk(root):
                if nd.get("k") == "let" and nd.get("init") is not None:
                    for sub in hw.walk(nd["init"]):
                        if sub.get("k") == "mcall" and (sub.get("def") or "") in summaries and (sub.get("def") or "") != pth:
                            bad = "examines a message obtained from %s, which has already assigned %s, and rejects some messages" % (sub.get("name"), sorted(set(summaries[sub["def"]])))
        key = "reject-keeps-state:%s" % pth.split("miniprotocols::")[-1]
        if bad:
            res.violation(key, "%s %s: a rejected message leaves a changed agent state" % (pth, bad), where="%s:%s" % (f.file, f.line), rule="R-ORDER")
        else:
            res.ok(key, "R-ORDER", "every state assignment that follows a receive sits in an arm on the received message")
    return n


def run(tier):
    res = Result("C23", tier, level="other")
    spec = json.load(open(os.path.join(VERIF, "spec", "ouroboros.json")))["protocols"]
    P = Program(crates=["pallas_network"])
    n_agents = 0
    n_cells = 0
    for module, proto in AGENTS:
        sp = spec[proto]
        for role in ("client", "server"):
            fs = {}
            for fname in ("has_agency", "assert_outbound_state", "assert_inbound_state"):
                found = P.find(r"^pallas_network::miniprotocols::%s::%s::\w+(::<.*>)?::%s$" % (module, role, fname))
                if len(found) == 1:
                    fs[fname] = found[0]
            if not fs:
                if (module, role) == ("txmonitor", "server"):
                    continue  # pallas has no tx-monitor server agent
                res.violation("anchor:%s:%s" % (module, role), "agent %s::%s not found" % (module, role), rule="anchor")
                continue
            if len(fs) != 3:
                res.violation("anchor:%s:%s:fns" % (module, role), "agent %s::%s lacks one of has_agency/assert_outbound_state/assert_inbound_state (%s)" % (module, role, sorted(fs)), rule="anchor")
                continue
            n_agents += 1
            try:
                t_ag = table_of(P, fs["has_agency"])
                t_out = table_of(P, fs["assert_outbound_state"])
                t_in = table_of(P, fs["assert_inbound_state"])
            except Exception as e:
                res.violation("tabulate:%s:%s" % (module, role), "cannot tabulate the agency functions of %s::%s: %s" % (module, role, e), rule="R-TABLE")
                continue
            # enums: state type from has_agency rows; message from assert rows
            states = set()
            msgs = set()
            for rows in (t_ag, t_out, t_in):
                for st, msg, out, extra in rows:
                    if st:
                        states |= st
                    if msg:
                        msgs |= msg
            # complete variant lists from the ADTs
            st_adt = P.adt("pallas_network::miniprotocols::%s::protocol::State" % module)
            msg_adt = P.adt("pallas_network::miniprotocols::%s::protocol::Message" % module)
            if st_adt is not None:
                states |= {v["name"] for v in st_adt["variants"]}
            if msg_adt is not None:
                msgs |= {v["name"] for v in msg_adt["variants"]}
            mmap = NAMES.get(module, {})
            smap = STATE_NAMES.get(module, {})
            rel = {}
            for (s, m, g, nxt) in sp["transitions"]:
                rel.setdefault((s, m), []).append(nxt)
            spec_msgs = {m for (_, m) in rel}
            for m in sorted(spec_msgs):
                if m not in {mmap.get(x, x) for x in msgs}:
                    res.violation("spec:%s:%s:message:%s" % (module, role, m), "specification message %s of %s has no counterpart among %s" % (m, proto, sorted(msgs)), rule="R-TABLE")
            for s in sorted(states):
                ss = smap.get(s, s)
                agency = sp["states"].get(ss)
                if agency is None:
                    res.violation("spec:%s:%s:state:%s" % (module, role, s), "agent state %s of %s::%s is not a specification state" % (s, module, role), rule="R-TABLE")
                    continue
                ours = lookup(t_ag, s, None)
                key = "agency:%s:%s:%s" % (module, role, s)
                n_cells += 1
                want = (agency == role)
                if ours == {want}:
                    res.ok(key, "R-TABLE", "has_agency(%s) = %s as specified (%s agency)" % (s, want, agency))
                elif agency == "nobody":
                    # not observable: in a terminal state both effective relations below must be empty whatever has_agency says
                    res.ok(key, "R-TABLE", "terminal state: has_agency value is immaterial, the send/receive cells decide")
                else:
                    res.violation(key + "=>" + "|".join(sorted(str(o) for o in ours)), "%s::%s::has_agency(%s) is %s but the specification gives agency to %s" % (module, role, s, sorted(str(o) for o in ours), agency),
                                  where="%s:%s" % (fs["has_agency"].file, fs["has_agency"].line), rule="R-TABLE")
                for m in sorted(msgs):
                    sm = mmap.get(m, m)
                    in_spec = (ss, sm) in rel
                    # effective relations
                    has = lookup(t_ag, s, None)
                    out_ok = lookup(t_out, s, m)
                    in_ok = lookup(t_in, s, m)
                    can_send = (has == {True}) and (out_ok == {"Ok"})
                    maybe_send = (True in has) and ("Ok" in out_ok)
                    can_recv = (has == {False}) and (in_ok == {"Ok"})
                    maybe_recv = (False in has) and ("Ok" in in_ok)
                    want_send = in_spec and agency == role
                    want_recv = in_spec and agency not in (role, "nobody")
                    n_cells += 2
                    ks = "send:%s:%s:%s:%s" % (module, role, s, m)
                    if want_send and can_send:
                        res.ok(ks, "R-TABLE", "may send, as specified")
                    elif not want_send and not maybe_send:
                        res.ok(ks, "R-TABLE", "rejected, as specified")
                    else:
                        res.violation(ks + ("=>accepts" if maybe_send else "=>rejects"), "%s::%s %s to send %s in state %s but the specification %s it for this role" % (
                            module, role, "accepts" if maybe_send else "refuses", m, s, "permits" if want_send else "forbids"),
                            where="%s:%s" % (fs["assert_outbound_state"].file, fs["assert_outbound_state"].line), rule="R-TABLE")
                    kr = "recv:%s:%s:%s:%s" % (module, role, s, m)
                    if want_recv and can_recv:
                        res.ok(kr, "R-TABLE", "may receive, as specified")
                    elif not want_recv and not maybe_recv:
                        res.ok(kr, "R-TABLE", "rejected, as specified")
                    else:
                        res.violation(kr + ("=>accepts" if maybe_recv else "=>rejects"), "%s::%s %s to receive %s in state %s but the specification %s it from the peer" % (
                            module, role, "accepts" if maybe_recv else "refuses", m, s, "permits" if want_recv else "forbids"),
                            where="%s:%s" % (fs["assert_inbound_state"].file, fs["assert_inbound_state"].line), rule="R-TABLE")
                    if len(res.samples) < 30 and in_spec:
                        res.sample({"agent": "%s::%s" % (module, role), "state": s, "message": m, "can_send": can_send, "can_recv": can_recv, "spec": {"agency": agency, "listed": in_spec}})
    # (3) send_message / recv_message consult the tables before touching the channel, and propagate their verdict
    n_gate = check_gates(res, P)
    res.floor("send_message/recv_message gates", n_gate, 34)
    # (2) next-state clause from the HIR of the agents' async methods
    n_trans = check_next_states(res, P, spec)
    res.floor("send/receive sites with a classified message (next-state clause)", n_trans, 60)
    n_rej = check_reject_without_state_change(res, P)
    res.floor("receiving methods inspected for state change before rejection", n_rej, 20)
    res.floor("agents analysed", n_agents, 17)
    res.floor("cells compared", n_cells, 850)
    res.exhaustive = True
    res.trusted += ["spec/ouroboros.json (hand transcription of the Ouroboros network specification)"]
    res.assumptions += ["send_message/recv_message call assert_agency_* and assert_*_state before touching the channel (checked structurally by clause (3) below when built)"]
    return finish(res,
                  explanation="The agency, outbound and inbound tables of all 17 agents are extracted from MIR by finite-domain partial evaluation and compared "
                              "exhaustively with the specification relation for the agent's role.",
                  rule_text="R-TABLE: can_send/can_recv (from has_agency, assert_outbound_state, assert_inbound_state) == spec relation per role, exhaustive over (state x message)",
                  trusted_base=["rustc MIR", "spec/ouroboros.json"])
