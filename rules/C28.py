"""C28 — the P2P initiator never violates a protocol it speaks.

Decides two necessary clauses of the schedule-quantified statement, per *emitter* = (PeerVisitor method of an initiator
sub-behaviour, mini-protocol message it can push as InterfaceCommand::Send):

 R-MARK    re-entrancy.  The per-peer protocol state is advanced only when the interface echoes `Sent`.  A visitor whose trigger
           can recur before that echo (housekeeping, tagged, inbound/outbound message, error — everything except the once-per-
           connection `visit_connected` / once-per-peer `visit_discovered`) and which decides to emit by reading per-peer state
           must, on the emitting path, write per-peer state that its guard reads (the protocol state itself or a marker field of
           InitiatorState).  Otherwise two passes before the echo take the same decision and the same initiator-agency message (or
           a second request) goes out twice, which the peer's state machine (`State::apply`, C24) rejects.
           Writes to the sub-behaviour's own fields (`self.requests.pop_front()`) are not per-peer and do not count.
 R-ONCE    one emission per visit.  The mini-protocols are strict request/response: after one initiator message the agency
           is the peer's.  The push of Send(pid, m) for the visitor's own peer must not lie on a CFG cycle of the visitor or of
           a helper it calls (and the call of an emitting helper must not lie on one) — a loop that can push two messages of
           one protocol to one peer in a single invocation — unless every turn of that cycle writes the per-peer protocol
           state (or a per-peer field the guard reads).  Reported under its own key (`once:`), independent of R-MARK.
 R-PERMIT  the message is permitted by the specification (spec/ouroboros.json, the relation C24 compares `apply` with) in
           every protocol state the emitter's guard admits; a missing guard admits every state.

Guards are read from the tabulated paths (E2) of the visitor and its helpers: discriminant tests on `state.<field>`, boolean
predicate helpers over the state (tabulated recursively, with polarity), in any spelling (`matches!`, `match`, `if let`,
early return, nested `if`, extracted predicate).  Not decided: conformance of longer emitted sequences, payload contents."""
import json
import os
import re
from pv import flow
from pv.program import Program
from pv.report import Result, finish
from pv.tabulate import tabulate, cond_variants, strip_adt, BudgetExceeded
from pv.mir import sym_str, sym_walk, mod_set
from pv.facts import VERIF
from pv.x_misc import sg, where, call_is_mut_receiver

INIT = "pallas_network2::behavior::initiator::"
STATE = INIT + "InitiatorState"
ANY = "pallas_network2::behavior::AnyMessage"
SEND_ADT = r"^pallas_network2::InterfaceCommand$"
ONE_SHOT = {"visit_connected": "a connection is reported Connected once; the per-peer state is reset on disconnect",
            "visit_discovered": "a peer is discovered once"}


def state_param(f):
    for i in range(1, f.argc + 1):
        if re.match(r"^&(?:'\w+ )?(?:mut )?" + re.escape(STATE) + r"$", f.local_ty(i)):
            return i
    return None


def rel_chain(sym, pidx):
    if pidx is None:
        return None
    ch = flow.origin_chain(sym)
    if ch is not None and ch[0] == ("param", pidx):
        return tuple(ch[1])
    return None


def roots_read(sym, pidx):
    """First-field keys of every place rooted at parameter pidx mentioned in the term."""
    out = set()
    for s in sym_walk(sym):
        if s[0] in ("field", "deref", "param", "downcast"):
            rc = rel_chain(s, pidx)
            if rc is not None:
                out.add(rc[:1])
    return out


def merge_and(a, b):
    out = dict(a)
    for k, v in b.items():
        out[k] = (out[k] & v) if k in out and out[k] is not None and v is not None else (v if k not in out or out[k] is None else out[k])
    return out


def merge_or(paths):
    """Union over alternative paths; a key missing on one path is unconstrained there."""
    if not paths:
        return {}
    keys = set()
    for p in paths:
        keys |= set(p)
    out = {}
    for k in keys:
        if all(k in p and p[k] is not None for p in paths):
            s = set()
            for p in paths:
                s |= p[k]
            out[k] = s
    return out


class Analyser:
    def __init__(self, P):
        self.P = P
        self._pred = {}
        self._em = {}
        self._active = set()

    # ------------------------------------------------------------ guards
    def cond_info(self, F, pidx, cond, depth):
        d, c = cond[0], cond[1]
        if d[0] == "discr":
            rc = rel_chain(d[1], pidx)
            if rc is not None:
                if len(rc) <= 1 and not any(s[0] == "downcast" for s in sym_walk(d[1])):
                    cv = cond_variants(self.P, cond)
                    if cv is not None:
                        return {rc: set(cv[1])}, {rc[:1]}
                return {}, {rc[:1]}
            return {}, roots_read(d, pidx)
        if c[0] == "eq":
            want = int(c[1]) != 0
        else:
            excl = [int(x) for x in c[1]]
            want = 0 in excl
        return self.bool_info(F, pidx, d, want, depth)

    def bool_info(self, F, pidx, sym, want, depth):
        while sym[0] in ("ref", "deref") and not rel_chain(sym, pidx):
            sym = sym[1]
        if sym[0] == "un" and sym[1] == "Not":
            return self.bool_info(F, pidx, sym[2], not want, depth)
        if sym[0] == "call":
            rels = [(i + 1, rel_chain(a, pidx)) for i, a in enumerate(sym[2])]
            rels = [(i, rc) for i, rc in rels if rc is not None]
            reads = {rc[:1] for _, rc in rels}
            for a in sym[2]:
                reads |= roots_read(a, pidx)
            G = self.P.fns.get(sym[1])
            if G is not None and depth > 0 and len(rels) == 1:
                gi, rc = rels[0]
                cons, rds = self.pred_summary(G, gi, want, depth - 1)
                mcons = {}
                for k, v in cons.items():
                    mcons[rc + k] = v
                return mcons, reads | {(rc + k)[:1] for k in rds}
            return {}, reads
        return {}, roots_read(sym, pidx)

    def pred_summary(self, G, gi, want, depth):
        key = (G.path, gi, want)
        if key in self._pred:
            return self._pred[key]
        if key in self._active:
            return {}, set()
        self._active.add(key)
        try:
            alts, reads = [], set()
            try:
                paths = tabulate(G, self.P, 2048)
            except BudgetExceeded:
                paths = []
            for p in paths:
                if p.end != "return":
                    continue
                cons = {}
                for c in p.conds:
                    ci, rd = self.cond_info(G, gi, c, depth)
                    cons = merge_and(cons, ci)
                    reads |= rd
                r = p.ret
                if r is None:
                    continue
                if r[0] == "const":
                    try:
                        if bool(int(r[1])) != want:
                            continue
                    except (TypeError, ValueError):
                        pass
                else:
                    ci, rd = self.bool_info(G, gi, r, want, depth)
                    cons = merge_and(cons, ci)
                    reads |= rd
                alts.append(cons)
            out = (merge_or(alts), reads)
        finally:
            self._active.discard(key)
        self._pred[key] = out
        return out

    # ------------------------------------------------------------ marks
    def must_writes(self, G, pi, depth=3):
        """Field chains (relative to parameter pi) written on every returning path of G."""
        key = ("mw", G.path, pi)
        if key in self._pred:
            return self._pred[key]
        if key in self._active or depth <= 0:
            return set()
        self._active.add(key)
        try:
            try:
                paths = [p for p in tabulate(G, self.P, 4096) if p.end == "return"]
            except BudgetExceeded:
                paths = []
            out = None
            for p in paths:
                w = set()
                for pl, val in p.writes:
                    rc = rel_chain(pl, pi)
                    if rc is not None:
                        w.add(rc)
                for callee, args, bb in p.calls:
                    h = self.P.fns.get(callee)
                    if h is not None:
                        for qi in range(1, h.argc + 1):
                            if qi - 1 < len(args):
                                rc = rel_chain(args[qi - 1], pi)
                                if rc is not None:
                                    for ch in self.must_writes(h, qi, depth - 1):
                                        w.add(rc + tuple(ch))
                    else:
                        for i, a in enumerate(args):
                            rc = rel_chain(a, pi)
                            if rc is not None and call_is_mut_receiver(G, bb, i):
                                w.add(rc)
                out = w if out is None else (out & w)
            out = out or set()
        finally:
            self._active.discard(key)
        self._pred[key] = out
        return out

    # ------------------------------------------------------------ one emission per visit
    @staticmethod
    def pid_root(term):
        ch = flow.origin_chain(term)
        if ch is None:
            return "?"
        if ch[0][0] == "param":
            return ("param", ch[0][1])
        return "other"

    def cycle_marked(self, F, pidx, bb, fields):
        """Does every turn of the CFG cycle through bb write one of the per-peer `fields` (keys relative to the state parameter)?"""
        if pidx is None:
            return False
        cyc = [c for c in F.live_blocks() if c == bb or (F.can_reach(c, bb) and F.can_reach(bb, c))]
        wblocks = []
        for c in cyc:
            b = F.blocks[c]
            for st in b["st"]:
                if st[0] == "a" and not isinstance(st[1], int):
                    rc = rel_chain(F.sym_place(st[1]), pidx)
                    if rc and rc[:1] in fields:
                        wblocks.append(c)
            t = b["term"]
            if t["k"] == "call":
                g = self.P.fns.get(t.get("f") or "")
                for i, a in enumerate(t["args"]):
                    rc = rel_chain(F.sym_operand(a), pidx)
                    if rc is None:
                        continue
                    if g is not None:
                        if any((rc + tuple(ch))[:1] in fields for ch in self.must_writes(g, i + 1)):
                            wblocks.append(c)
                    elif rc and rc[:1] in fields and call_is_mut_receiver(F, c, i):
                        wblocks.append(c)
        for w in wblocks:
            if w == bb or not any(s2 == bb or F.can_reach(s2, bb, avoid=(w,)) for s2 in F.succ(bb) if s2 != w):
                return True
        return False

    # ------------------------------------------------------------ messages
    def resolve_msg(self, sym):
        """(AnyMessage variant, {message variants}) of a term of type AnyMessage; None when not resolvable."""
        s = sym
        while s[0] in ("ref", "deref") or (s[0] == "call" and re.search(r"::(clone|into|from)$", sg(s[1])) and len(s[2]) == 1):
            s = s[1] if s[0] != "call" else s[2][0]
        if s[0] == "agg" and str(s[1]) == ANY:
            inner = s[3][0] if s[3] else None
            return s[2], self.msg_variants(inner)
        return None

    def msg_variants(self, inner):
        if inner is None:
            return {"?"}
        s = inner
        while s[0] in ("ref", "deref") or (s[0] == "call" and re.search(r"::(clone|into|from)$", sg(s[1])) and len(s[2]) == 1):
            s = s[1] if s[0] != "call" else s[2][0]
        if s[0] == "agg" and isinstance(s[2], str):
            return {s[2]}
        return {"?"}

    def local_msg_variants(self, F, local):
        """Variants assigned to a multi-definition local of a Message enum type."""
        out = set()
        for bi, si, kind, payload in F.defs().get(local, []):
            if kind == "assign" and payload[2]["k"] == "agg" and payload[2].get("ak") == "adt":
                out.add(payload[2]["variant"])
            elif kind == "assign" and payload[2]["k"] == "use":
                v = self.msg_variants(F.sym_operand(payload[2]["x"]))
                out |= v
            else:
                out.add("?")
        return out or {"?"}

    # ------------------------------------------------------------ emissions
    def emissions(self, F, depth=4):
        if F.path in self._em:
            return self._em[F.path]
        if F.path in self._active:
            return []
        self._active.add(F.path)
        try:
            out = self._emissions(F, depth)
        finally:
            self._active.discard(F.path)
        self._em[F.path] = out
        return out

    def _emissions(self, F, depth):
        P = self.P
        pidx = state_param(F)
        direct = {}
        for bi, si, rv in flow.aggregates(F, SEND_ADT, variant="Send"):
            msym = F.sym_operand(rv["fields"][1])
            r = self.resolve_msg(msym)
            if r is None:
                s = msym
                while s[0] in ("ref", "deref"):
                    s = s[1]
                if s[0] == "param":
                    r = ("<param>", s[1])
                else:
                    r = ("?", {"?"})
            elif "?" in r[1]:
                # message held in a local assigned in several arms
                inner = None
                s = msym
                if s[0] == "agg" and s[3]:
                    inner = s[3][0]
                    while inner[0] in ("ref", "deref"):
                        inner = inner[1]
                if inner is not None and inner[0] == "local":
                    r = (r[0], self.local_msg_variants(F, inner[1]))
                elif inner is not None and inner[0] == "param":
                    r = (r[0], ("<param>", inner[1]))
            direct.setdefault(bi, []).append(r + (self.pid_root(F.sym_operand(rv["fields"][0])),))
        has_sub = False
        for g, t, bi in P.callees(F):
            if g.path.startswith(INIT) and "::tests::" not in g.path and g is not F and depth > 0 and self.emissions(g, depth - 1):
                has_sub = True
        if not direct and not has_sub:
            return []
        try:
            paths = tabulate(F, P, 8192)
        except BudgetExceeded:
            return [{"any": "?", "msgs": {"?"}, "site": (F, 0), "cons": {}, "reads": set(), "writes": set(), "unanalysable": "path budget exceeded in %s" % F.path}]
        recs = {}
        for p in paths:
            if p.end not in ("return", "loop"):
                continue
            evs = []
            for bb in p.blocks:
                for r in direct.get(bb, []):
                    evs.append((r[:2], (F, bb), {}, set(), set(), bb, False, r[2]))
            for callee, args, bb in p.calls:
                g = P.fns.get(callee)
                if g is None or not g.path.startswith(INIT) or depth <= 0:
                    continue
                gp = state_param(g)
                for e in self.emissions(g, depth - 1):
                    if e.get("unanalysable"):
                        evs.append((("?", {"?"}), e["site"], {}, set(), set(), bb, False, "?"))
                        continue
                    spid = e.get("pid", "?")
                    if isinstance(spid, tuple) and spid[0] == "param":
                        spid = self.pid_root(args[spid[1] - 1]) if spid[1] - 1 < len(args) else "?"
                    a_any, a_msgs = e["any"], e["msgs"]
                    if a_any == "<param>":
                        r = self.resolve_msg(args[a_msgs - 1]) if a_msgs - 1 < len(args) else None
                        a_any, a_msgs = r if r is not None else ("?", {"?"})
                    elif isinstance(a_msgs, tuple) and a_msgs and a_msgs[0] == "<param>":
                        j = a_msgs[1]
                        a_msgs = self.msg_variants(args[j - 1]) if j - 1 < len(args) else {"?"}
                    rc = rel_chain(args[gp - 1], pidx) if gp is not None and gp - 1 < len(args) else None
                    cons, reads, writes = {}, set(), set()
                    if rc is not None:
                        cons = {rc + k: v for k, v in e["cons"].items()}
                        reads = {(rc + k)[:1] for k in e["reads"]}
                        writes = {(rc + k)[:1] for k in e["writes"]}
                    evs.append(((a_any, a_msgs), e["site"], cons, reads, writes, bb, bool(e.get("cyclic")), spid))
            if not evs:
                continue
            cons, reads = {}, set()
            for c in p.conds:
                ci, rd = self.cond_info(F, pidx, c, 3)
                cons = merge_and(cons, ci)
                reads |= rd
            writes = set()
            for pl, val in p.writes:
                rc = rel_chain(pl, pidx)
                if rc is not None and rc:
                    writes.add(rc[:1])
            for callee, args, bb in p.calls:
                g = P.fns.get(callee)
                if g is not None:
                    # only what the callee writes on EVERY returning path counts as a mark (a may-write is no evidence)
                    for pi in range(1, g.argc + 1):
                        if pi - 1 >= len(args):
                            continue
                        rc = rel_chain(args[pi - 1], pidx)
                        if rc is None:
                            continue
                        for chain in self.must_writes(g, pi):
                            k = (rc + tuple(chain))[:1]
                            if k:
                                writes.add(k)
                else:
                    for i, a in enumerate(args):
                        rc = rel_chain(a, pidx)
                        if rc is not None and rc and call_is_mut_receiver(F, bb, i):
                            writes.add(rc[:1])
            for (r, site, scons, sreads, swrites, ebb, scyc, spid) in evs:
                a_any, a_msgs = r
                k = (a_any, frozenset(a_msgs) if isinstance(a_msgs, set) else a_msgs, site[0].path, site[1])
                rec = recs.setdefault(k, {"any": a_any, "msgs": a_msgs, "site": site, "alts": [], "reads": set(), "wpaths": [], "evbbs": set(), "pid": spid})
                rec["evbbs"].add((ebb, scyc))
                if rec["pid"] != spid:
                    rec["pid"] = "?"
                rec["alts"].append(merge_and(cons, scons))
                rec["reads"] |= reads | sreads
                rec["wpaths"].append(writes | swrites)
        out = []
        for rec in recs.values():
            # marked only if every emitting path writes; keep the intersection of written keys
            w = None
            for ws in rec["wpaths"]:
                w = set(ws) if w is None else (w & ws)
            fields = set(rec["reads"])
            fld = getattr(self, "fmap", {}).get(rec["any"])
            if fld:
                fields.add((fld,))
            cyclic = any(scyc or (F.in_loop(ebb) and not self.cycle_marked(F, pidx, ebb, fields)) for ebb, scyc in rec["evbbs"])
            out.append({"cyclic": cyclic, "pid": rec["pid"], "any": rec["any"], "msgs": rec["msgs"], "site": rec["site"], "cons": merge_or(rec["alts"]),
                        "reads": rec["reads"], "writes": w or set()})
        return out


def msg_field_map(P, res):
    """AnyMessage variant -> InitiatorState field, read off InitiatorState::apply_msg."""
    f = P.one(r"^" + re.escape(STATE) + r"::apply_msg$")
    out = {}
    for p in tabulate(f, P, 4096):
        if p.end != "return":
            continue
        var = None
        for c in p.conds:
            cv = cond_variants(P, c)
            if cv and cv[0] in ("*msg",) and len(cv[1]) == 1:
                var = next(iter(cv[1]))
        if var is None:
            continue
        for callee, args, bb in p.calls:
            if re.search(r"::protocol::\w+::State(::<.*>)?::apply$", callee) and args:
                ch = flow.origin_chain(args[0])
                if ch and ch[0] == ("param", 1) and len(ch[1]) == 1:
                    out.setdefault(var, ch[1][0])
    return out


def run(tier):
    res = Result("C28", tier, level="other")
    P = Program(crates=["pallas_network2"])
    spec = json.load(open(os.path.join(VERIF, "spec", "ouroboros.json")))
    fmap = msg_field_map(P, res)
    res.floor("AnyMessage -> state field map (apply_msg)", len(fmap), 6)
    st_adt = P.adt(STATE)
    ftype = {fl["name"]: strip_adt(fl["ty"]) for fl in st_adt["variants"][0]["fields"]} if st_adt else {}
    A = Analyser(P)
    A.fmap = fmap
    sites = set()
    for f in P.fns.values():
        if f.path.startswith(INIT) and "::tests::" not in f.path:
            for bi, si, rv in flow.aggregates(f, SEND_ADT, variant="Send"):
                sites.add((f.path, bi))
    res.floor("InterfaceCommand::Send construction sites (non-test)", len(sites), 4)
    visitors = [f for f in P.fns.values() if (f.b.get("impl_trait") or "").endswith("initiator::PeerVisitor") and f.path.startswith("<" + INIT)]
    res.count("PeerVisitor methods", len(visitors))
    covered = set()
    n_emit = 0
    for V in sorted(visitors, key=lambda v: v.path):
        beh = (V.b.get("impl_adt") or "?").rsplit("::", 1)[-1]
        for e in A.emissions(V):
            covered.add((e["site"][0].path, e["site"][1]))
            if e.get("unanalysable"):
                res.violation("emitter:%s::%s:unanalysable" % (beh, V.name), e["unanalysable"], where=where(V), rule="R-MARK")
                continue
            msgs = e["msgs"] if isinstance(e["msgs"], set) else {"?"}
            label = "%s::%s:%s::%s" % (beh, V.name, e["any"], "|".join(sorted(msgs)))
            n_emit += 1
            site_fn, site_bb = e["site"]
            wh = "%s:%s" % (site_fn.file, (site_fn.blocks[site_bb]["st"][-1][3][0] if site_fn.blocks[site_bb]["st"] else site_fn.line))
            field = fmap.get(e["any"])
            if field is None or "?" in msgs:
                res.violation("emitter:%s:unresolved" % label, "cannot resolve which mini-protocol message %s pushes (AnyMessage::%s(%s))" % (V.path, e["any"], sorted(msgs)),
                              where=wh, rule="R-PERMIT")
                continue
            reads = {k[0] for k in e["reads"] if k}
            writes = {k[0] for k in e["writes"] if k}
            res.sample({"emitter": label, "guard reads": sorted(reads), "admits": {k[0]: sorted(v) for k, v in e["cons"].items() if k and v is not None},
                        "writes on the emitting paths": sorted(writes)})
            # ---- R-MARK
            key = "mark:" + label
            if V.name in ONE_SHOT:
                res.ok(key, "R-MARK", "one-shot trigger (%s)" % ONE_SHOT[V.name])
            elif reads & writes:
                res.ok(key, "R-MARK", "the emitting paths write per-peer state the guard reads: %s" % sorted(reads & writes))
            else:
                res.violation(key, "%s::%s pushes Send(%s::%s) after reading per-peer state {%s} but leaves it unchanged (writes on the emitting path: {%s}); the state only "
                              "advances on the interface's Sent echo, so a second pass before the echo emits again and the peer's %s state machine rejects it" % (
                                  beh, V.name, e["any"], "|".join(sorted(msgs)), ", ".join(sorted(reads)) or "nothing", ", ".join(sorted(writes)) or "none", field),
                              where=wh, rule="R-MARK")
            # ---- R-ONCE
            pid_param = 2   # PeerVisitor methods: (self, pid, state, outbound)
            same_peer = e.get("pid") in (("param", pid_param), "?")
            if e.get("cyclic") and same_peer:
                res.violation("once:" + label, "%s::%s can push Send(%s::%s) to its peer more than once in a single invocation: the push lies on a loop that does not advance "
                              "that peer's %s state, so the second message is sent while the agency is the peer's (the mini-protocol is strict request/response)" % (
                                  beh, V.name, e["any"], "|".join(sorted(msgs)), field), where=wh, rule="R-ONCE")
            else:
                res.ok("once:" + label, "R-ONCE", "the push is on no cycle of the visitor or its helpers" if not e.get("cyclic") else "the loop addresses other peers")
            # ---- R-PERMIT
            adt = P.adt(ftype.get(field, ""))
            proto = ftype.get(field, "").split("::protocol::")[-1].split("::")[0]
            sp = spec["protocols"].get(proto)
            if adt is None or sp is None:
                res.violation("permit:%s:no-spec" % label, "no State enum / specification table for protocol field %s" % field, rule="R-PERMIT")
                continue
            names = spec["p2p_names"].get(proto) or {}
            smap, mmap = names.get("states", {}), names.get("messages", {})
            allowed = {(s, m) for (s, m, g, nxt) in sp["transitions"] if sp["states"].get(s) == "client"}
            admitted = e["cons"].get((field,))
            all_states = [v["name"] for v in adt["variants"]]
            if admitted is None:
                admitted = set(all_states)
            for m in sorted(msgs):
                bad = [s for s in sorted(admitted) if (smap.get(s, s), mmap.get(m, m)) not in allowed]
                k = "permit:%s::%s:%s::%s" % (beh, V.name, e["any"], m)
                if bad:
                    res.violation(k + "@" + "|".join(bad), "%s::%s can push %s::%s while the %s state is %s, where the specification gives the initiator no such message "
                                  "(guard admits {%s})" % (beh, V.name, e["any"], m, field, "/".join(bad), ", ".join(sorted(admitted))), where=wh, rule="R-PERMIT")
                else:
                    res.ok(k, "R-PERMIT", "guard admits {%s}; %s is an initiator message there" % (", ".join(sorted(admitted)), m))
    res.floor("emitters (visitor x message)", n_emit, 4)
    for s in sorted(sites - covered):
        res.violation("uncovered-emitter:%s" % s[0].split(INIT)[-1], "InterfaceCommand::Send is constructed in %s, which no PeerVisitor method reaches: the emission is outside the analysed "
                      "visitor protocol" % s[0], rule="R-MARK")
    res.trusted += ["spec/ouroboros.json (agency and transitions)"]
    res.assumptions += ["the interface reports Connected once per connection and the per-peer state is reset on Disconnected (visit_connected is one-shot)",
                        "commands (Housekeeping, ContinueSync, ...) and Idle events may arrive any number of times before a Sent echo"]
    return finish(res,
                  explanation="Per emitter (PeerVisitor method x message) of the initiator: R-MARK — a re-triggerable emitter whose decision reads per-peer "
                              "state must change per-peer state its guard reads on the emitting path, else a second trigger before the Sent echo repeats the "
                              "emission (two housekeeping passes => the same initiator-agency message twice); R-ONCE — the push is on no loop of the visitor or its helpers "
                              "unless each turn advances the peer's protocol state (one request per visit); R-PERMIT — the message is an initiator message of "
                              "the specification in every protocol state the guard admits. Guards are read from tabulated paths, predicates recursively. "
                              "Does NOT decide conformance of longer emitted sequences or payloads.",
                  rule_text="R-MARK(emitters of behavior::initiator) + R-ONCE(no emission on a cycle) + R-PERMIT(message vs guard state against spec/ouroboros.json)",
                  trusted_base=["rustc MIR", "spec/ouroboros.json"])
