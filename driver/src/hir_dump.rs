use crate::json::J;
use crate::Cx;
use rustc_hir as hir;
use rustc_hir::def::{DefKind, Res};
use rustc_hir::def_id::LocalDefId;
use rustc_hir::{Expr, ExprKind, MatchSource, Pat, PatExpr, PatExprKind, PatKind, QPath, StmtKind};
use rustc_middle::ty::{self, Instance, TypeVisitableExt, TypeckResults, TypingEnv};
use std::cell::RefCell;
use std::collections::HashMap;

struct H<'a, 'tcx> {
    cx: &'a Cx<'tcx>,
    tr: &'tcx TypeckResults<'tcx>,
    tenv: TypingEnv<'tcx>,
    types: RefCell<Vec<String>>,
    tindex: RefCell<HashMap<String, usize>>,
}

pub fn dump_hir<'tcx>(cx: &Cx<'tcx>, ldid: LocalDefId) -> J {
    let tcx = cx.tcx;
    let body = tcx.hir_body_owned_by(ldid);
    let tr = tcx.typeck(ldid);
    let h = H {
        cx,
        tr,
        tenv: TypingEnv::post_analysis(tcx, ldid.to_def_id()),
        types: RefCell::new(vec![]),
        tindex: RefCell::new(HashMap::new()),
    };
    let mut params = vec![];
    for p in body.params.iter() {
        params.push(h.pat(p.pat));
    }
    let root = h.expr(body.value);
    let types = h.types.into_inner().into_iter().map(J::Str).collect();
    J::Obj(vec![("params", J::Arr(params)), ("root", root), ("types", J::Arr(types))])
}

impl<'a, 'tcx> H<'a, 'tcx> {
    fn tyidx(&self, t: ty::Ty<'tcx>) -> J {
        let s = self.cx.ty_s(t);
        let mut idx = self.tindex.borrow_mut();
        if let Some(i) = idx.get(&s) {
            return J::Int(*i as i128);
        }
        let mut ts = self.types.borrow_mut();
        let i = ts.len();
        ts.push(s.clone());
        idx.insert(s, i);
        J::Int(i as i128)
    }

    fn res_j(&self, res: Res, o: &mut Vec<(&'static str, J)>) {
        match res {
            Res::Def(kind, did) => {
                o.push(("rk", J::s(defkind_name(kind))));
                o.push(("def", J::s(self.cx.dpath(did))));
                // for constructors, also give the variant/struct path
                let tcx = self.cx.tcx;
                match kind {
                    DefKind::Ctor(rustc_hir::def::CtorOf::Variant, _) => {
                        let v = tcx.parent(did);
                        o.push(("adt", J::s(self.cx.dpath(tcx.parent(v)))));
                        o.push(("variant", J::s(tcx.item_name(v).to_string())));
                    }
                    DefKind::Ctor(rustc_hir::def::CtorOf::Struct, _) => {
                        o.push(("adt", J::s(self.cx.dpath(tcx.parent(did)))));
                    }
                    DefKind::Variant => {
                        o.push(("adt", J::s(self.cx.dpath(tcx.parent(did)))));
                        o.push(("variant", J::s(tcx.item_name(did).to_string())));
                    }
                    DefKind::Struct => {
                        o.push(("adt", J::s(self.cx.dpath(did))));
                    }
                    _ => {}
                }
            }
            Res::Local(hid) => {
                o.push(("rk", J::s("Local")));
                o.push(("local", J::s(self.cx.tcx.hir_name(hid).to_string())));
                o.push(("lid", J::Int(hid.local_id.as_u32() as i128)));
            }
            Res::SelfCtor(did) | Res::SelfTyAlias { alias_to: did, .. } => {
                o.push(("rk", J::s("SelfCtor")));
                o.push(("def", J::s(self.cx.dpath(did))));
            }
            Res::PrimTy(_) => o.push(("rk", J::s("PrimTy"))),
            _ => o.push(("rk", J::s("Other"))),
        }
    }

    fn qpath(&self, qp: &QPath<'tcx>, hid: hir::HirId, o: &mut Vec<(&'static str, J)>) {
        let res = self.tr.qpath_res(qp, hid);
        self.res_j(res, o);
    }

    fn block(&self, b: &'tcx hir::Block<'tcx>) -> J {
        let mut stmts = vec![];
        for s in b.stmts.iter() {
            match &s.kind {
                StmtKind::Let(l) => {
                    let mut o = vec![("k", J::s("let")), ("pat", self.pat(l.pat))];
                    if let Some(i) = l.init {
                        o.push(("init", self.expr(i)));
                    }
                    if let Some(e) = l.els {
                        o.push(("els", self.block(e)));
                    }
                    o.push(("l", J::Int(self.cx.line(l.span))));
                    stmts.push(J::Obj(o));
                }
                StmtKind::Item(_) => {}
                StmtKind::Expr(e) => stmts.push(J::Obj(vec![("k", J::s("expr")), ("e", self.expr(e))])),
                StmtKind::Semi(e) => stmts.push(J::Obj(vec![("k", J::s("semi")), ("e", self.expr(e))])),
            }
        }
        let mut o = vec![("k", J::s("block")), ("stmts", J::Arr(stmts))];
        if let Some(e) = b.expr {
            o.push(("expr", self.expr(e)));
        }
        if !matches!(b.rules, hir::BlockCheckMode::DefaultBlock) {
            o.push(("unsafe", J::Bool(true)));
        }
        J::Obj(o)
    }

    fn callee_fn_path(&self, f: &'tcx Expr<'tcx>) -> Option<(Res, Option<String>)> {
        if let ExprKind::Path(qp) = &f.kind {
            let res = self.tr.qpath_res(qp, f.hir_id);
            // try resolving to an instance (trait method calls written as paths)
            let mut inst = None;
            if let Res::Def(DefKind::Fn | DefKind::AssocFn, did) = res {
                let args = self.tr.node_args(f.hir_id);
                if args.len() == self.cx.tcx.generics_of(did).count() && !args.has_infer() {
                    if let Ok(Some(i)) = Instance::try_resolve(self.cx.tcx, self.tenv, did, args) {
                        inst = Some(self.cx.dpath(i.def_id()));
                    }
                }
            }
            return Some((res, inst));
        }
        None
    }

    fn is_lang_call(&self, e: &'tcx Expr<'tcx>, names: &[&str]) -> Option<&'tcx [Expr<'tcx>]> {
        if let ExprKind::Call(f, args) = &e.kind {
            if let Some((Res::Def(_, did), _)) = self.callee_fn_path(f) {
                let p = self.cx.tcx.def_path_str(did);
                for n in names {
                    if p.ends_with(n) {
                        return Some(args);
                    }
                }
            }
        }
        None
    }

    pub fn expr(&self, e: &'tcx Expr<'tcx>) -> J {
        let mut o: Vec<(&'static str, J)> = vec![];
        let line = self.cx.line(e.span);
        match &e.kind {
            ExprKind::DropTemps(inner) | ExprKind::Use(inner, _) => return self.expr(inner),
            ExprKind::Type(inner, _) => return self.expr(inner),
            ExprKind::ConstBlock(_) => o.push(("k", J::s("constblock"))),
            ExprKind::Array(xs) => {
                o.push(("k", J::s("array")));
                o.push(("xs", J::Arr(xs.iter().map(|x| self.expr(x)).collect())));
            }
            ExprKind::Tup(xs) => {
                o.push(("k", J::s("tup")));
                o.push(("xs", J::Arr(xs.iter().map(|x| self.expr(x)).collect())));
            }
            ExprKind::Call(f, args) => {
                o.push(("k", J::s("call")));
                if let Some((res, inst)) = self.callee_fn_path(f) {
                    self.res_j(res, &mut o);
                    o.push(("inst", J::opt_s(inst)));
                } else {
                    o.push(("f", self.expr(f)));
                }
                o.push(("args", J::Arr(args.iter().map(|x| self.expr(x)).collect())));
            }
            ExprKind::MethodCall(seg, recv, args, _) => {
                o.push(("k", J::s("mcall")));
                o.push(("name", J::s(seg.ident.to_string())));
                if let Some(did) = self.tr.type_dependent_def_id(e.hir_id) {
                    o.push(("def", J::s(self.cx.dpath(did))));
                    let gargs = self.tr.node_args(e.hir_id);
                    if gargs.len() == self.cx.tcx.generics_of(did).count() && !gargs.has_infer() {
                        if let Ok(Some(i)) = Instance::try_resolve(self.cx.tcx, self.tenv, did, gargs) {
                            o.push(("inst", J::s(self.cx.dpath(i.def_id()))));
                        }
                    }
                    let mut targs = vec![];
                    for a in gargs.iter() {
                        if let Some(t) = a.as_type() {
                            targs.push(self.tyidx(t));
                        }
                    }
                    o.push(("targs", J::Arr(targs)));
                }
                o.push(("recv", self.expr(recv)));
                o.push(("rt", self.tyidx(self.tr.expr_ty_adjusted(recv))));
                o.push(("args", J::Arr(args.iter().map(|x| self.expr(x)).collect())));
            }
            ExprKind::Binary(op, a, b) => {
                o.push(("k", J::s("bin")));
                o.push(("op", J::s(format!("{:?}", op.node))));
                o.push(("a", self.expr(a)));
                o.push(("b", self.expr(b)));
                if let Some(did) = self.tr.type_dependent_def_id(e.hir_id) {
                    o.push(("def", J::s(self.cx.dpath(did))));
                }
            }
            ExprKind::Unary(op, a) => {
                o.push(("k", J::s("un")));
                o.push(("op", J::s(format!("{:?}", op))));
                o.push(("a", self.expr(a)));
            }
            ExprKind::Lit(l) => {
                o.push(("k", J::s("lit")));
                o.push(("v", lit_j(&l.node)));
            }
            ExprKind::Cast(a, _) => {
                o.push(("k", J::s("cast")));
                o.push(("a", self.expr(a)));
            }
            ExprKind::Let(l) => {
                o.push(("k", J::s("letx")));
                o.push(("pat", self.pat(l.pat)));
                o.push(("init", self.expr(l.init)));
            }
            ExprKind::If(c, t, el) => {
                o.push(("k", J::s("if")));
                o.push(("c", self.expr(c)));
                o.push(("then", self.expr(t)));
                if let Some(x) = el {
                    o.push(("else", self.expr(x)));
                }
            }
            ExprKind::Loop(b, _, src, _) => {
                o.push(("k", J::s("loop")));
                o.push(("src", J::s(format!("{:?}", src))));
                o.push(("body", self.block(b)));
            }
            ExprKind::Match(scrut, arms, src) => {
                match src {
                    MatchSource::TryDesugar(_) => {
                        if let Some(args) = self.is_lang_call(scrut, &["Try::branch"]) {
                            o.push(("k", J::s("try")));
                            o.push(("e", self.expr(&args[0])));
                            o.push(("l", J::Int(line)));
                            o.push(("t", self.tyidx(self.tr.expr_ty(e))));
                            return J::Obj(o);
                        }
                    }
                    MatchSource::AwaitDesugar => {
                        if let Some(args) = self.is_lang_call(scrut, &["IntoFuture::into_future"]) {
                            o.push(("k", J::s("await")));
                            o.push(("e", self.expr(&args[0])));
                            o.push(("l", J::Int(line)));
                            o.push(("t", self.tyidx(self.tr.expr_ty(e))));
                            return J::Obj(o);
                        }
                    }
                    MatchSource::ForLoopDesugar => {
                        if let Some(j) = self.for_loop(scrut, arms, line) {
                            return j;
                        }
                    }
                    _ => {}
                }
                o.push(("k", J::s("match")));
                o.push(("src", J::s(format!("{:?}", src).split('(').next().unwrap().to_string())));
                o.push(("scrut", self.expr(scrut)));
                let mut as_ = vec![];
                for a in arms.iter() {
                    let mut ao = vec![("pat", self.pat(a.pat))];
                    if let Some(g) = a.guard {
                        ao.push(("guard", self.expr(g)));
                    }
                    ao.push(("body", self.expr(a.body)));
                    ao.push(("l", J::Int(self.cx.line(a.span))));
                    as_.push(J::Obj(ao));
                }
                o.push(("arms", J::Arr(as_)));
            }
            ExprKind::Closure(c) => {
                o.push(("k", J::s("closure")));
                o.push(("def", J::s(self.cx.dpath(c.def_id.to_def_id()))));
                o.push(("ck", J::s(match c.kind {
                    hir::ClosureKind::Closure => "closure".to_string(),
                    other => format!("{:?}", other),
                })));
                let body = self.cx.tcx.hir_body(c.body);
                o.push(("params", J::Arr(body.params.iter().map(|p| self.pat(p.pat)).collect())));
                o.push(("body", self.expr(body.value)));
            }
            ExprKind::Block(b, _) => return self.block(b),
            ExprKind::Assign(a, b, _) => {
                o.push(("k", J::s("assign")));
                o.push(("lhs", self.expr(a)));
                o.push(("rhs", self.expr(b)));
            }
            ExprKind::AssignOp(op, a, b) => {
                o.push(("k", J::s("assignop")));
                o.push(("op", J::s(format!("{:?}", op.node))));
                o.push(("lhs", self.expr(a)));
                o.push(("rhs", self.expr(b)));
            }
            ExprKind::Field(a, id) => {
                o.push(("k", J::s("field")));
                o.push(("name", J::s(id.to_string())));
                o.push(("e", self.expr(a)));
            }
            ExprKind::Index(a, b, _) => {
                o.push(("k", J::s("index")));
                o.push(("e", self.expr(a)));
                o.push(("i", self.expr(b)));
            }
            ExprKind::Path(qp) => {
                o.push(("k", J::s("path")));
                self.qpath(qp, e.hir_id, &mut o);
            }
            ExprKind::AddrOf(_, m, a) => {
                o.push(("k", J::s("ref")));
                o.push(("mut", J::Bool(m.is_mut())));
                o.push(("e", self.expr(a)));
            }
            ExprKind::Break(_, x) => {
                o.push(("k", J::s("break")));
                if let Some(x) = x {
                    o.push(("e", self.expr(x)));
                }
            }
            ExprKind::Continue(_) => o.push(("k", J::s("continue"))),
            ExprKind::Ret(x) => {
                o.push(("k", J::s("ret")));
                if let Some(x) = x {
                    o.push(("e", self.expr(x)));
                }
            }
            ExprKind::Become(x) => {
                o.push(("k", J::s("ret")));
                o.push(("e", self.expr(x)));
            }
            ExprKind::Struct(qp, fields, tail) => {
                o.push(("k", J::s("struct")));
                self.qpath(qp, e.hir_id, &mut o);
                let mut fs = vec![];
                for f in fields.iter() {
                    fs.push(J::Arr(vec![J::s(f.ident.to_string()), self.expr(f.expr)]));
                }
                o.push(("fields", J::Arr(fs)));
                if let hir::StructTailExpr::Base(b) = tail {
                    o.push(("base", self.expr(b)));
                }
            }
            ExprKind::Repeat(a, _) => {
                o.push(("k", J::s("repeat")));
                o.push(("e", self.expr(a)));
            }
            ExprKind::Yield(a, _) => {
                o.push(("k", J::s("yield")));
                o.push(("e", self.expr(a)));
            }
            ExprKind::InlineAsm(_) => o.push(("k", J::s("asm"))),
            ExprKind::OffsetOf(..) => o.push(("k", J::s("offsetof"))),
            ExprKind::UnsafeBinderCast(_, a, _) => return self.expr(a),
            ExprKind::Err(_) => o.push(("k", J::s("err"))),
        }
        o.push(("l", J::Int(line)));
        o.push(("t", self.tyidx(self.tr.expr_ty(e))));
        if e.span.from_expansion() {
            o.push(("x", J::opt_s(self.cx.expn(e.span))));
        }
        J::Obj(o)
    }

    fn for_loop(&self, scrut: &'tcx Expr<'tcx>, arms: &'tcx [hir::Arm<'tcx>], line: i128) -> Option<J> {
        // match IntoIterator::into_iter(ITER) { mut iter => loop { match Iterator::next(&mut iter) { None => break, Some(PAT) => BODY } } }
        let args = self.is_lang_call(scrut, &["IntoIterator::into_iter"])?;
        let iter = &args[0];
        if arms.len() != 1 {
            return None;
        }
        let lp = match &arms[0].body.kind {
            ExprKind::Loop(b, ..) => b,
            _ => return None,
        };
        let inner = if let Some(e) = lp.expr {
            e
        } else if lp.stmts.len() == 1 {
            match &lp.stmts[0].kind {
                StmtKind::Expr(e) | StmtKind::Semi(e) => *e,
                _ => return None,
            }
        } else {
            return None;
        };
        let inner = match &inner.kind {
            ExprKind::DropTemps(x) => *x,
            _ => inner,
        };
        if let ExprKind::Match(_, iarms, MatchSource::ForLoopDesugar) = &inner.kind {
            if iarms.len() == 2 {
                // arm[1] is Some(pat) => body
                let some = &iarms[1];
                let pat = match &some.pat.kind {
                    PatKind::TupleStruct(_, subs, _) if subs.len() == 1 => &subs[0],
                    _ => return None,
                };
                return Some(J::Obj(vec![
                    ("k", J::s("for")),
                    ("pat", self.pat(pat)),
                    ("iter", self.expr(iter)),
                    ("body", self.expr(some.body)),
                    ("l", J::Int(line)),
                ]));
            }
        }
        None
    }

    fn patexpr(&self, pe: &'tcx PatExpr<'tcx>) -> J {
        match &pe.kind {
            PatExprKind::Lit { lit, negated } => {
                let mut o = vec![("k", J::s("lit")), ("v", lit_j(&lit.node))];
                if *negated {
                    o.push(("neg", J::Bool(true)));
                }
                J::Obj(o)
            }
            PatExprKind::Path(qp) => {
                let mut o = vec![("k", J::s("path"))];
                self.qpath(qp, pe.hir_id, &mut o);
                // constants: try to evaluate
                if let Res::Def(DefKind::Const { .. } | DefKind::AssocConst { .. }, did) = self.tr.qpath_res(qp, pe.hir_id) {
                    if self.cx.tcx.generics_of(did).count() == 0 {
                        if let Ok(cv) = self.cx.tcx.const_eval_poly(did) {
                            if let Some(si) = cv.try_to_scalar_int() {
                                let ty = self.cx.tcx.type_of(did).instantiate_identity().skip_norm_wip();
                                o.push(("cv", crate::scalar_to_j(si, ty)));
                            }
                        }
                    }
                }
                J::Obj(o)
            }
        }
    }

    pub fn pat(&self, p: &'tcx Pat<'tcx>) -> J {
        let mut o: Vec<(&'static str, J)> = vec![];
        match &p.kind {
            PatKind::Missing | PatKind::Wild => o.push(("k", J::s("wild"))),
            PatKind::Binding(mode, hid, id, sub) => {
                o.push(("k", J::s("bind")));
                o.push(("name", J::s(id.to_string())));
                o.push(("lid", J::Int(hid.local_id.as_u32() as i128)));
                o.push(("byref", J::Bool(matches!(mode.0, hir::ByRef::Yes(..)))));
                o.push(("mut", J::Bool(mode.1.is_mut())));
                if let Some(s) = sub {
                    o.push(("sub", self.pat(s)));
                }
            }
            PatKind::Struct(qp, fields, rest) => {
                o.push(("k", J::s("struct")));
                self.qpath(qp, p.hir_id, &mut o);
                let mut fs = vec![];
                for f in fields.iter() {
                    fs.push(J::Arr(vec![J::s(f.ident.to_string()), self.pat(f.pat)]));
                }
                o.push(("fields", J::Arr(fs)));
                o.push(("rest", J::Bool(rest.is_some())));
            }
            PatKind::TupleStruct(qp, subs, dd) => {
                o.push(("k", J::s("tstruct")));
                self.qpath(qp, p.hir_id, &mut o);
                o.push(("subs", J::Arr(subs.iter().map(|s| self.pat(s)).collect())));
                if let Some(pos) = dd.as_opt_usize() {
                    o.push(("ddpos", J::Int(pos as i128)));
                }
            }
            PatKind::Or(ps) => {
                o.push(("k", J::s("or")));
                o.push(("alts", J::Arr(ps.iter().map(|s| self.pat(s)).collect())));
            }
            PatKind::Never => o.push(("k", J::s("never"))),
            PatKind::Tuple(subs, dd) => {
                o.push(("k", J::s("tuple")));
                o.push(("subs", J::Arr(subs.iter().map(|s| self.pat(s)).collect())));
                if let Some(pos) = dd.as_opt_usize() {
                    o.push(("ddpos", J::Int(pos as i128)));
                }
            }
            PatKind::Box(s) | PatKind::Deref(s) => {
                o.push(("k", J::s("deref")));
                o.push(("sub", self.pat(s)));
            }
            PatKind::Ref(s, _, _) => {
                o.push(("k", J::s("ref")));
                o.push(("sub", self.pat(s)));
            }
            PatKind::Expr(pe) => {
                o.push(("k", J::s("expr")));
                o.push(("e", self.patexpr(pe)));
            }
            PatKind::Guard(s, g) => {
                o.push(("k", J::s("guard")));
                o.push(("sub", self.pat(s)));
                o.push(("g", self.expr(g)));
            }
            PatKind::Range(lo, hi, end) => {
                o.push(("k", J::s("range")));
                if let Some(l) = lo {
                    o.push(("lo", self.patexpr(l)));
                }
                if let Some(h) = hi {
                    o.push(("hi", self.patexpr(h)));
                }
                o.push(("incl", J::Bool(matches!(end, hir::RangeEnd::Included))));
            }
            PatKind::Slice(a, m, b) => {
                o.push(("k", J::s("slice")));
                o.push(("before", J::Arr(a.iter().map(|s| self.pat(s)).collect())));
                if let Some(m) = m {
                    o.push(("mid", self.pat(m)));
                }
                o.push(("after", J::Arr(b.iter().map(|s| self.pat(s)).collect())));
            }
            PatKind::Err(_) => o.push(("k", J::s("err"))),
        }
        o.push(("t", self.tyidx(self.tr.pat_ty(p))));
        J::Obj(o)
    }
}

fn lit_j(l: &rustc_ast::LitKind) -> J {
    use rustc_ast::LitKind::*;
    match l {
        Str(s, _) => J::Obj(vec![("str", J::s(s.to_string()))]),
        ByteStr(b, _) | CStr(b, _) => J::Obj(vec![("bytes", J::Arr(b.as_byte_str().iter().map(|x| J::Int(*x as i128)).collect()))]),
        Byte(b) => J::Obj(vec![("int", J::Int(*b as i128))]),
        Char(c) => J::Obj(vec![("char", J::s(c.to_string()))]),
        Int(v, _) => {
            let u = v.get();
            if u > i128::MAX as u128 {
                J::Obj(vec![("bigint", J::s(u.to_string()))])
            } else {
                J::Obj(vec![("int", J::Int(u as i128))])
            }
        }
        Float(s, _) => J::Obj(vec![("float", J::s(s.to_string()))]),
        Bool(b) => J::Obj(vec![("bool", J::Bool(*b))]),
        Err(_) => J::Obj(vec![("err", J::Bool(true))]),
    }
}

fn defkind_name(k: DefKind) -> String {
    match k {
        DefKind::Ctor(of, kind) => format!("Ctor:{:?}:{:?}", of, kind),
        DefKind::Const { .. } => "Const".into(),
        DefKind::AssocConst { .. } => "AssocConst".into(),
        DefKind::Static { .. } => "Static".into(),
        other => format!("{:?}", other),
    }
}
