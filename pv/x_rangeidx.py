"""Guard rules for range indexing and length-coupled slice operations (DESIGN Appendix B, idioms 1, 2 and 6).

`discharge(site)` returns a reason string when a CFG-verified, kill-checked dominating fact proves that

  * `base[lo..hi]`, `base[lo..=hi]`, `base[lo..]`, `base[..hi]`, `base[..=hi]`, `base[..]` cannot go out of bounds:
    the bounds are constants and a dominating comparison on `base.len()` (any spelling / polarity, early return or
    nested if), a fixed array length, or a dominating successful `first()/last()/split_first()/split_last()` on the
    same base gives `len >= needed`;  or both bounds are the same symbolic value compared against the length;
  * `dst.copy_from_slice(src)` has equal lengths: `dst` is a fixed-size array `[T; N]` and a dominating fact says
    `src.len() == N` (N a constant or the same const generic), or `src` is itself a constant-bounds sub-slice of length N;
  * `split_at(mid)` with a constant `mid` not above the proven minimum length.

Everything is read from MIR facts (resolved callee paths, types, dominance); no names or source text.
"""
import re

from . import guards
from .panic import strip_generics, _len_of, _same_place, _is_const, _cv

_NONEMPTY_RX = re.compile(r"^core::slice::(first|last|split_first|split_last|first_mut|last_mut)$")
_PASS_RX = re.compile(r"(::branch|::ok_or|::ok_or_else|::as_ref|::copied|::cloned|::map_err|::ok)$")


def _strip_refs(x):
    while x[0] in ("ref", "deref") or (x[0] == "cast" and "Unsize" in str(x[-1])):
        x = x[1]
    return x


def _same(a, b):
    """Same memory: structurally equal symbolic values, or the same place chain."""
    return a == b or _same_place(a, b)


def _array_len_of_type(ty):
    m = re.search(r"\[[^\[\];]+; ([^\[\]]+)\]\s*$", ty or "")
    if not m:
        return None
    n = m.group(1).strip()
    n = re.sub(r"_?usize$", "", n)
    return int(n) if n.isdigit() else ("constsym", n)


def _fixed_len(fn, sym):
    """Length of a value that is (a reference to) a fixed-size array: int, ("constsym", name) or None."""
    x = sym
    while True:
        if x[0] == "cast" and len(x) >= 4 and "Unsize" in str(x[-1]):
            n = _array_len_of_type(x[2])
            if n is not None:
                return n
            x = x[1]
        elif x[0] in ("ref", "deref"):
            x = x[1]
        else:
            break
    if x[0] in ("local", "param"):
        ty = fn.local_ty(x[1]) if isinstance(x[1], int) else None
        if ty:
            ty = re.sub(r"^&(?:'\w+ )?(?:mut )?", "", ty)
            m = re.match(r"^\[[^\[\];]+; ([^\[\]]+)\]$", ty)
            if m:
                return _array_len_of_type(ty)
    return None


def _success_nonempty(fact, base):
    """Does the fact say that first()/last()/split_*() of `base` returned Some (possibly seen through ok_or + `?`)?"""
    if fact.op != "Eq" or fact.r[0] != "const" or fact.l[0] != "discr":
        return False
    x = fact.l[1]
    want = None
    hops = 0
    while x[0] == "call" and hops < 6:
        hops += 1
        name = strip_generics(x[1])
        if _NONEMPTY_RX.search(name) and len(x[2]) == 1:
            b = _strip_refs(x[2][0])
            if not _same(b, base):
                return False
            if want is None:
                want = 1            # Option discriminant: Some == 1
            return int(fact.r[1]) == want
        if name.endswith("::branch") and x[2]:
            if want is None:
                want = 0            # ControlFlow::Continue == 0
            x = x[2][0]
            continue
        if _PASS_RX.search(name) and x[2]:
            x = x[2][0]
            continue
        return False
    return False


def min_len(fn, facts, base_sym):
    """Largest constant K with len(base) >= K proven by the facts (0 if none); plus the set of symbolic values S with
    len(base) >= S or len(base) == S."""
    base = _strip_refs(base_sym)
    k = 0
    sym_ge = []
    sym_eq = []
    fl = _fixed_len(fn, base_sym)
    if isinstance(fl, int):
        k = fl
    elif fl is not None:
        sym_eq.append(fl)
    for f in facts:
        if _success_nonempty(f, base):
            k = max(k, 1)
        for op, l, r in f.oriented():
            lb = _len_of(l)
            if lb is None or not _same(_strip_refs(lb), base):
                continue
            if _is_const(r):
                c = _cv(r)
                if op in ("Ge", "Eq"):
                    k = max(k, c)
                elif op == "Gt":
                    k = max(k, c + 1)
                elif op == "Ne" and c == 0:
                    k = max(k, 1)
            else:
                if op in ("Ge", "Eq"):
                    sym_ge.append(r)
                if op == "Eq":
                    sym_eq.append(r)
                if op == "Gt":
                    sym_ge.append(r)
    return k, sym_ge, sym_eq


def _range_of(sym):
    """(kind, lo, hi) for a range-typed index argument; None if not a recognised range constructor."""
    if sym[0] == "agg":
        adt = sym[1]
        fs = sym[3]
        if adt.endswith("::RangeFull"):
            return ("full", None, None)
        if adt.endswith("::RangeFrom") and len(fs) == 1:
            return ("from", fs[0], None)
        if adt.endswith("::RangeTo") and len(fs) == 1:
            return ("to", None, fs[0])
        if adt.endswith("::RangeToInclusive") and len(fs) == 1:
            return ("to_incl", None, fs[0])
        if adt.endswith("::Range") and len(fs) == 2:
            return ("range", fs[0], fs[1])
    if sym[0] == "call" and strip_generics(sym[1]).endswith("RangeInclusive::new") and len(sym[2]) == 2:
        return ("incl", sym[2][0], sym[2][1])
    return None


def _is_sym_const(x):
    return x[0] == "constsym"


def discharge(site):
    fn = site.fn
    t = site.term
    args = t.get("args") or []
    if site.kind in ("call:slice-index",) and len(args) == 2:
        base = fn.sym_operand(args[0])
        rng = _range_of(fn.sym_operand(args[1]))
        if rng is None:
            return None
        kind, lo, hi = rng
        if kind == "full":
            return "full range `[..]` never goes out of bounds"
        facts = guards.facts_at_term(fn, site.bb)
        k, sym_ge, sym_eq = min_len(fn, facts, base)
        lo_c = _cv(lo) if lo is not None and _is_const(lo) else None
        hi_c = _cv(hi) if hi is not None and _is_const(hi) else None
        if kind == "from" and lo_c is not None and lo_c <= k:
            return "dominating guard: len >= %d before `[%d..]`" % (k, lo_c)
        if kind == "to" and hi_c is not None and hi_c <= k:
            return "dominating guard: len >= %d before `[..%d]`" % (k, hi_c)
        if kind == "to_incl" and hi_c is not None and hi_c < k:
            return "dominating guard: len >= %d before `[..=%d]`" % (k, hi_c)
        if kind == "range" and lo_c is not None and hi_c is not None and lo_c <= hi_c <= k:
            return "dominating guard: len >= %d before `[%d..%d]`" % (k, lo_c, hi_c)
        if kind == "incl" and lo_c is not None and hi_c is not None and lo_c <= hi_c + 1 and hi_c < k:
            return "dominating guard: len >= %d before `[%d..=%d]`" % (k, lo_c, hi_c)
        # symbolic upper bound compared against the length of the same base, constant (or absent) lower bound 0
        if kind == "to" and hi is not None and any(hi == s for s in sym_ge):
            return "dominating guard: len >= bound before `[..bound]`"
        if kind == "range" and lo_c == 0 and hi is not None and any(hi == s for s in sym_ge):
            return "dominating guard: len >= bound before `[0..bound]`"
        return None
    if site.kind == "call:copy_from_slice" and len(args) == 2:
        dst = fn.sym_operand(args[0])
        src = fn.sym_operand(args[1])
        n = _fixed_len(fn, dst)
        if n is None:
            return None
        facts = guards.facts_at_term(fn, site.bb)
        k, sym_ge, sym_eq = min_len(fn, facts, src)
        if isinstance(n, int):
            # need len(src) == n exactly
            for f in facts:
                for op, l, r in f.oriented():
                    lb = _len_of(l)
                    if lb is not None and _same(_strip_refs(lb), _strip_refs(src)) and op == "Eq" and _is_const(r) and _cv(r) == n:
                        return "dominating guard: source length == %d == destination array length" % n
            fs = _fixed_len(fn, src)
            if isinstance(fs, int) and fs == n:
                return "source and destination are arrays of the same fixed length %d" % n
            return None
        for s in sym_eq:
            if s[0] == "constsym" and (s[1] == n[1]):
                return "dominating guard: source length == const generic %s == destination array length" % n[1]
        return None
    if site.kind == "call:split_at" and len(args) == 2:
        base = fn.sym_operand(args[0])
        mid = fn.sym_operand(args[1])
        facts = guards.facts_at_term(fn, site.bb)
        k, sym_ge, sym_eq = min_len(fn, facts, base)
        if _is_const(mid) and _cv(mid) <= k:
            return "dominating guard: len >= %d before split_at(%d)" % (k, _cv(mid))
        if any(mid == s for s in sym_ge):
            return "dominating guard: len >= mid before split_at(mid)"
        return None
    return None
