"""Finite-domain evaluation of the tabulator's symbolic expressions (engine E2 helper).

A table written as code over a small integer domain (a header byte, a nibble) is decided by evaluating the *symbolic* path
conditions and results of the tabulated MIR for every value of the domain.  Nothing of pallas is executed: the expressions are
the tabulator's terms (constants, bit operations, comparisons, casts) and the only free leaf is the table's subject."""
from .mir import _INT_RANGE


class NotFinite(Exception):
    """The expression contains a leaf/operator outside the finite fragment."""


def _bits(ty):
    r = _INT_RANGE.get(ty)
    if not r:
        return None
    lo, hi = r
    return (hi - lo + 1).bit_length() - 1


def ev(sym, leaf, bits=8):
    """Value of `sym`; `leaf(sym)` supplies the value of non-arithmetic leaves (or raises NotFinite)."""
    k = sym[0]
    mask = (1 << bits) - 1
    if k == "const":
        try:
            return int(sym[1])
        except (TypeError, ValueError):
            raise NotFinite(sym)
    if k == "bin":
        op = sym[1]
        if op.endswith("WithOverflow"):
            raise NotFinite(sym)
        a, b = ev(sym[2], leaf, bits), ev(sym[3], leaf, bits)
        if op in ("Eq", "Ne", "Lt", "Le", "Gt", "Ge"):
            return int({"Eq": a == b, "Ne": a != b, "Lt": a < b, "Le": a <= b, "Gt": a > b, "Ge": a >= b}[op])
        if op == "BitAnd":
            return a & b
        if op == "BitOr":
            return a | b
        if op == "BitXor":
            return a ^ b
        if op in ("Shl", "ShlUnchecked"):
            return (a << b) & mask if 0 <= b < bits else _nf(sym)
        if op in ("Shr", "ShrUnchecked"):
            return a >> b if 0 <= b < bits else _nf(sym)
        if op in ("Add", "AddUnchecked"):
            return (a + b) & mask
        if op in ("Sub", "SubUnchecked"):
            return (a - b) & mask
        if op in ("Mul", "MulUnchecked"):
            return (a * b) & mask
        if op == "Div" and b:
            return a // b
        if op == "Rem" and b:
            return a % b
        raise NotFinite(sym)
    if k == "field" and sym[1][0] == "bin" and sym[1][1].endswith("WithOverflow") and sym[2] in (0, "0"):
        inner = sym[1]
        return ev(("bin", inner[1][:-len("WithOverflow")], inner[2], inner[3]), leaf, bits)
    if k == "un" and sym[1] == "Not":
        x = ev(sym[2], leaf, bits)
        return (~x) & mask
    if k == "cast":
        x = ev(sym[1], leaf, bits)
        tb = _bits(sym[3]) if len(sym) > 3 else None
        return x & ((1 << tb) - 1) if tb else x
    return leaf(sym)


def _nf(sym):
    raise NotFinite(sym)


def leaves(sym, out=None):
    """Non-constant leaves of the arithmetic fragment of `sym`."""
    if out is None:
        out = []
    k = sym[0]
    if k == "const":
        return out
    if k == "bin":
        leaves(sym[2], out)
        leaves(sym[3], out)
    elif k == "field" and sym[1][0] == "bin" and sym[1][1].endswith("WithOverflow"):
        leaves(sym[1], out)
    elif k == "un" and sym[1] == "Not":
        leaves(sym[2], out)
    elif k == "cast":
        leaves(sym[1], out)
    else:
        if sym not in out:
            out.append(sym)
    return out


def holds(cond, leaf, bits=8):
    """Truth of one tabulator path condition (sym, ('eq', v) | ('ne', [v..])) under the leaf assignment;
    None when the condition is not in the finite fragment (e.g. an enum discriminant)."""
    d, c = cond[0], cond[1]
    if d[0] in ("discr", "variant"):
        return None
    try:
        v = ev(d, leaf, bits)
    except NotFinite:
        return None
    if c[0] == "eq":
        return v == int(c[1])
    return v not in [int(x) for x in c[1]]


def table_over(paths, subject, domain, bits=8):
    """value -> [paths whose finite conditions all hold for subject=value].  Conditions outside the finite fragment
    (discriminants of `?`, Option tests) are prerequisites common to the rows and are ignored."""
    def mentions(p):
        return any(c[0][0] not in ("discr", "variant") and subject in leaves(c[0]) for c in p.conds)
    # rows of the table = paths that test the subject at all (an early `?` exit before the subject exists is not a row)
    if any(mentions(p) for p in paths):
        paths = [p for p in paths if mentions(p)]
    out = {}
    for x in domain:
        def leaf(s, x=x):
            if s == subject:
                return x
            raise NotFinite(s)
        rows = []
        for p in paths:
            ok = True
            for c in p.conds:
                h = holds(c, leaf, bits)
                if h is False:
                    ok = False
                    break
            if ok:
                rows.append(p)
        out[x] = rows
    return out
