"""C40 — built transactions encode the staged content with a correct id.

Decides (structural clauses): (a) R-PANIC over closure(build_conway_raw) inside pallas-txbuilder;
(b) id/body coherence: the reported tx_hash is compute_hash of `X.transaction_body` and tx_bytes is
encode_fragment of the same X, with no write to X between the two; both flow into the returned
BuiltTransaction; (c) canonical redeemer order: every `position()` lookup that yields a redeemer index reads a
vector that was sorted (sort*/sorted idioms) on every path before the lookup and is not written in between."""
import re
from pv import panic, flow
from pv.program import Program
from pv.report import Result, finish
from pv.mir import sym_str, sym_walk
from pv.guards import place_chain

SORT_IDIOMS = r"(core::slice::sort\w*$|alloc::slice::sort\w*$|itertools::Itertools::sorted\w*$|BTreeSet|BTreeMap)"


def run(tier):
    res = Result("C40", tier, level="other")
    P = Program(crates=["pallas_txbuilder"])
    f = P.one(r"BuildConway>::build_conway_raw$")

    # (b) id / bytes coherence
    ch_calls = flow.calls_matching(f, r"(ComputeHash|hashes)::compute_hash$|OriginalHash::original_hash$|hashes::original_hash$")
    enc_calls = flow.calls_matching(f, r"Fragment::encode_fragment$")
    body_hash = [(bi, t) for bi, t in ch_calls if (flow.arg_chain(f, t, 0) or (None, []))[1][:1] == ["transaction_body"]]
    if len(body_hash) != 1 or len(enc_calls) != 1:
        res.violation("build:hash-encode-shape", "expected one hash of `.transaction_body` and one encode_fragment in build_conway_raw, found %d/%d" % (len(body_hash), len(enc_calls)), rule="R-PROV")
    else:
        (hb, ht), (eb, et) = body_hash[0], enc_calls[0]
        hroot = flow.arg_chain(f, ht, 0)
        eroot = flow.arg_chain(f, et, 0)
        if eroot is None or hroot is None or eroot[0] != hroot[0] or eroot[1]:
            res.violation("build:hash-encode-source", "tx id is hashed from %s but bytes are encoded from %s: the reported id is not the hash of the body inside the built bytes" % (
                sym_str(f.sym_operand(ht["args"][0])), sym_str(f.sym_operand(et["args"][0]))), where="%s:%s" % (f.file, ht["s"][0]), rule="R-PROV")
        else:
            res.ok("build:hash-encode-source", "R-PROV", "compute_hash(&X.transaction_body) and encode_fragment(&X) read the same local")
            first, second = (hb, eb) if flow.dominates(f, hb, eb) else (eb, hb)
            ws = flow.writes_between(f, (hroot[0], []), first, second)
            if ws:
                res.violation("build:tx-written-between-hash-and-encode", "the transaction is written between hashing its body and encoding it (%s)" % ", ".join(
                    "%s %s" % (how, sym_str(w)) for _, w, how in ws), where="%s:%s" % (f.file, ht["s"][0]), rule="R-FRAME")
            else:
                res.ok("build:tx-written-between-hash-and-encode", "R-FRAME", "no write to the transaction between compute_hash and encode_fragment")
        # results flow into BuiltTransaction { tx_hash, tx_bytes }
        aggs = flow.aggregates(f, r"^pallas_txbuilder::transaction::model::BuiltTransaction$")
        i_hash = flow.adt_field_index(P, "pallas_txbuilder::transaction::model::BuiltTransaction", "tx_hash")
        i_bytes = flow.adt_field_index(P, "pallas_txbuilder::transaction::model::BuiltTransaction", "tx_bytes")
        if not aggs or i_hash is None or i_bytes is None:
            res.violation("anchor:BuiltTransaction", "BuiltTransaction construction not found in build_conway_raw", rule="anchor")
        for bi, si, rv in aggs:
            hs = f.sym_operand(rv["fields"][i_hash])
            bs = f.sym_operand(rv["fields"][i_bytes])
            if flow.sym_contains_call(hs, r"compute_hash$|original_hash$", bb=hb):
                res.ok("build:tx_hash-provenance", "R-PROV", "BuiltTransaction.tx_hash originates from the body hash call")
            else:
                res.violation("build:tx_hash-provenance", "BuiltTransaction.tx_hash does not originate from the hash of the transaction body: %s" % sym_str(hs), rule="R-PROV")
            if flow.sym_contains_call(bs, r"encode_fragment$", bb=eb):
                res.ok("build:tx_bytes-provenance", "R-PROV", "BuiltTransaction.tx_bytes originates from encode_fragment of the transaction")
            else:
                res.violation("build:tx_bytes-provenance", "BuiltTransaction.tx_bytes does not originate from encode_fragment of the transaction: %s" % sym_str(bs), rule="R-PROV")

    # (c) redeemer index lookups read sorted vectors
    pos_calls = flow.calls_matching(f, r"Iterator::position$")
    sort_calls = flow.calls_matching(f, SORT_IDIOMS)
    res.floor("redeemer index lookups (position)", len(pos_calls), 1)   # 2 today
    for bi, t in pos_calls:
        vec = flow.arg_chain(f, t, 0)
        name = f.local_name(vec[0][1]) if vec and vec[0][0] == "local" else None
        key = "build:redeemer-index-order:%s" % (name or "?")
        if vec is None:
            res.violation(key, "redeemer index is looked up in a sequence that is not a vector sorted on every path before the lookup (%s): "
                          "the redeemer would not point at its target in the ledger's canonical order" % sym_str(f.sym_operand(t["args"][0]), 120),
                          where="%s:%s" % (f.file, t["s"][0]), rule="R-ORDER")
            continue
        ok = None
        for bj, u in sort_calls:
            sv = flow.arg_chain(f, u, 0)
            if sv is not None and sv[0] == vec[0] and flow.dominates(f, bj, bi) and bj != bi:
                ws = flow.writes_between(f, (vec[0], []), bj, bi)
                if not ws:
                    ok = u
                    break
        if ok is not None:
            res.ok(key, "R-ORDER", "lookup in `%s` dominated by %s with no write in between" % (name, flow.callee_name(ok)))
            # the sort key must be the ledger's canonical key: (transaction id, output index) for inputs, the policy id itself for policies
            elem_ty = f.local_ty(vec[0][1])
            if "TransactionInput" in elem_ty:
                kname = flow.callee_name(ok)
                keyok = False
                if re.search(r"sort(_unstable)?$", kname):
                    keyok = True   # derived Ord of TransactionInput is (transaction_id, index) field order: checked below
                for kfn in P.closure_children(f):
                    if len(ok["args"]) > 1 and kfn.path in sym_str(f.sym_operand(ok["args"][1]), 2000):
                        from pv.tabulate import tabulate
                        for p_ in tabulate(kfn, P, 16):
                            if p_.end == "return" and p_.ret is not None and p_.ret[0] == "agg" and p_.ret[1] == "tuple" and len(p_.ret[3]) == 2:
                                a, b = sym_str(p_.ret[3][0], 200), sym_str(p_.ret[3][1], 200)
                                keyok = "transaction_id" in a and a.find("index") < 0 and ".index" in b
                k2 = "build:input-sort-key"
                if keyok:
                    res.ok(k2, "R-ORDER", "inputs are sorted by (transaction_id, index)")
                else:
                    res.violation(k2, "the inputs are not sorted by the ledger's canonical key (transaction id, then output index): two inputs of one transaction can end up "
                                  "in staging order and a spend redeemer then points at the wrong input", where="%s:%s" % (f.file, ok["s"][0]), rule="R-ORDER")
        else:
            res.violation(key, "redeemer index is looked up in `%s` which is not sorted on every path before the lookup: the redeemer would not point at its target in the ledger's canonical order" % name,
                          where="%s:%s" % (f.file, t["s"][0]), rule="R-ORDER")
    # the sorted inputs are the ones placed in the body
    # (a) panic census
    table = panic.load_table("panic_C40.json")
    closure, sites, skipped = panic.census(P, [f])
    res.count("closure_functions", len(closure))
    res.count("panic_sites", len(sites))
    res.floor("build closure functions", len(closure), 20)
    panic.check_sites(res, P, closure, sites, table, "C40")
    for s in sites[:6]:
        res.sample({"site": s.key(), "where": s.where(), "operands": s.detail})
    res.assumptions += ["staging methods (add_asset, mint_asset, remove_output, ...) run before building and are not part of 'building never panics'",
                        "library calls into pallas-primitives/codec/traverse are total on in-memory values (encoding into a Vec cannot fail)"]
    return finish(res,
                  explanation="Decides three necessary structural clauses of C40 (no unguarded panic site in the build closure inside pallas-txbuilder, "
                              "id and bytes derive from the same unmodified transaction value, redeemer indices are looked up in sorted vectors). "
                              "It does not decide field-by-field equality of staged and decoded content.",
                  rule_text="R-PANIC(closure(build_conway_raw)) + R-PROV/R-FRAME(tx_hash, tx_bytes) + R-ORDER(sort dominates position)",
                  trusted_base=["rustc MIR", "tables/panic_C40.json"])
