"""C43 — immutable-DB readers report corrupted files as errors, never a panic.

Decides: R-PANIC over every function of pallas_hardano::storage::immutable (chunk, primary and secondary
readers, read_blocks*, get_tip, the chunk binary search)."""
from pv import panic


def run(tier):
    return panic.run_panic_property(
        "C43", tier, crates=["pallas_hardano"],
        entry_rx=r"pallas_hardano::storage::immutable::",
        table_name="panic_C43.json",
        floors={"entries": 60, "closure": 60, "sites": 3},
        anchors=[r"secondary::Reader as core::iter::traits::iterator::Iterator>::next$", r"chunk::Reader::read_middle_block$",
                 r"primary::Reader::read_offset$", r"immutable::read_blocks_from_point$", r"immutable::get_tip$"],
        explanation="Decides the structural clause of C43: no panic-capable construct on file-derived data in the immutable-db readers "
                    "without a checked guard (subtractions on offsets, allocations, indexing). Does not read any file.",
        assumptions=["block decoding (pallas-traverse) is covered by C09, not here"])
