"""C16 — bounded exp comparison never reaches a wrong conclusion: the *direction* clause of `ref_exp_cmp`.

Roles of ref_exp_cmp's parameters are taken from the public entry point (`<Decimal as FixedPrecision>::exp_cmp(self, max_n,
bound_self, compare)`): which argument receives `compare.data`, `self.data`, `bound_self`, `max_n` and the output buffer.

 R-CDEP  every point where the conclusion GT (resp. LT) is produced — an assignment of ExpOrdering::GT/LT to the variable that
         feeds the result's `estimation` field, or a result built with that constant — is control dependent on the TRUE outcome
         of a strict comparison   compare > U   (resp.  compare < L), in any spelling (`gt(a,b)`, `lt(b,a)`, `!le(a,b)`,
         `cmp(a,b) == Greater`, early return / nested if).
 R-PROV  U and L are *evaluated* as integer terms over their leaves (operator-trait calls on IBig are keyed by def-path; sampling
         at several points decides equality of the polynomials, so commuted operands, `let` hoisting, helper functions do not
         matter):  U == rop + E * bound_x  and  L == rop - E * bound_x  for one and the same program variable E (the running
         error term), whose value derives from x.  `rop` is the approximation accumulated in the output parameter.
 R-PROV  the result's `estimation` field takes only those constants; `iterations` is the loop counter that is compared with max_n
         (all its definitions are 0 or counter + 1).
 R-TABLE the iteration budget is strict.  The loop is tabulated from its head with the counter n as a free variable and evaluated
         for max_n in {0,1,2,7} x n in 0..max_n (path conditions over n and max_n only are decided, in any spelling; all others
         are left open): a path that goes round the loop leaves n <= max_n, a returning path reports iterations <= max_n
         (so a round is started only while n < max_n), and the loop is not left on the budget test alone while n < max_n.
 R-PROV  the public wrapper `<Decimal as FixedPrecision>::exp_cmp` returns ref_exp_cmp's result unmodified: on every returning path
         the returned value IS the callee's result and nothing is written into it; no ExpCmpOrdering is constructed, and none of
         its fields is assigned or mutably borrowed, anywhere else in pallas-math (the derived Clone copies an existing value).
 R-PROV  the in/out helpers ref_exp_cmp applies to its running terms (`scale`, `div`: functions with a `&mut IBig` parameter)
         store, on every path, a value computed from their input: a definition of the stored variable that does not depend on
         the input (a constant) must be followed, on every path to the store, by the call that recomputes it from the input —
         a constant substituted *after* the division (flush-to-zero, clamp) is reported.  Necessary for the error term that
         reaches the bounds to be the scaled product and not a replacement value; the arithmetic itself is not decided.
Not decided: the series (that rop and E are the Taylor partial sum and the Lagrange remainder), the EPS cut-off, the exact
iteration count."""
import re
from pv import flow
from pv.program import Program
from pv.report import Result, finish
from pv.guards import facts_at
from pv.mir import sym_str, sym_walk, pl_local
from pv.x_misc import Ev, Unknown, sg, strip, where, cmp_method, is_ord_cmp, call_is_mut_receiver, pure_return_term

EXPORD = "pallas_math::math::ExpOrdering"
RESULT = "pallas_math::math::ExpCmpOrdering"


def roles_from_entry(P, f):
    """{role: param index of ref_exp_cmp}."""
    entry = P.one(r"^<pallas_math::math_dashu::Decimal as pallas_math::math::FixedPrecision>::exp_cmp$")
    sites = flow.calls_matching(entry, "^" + re.escape(f.path) + "$")
    if len(sites) != 1:
        return None, "exp_cmp calls ref_exp_cmp %d times" % len(sites)
    bi, t = sites[0]
    roles = {}
    for i, a in enumerate(t["args"]):
        s = entry.sym_operand(a)
        ch = flow.origin_chain(s)
        if ch is None:
            continue
        root, chain = ch
        if root == ("param", 4) and chain[:1] == ["data"]:
            roles["compare"] = i + 1
        elif root == ("param", 1) and chain[:1] == ["data"]:
            roles["x"] = i + 1
        elif root == ("param", 3) and not chain:
            roles["bound"] = i + 1
        elif root == ("param", 2) and not chain:
            roles["max_n"] = i + 1
        elif root[0] == "local" and chain[:1] == ["data"] and call_is_mut_receiver(entry, bi, i):
            roles["rop"] = i + 1
    missing = {"compare", "x", "bound", "max_n", "rop"} - set(roles)
    if missing:
        return None, "cannot tell which argument of ref_exp_cmp carries %s" % sorted(missing)
    return roles, None


def strict_relations(f, bb):
    """[(greater term, smaller term)] established by dominating comparisons at block bb."""
    out = []
    for fact in facts_at(f, bb, kill=False):
        for op, l, r in fact.oriented():
            if l[0] == "call" and r[0] == "const" and op in ("Eq", "Ne"):
                cm = cmp_method(l[1])
                if cm and len(l[2]) == 2:
                    val = int(r[1])
                    truth = (val != 0) if op == "Eq" else (val == 0)
                    a, b = l[2]
                    if cm == "gt" and truth:
                        out.append((a, b))
                    elif cm == "lt" and truth:
                        out.append((b, a))
                    elif cm == "le" and not truth:
                        out.append((a, b))
                    elif cm == "ge" and not truth:
                        out.append((b, a))
            if l[0] == "discr" and l[1][0] == "call" and is_ord_cmp(l[1][1]) and r[0] == "const" and op == "Eq" and len(l[1][2]) == 2:
                v = int(r[1])
                a, b = l[1][2]
                v = v - (1 << 64) if v >= (1 << 63) else (v - 256 if 128 <= v < 256 else v)
                if v == 1:
                    out.append((a, b))
                elif v == -1:
                    out.append((b, a))
    return out


SAMPLES = 5


def leaf_values(k):
    def val(kind, i):
        return ((i * 7919 + 104729 * (k + 1) + (31337 if kind == "param" else 271)) % 9973) + 3 + k
    return val


def eval_term(P, f, sym, k):
    leaves = {}
    val = leaf_values(k)

    def leaf(s):
        if s[0] == "param":
            leaves[("param", s[1])] = s
            return val("param", s[1])
        if s[0] == "local":
            leaves[("local", s[1])] = s
            return val("local", s[1])
        raise Unknown(s)
    return Ev(leaf, bits=4096, prog=P)(sym), leaves


def match_bound(P, f, term, roles, sign):
    """Is term == rop + sign * E * bound for a single leaf E?  Returns (E key | None, reason)."""
    try:
        vals = []
        leaves = {}
        for k in range(SAMPLES):
            v, lv = eval_term(P, f, term, k)
            vals.append(v)
            leaves.update(lv)
    except Unknown as e:
        return None, "the bound %s is not an integer term over program variables (unmodelled: %s)" % (sym_str(term, 100), sym_str(e.args[0], 50) if e.args else "?")
    rop, bnd = ("param", roles["rop"]), ("param", roles["bound"])
    if rop not in leaves:
        return None, "the bound %s does not contain the approximation accumulated in the output parameter" % sym_str(term, 100)
    if bnd not in leaves:
        return None, "the bound %s does not contain bound_x: the error term is not scaled by the caller's bound" % sym_str(term, 100)
    cands = [k for k in leaves if k not in (rop, bnd, ("param", roles["compare"]))]
    for e in cands:
        if all(vals[k] == leaf_values(k)(*rop) + sign * leaf_values(k)(*e) * leaf_values(k)(*bnd) for k in range(SAMPLES)):
            return e, None
    # explain
    for e in cands:
        if all(vals[k] == leaf_values(k)(*rop) - sign * leaf_values(k)(*e) * leaf_values(k)(*bnd) for k in range(SAMPLES)):
            return None, "the bound %s is rop %s error*bound_x: the error term is applied with the wrong sign" % (sym_str(term, 100), "-" if sign > 0 else "+")
    return None, "the bound %s is not rop %s error * bound_x" % (sym_str(term, 100), "+" if sign > 0 else "-")


def run(tier):
    res = Result("C16", tier, level="other")
    P = Program(crates=["pallas_math"])
    f = P.one(r"^pallas_math::math_dashu::ref_exp_cmp$")
    roles, err = roles_from_entry(P, f)
    if roles is None:
        res.violation("roles", "cannot map the parameters of ref_exp_cmp from FixedPrecision::exp_cmp: %s" % err, where=where(f), rule="anchor")
        return finish(res, "anchor lost", "fail closed")
    res.sample({"roles": roles})
    # result construction sites
    sites = flow.aggregates(f, "^" + re.escape(RESULT) + "$")
    res.floor("ExpCmpOrdering construction sites", len(sites), 1)
    radt = P.adt(RESULT)
    fidx = {fl["name"]: i for i, fl in enumerate(radt["variants"][0]["fields"])} if radt else {}
    if not {"estimation", "iterations"} <= set(fidx):
        res.violation("result-fields", "ExpCmpOrdering has no estimation/iterations fields", rule="anchor")
        return finish(res, "anchor lost", "fail closed")
    aps = []          # (bb, variant, description)
    est_ok = True
    for bi, si, rv in sites:
        e = strip(f.sym_operand(rv["fields"][fidx["estimation"]]), None)
        if e[0] == "agg" and str(e[1]) == EXPORD:
            aps.append((bi, e[2]))
        elif e[0] == "local":
            for dbi, dsi, kind, payload in f.defs().get(e[1], []):
                v = strip(f.sym_rvalue(payload[2], 20), None) if kind == "assign" else ("?",)
                if v[0] == "agg" and str(v[1]) == EXPORD:
                    aps.append((dbi, v[2]))
                else:
                    est_ok = False
                    res.violation("estimation:non-constant", "the variable feeding ExpCmpOrdering.estimation is assigned something that is not an ExpOrdering constant (%s)" % sym_str(v, 60),
                                  where="%s:%s" % (f.file, payload[3][0] if kind == "assign" else f.line), rule="R-PROV")
        else:
            est_ok = False
            res.violation("estimation:provenance", "ExpCmpOrdering.estimation is %s, not the conclusion variable / an ExpOrdering constant" % sym_str(e, 60), where=where(f), rule="R-PROV")
    if est_ok:
        res.ok("estimation:provenance", "R-PROV", "estimation takes only ExpOrdering constants assigned at %d points: %s" % (len(aps), sorted({v for _, v in aps})))
    n_gt = sum(1 for _, v in aps if v == "GT")
    n_lt = sum(1 for _, v in aps if v == "LT")
    res.floor("points concluding GT", n_gt, 1)
    res.floor("points concluding LT", n_lt, 1)
    # also any stray GT/LT constant that never reaches the result is irrelevant; every one that does is checked
    errs = {}
    cmp_key = ("param", roles["compare"])
    for bb, variant in aps:
        if variant not in ("GT", "LT"):
            continue
        key = "direction:%s" % variant
        rels = strict_relations(f, bb)
        found = None
        reason = "no strict comparison involving `compare` dominates this conclusion"
        for big, small in rels:
            b, s = strip(big), strip(small)
            if variant == "GT":
                if b[0] == "param" and b[1] == roles["compare"]:
                    e, why = match_bound(P, f, small, roles, +1)
                    if e is not None:
                        found = e
                        break
                    reason = why
                elif s[0] == "param" and s[1] == roles["compare"]:
                    reason = "GT is concluded when compare is BELOW %s" % sym_str(big, 80)
            else:
                if s[0] == "param" and s[1] == roles["compare"]:
                    e, why = match_bound(P, f, big, roles, -1)
                    if e is not None:
                        found = e
                        break
                    reason = why
                elif b[0] == "param" and b[1] == roles["compare"]:
                    reason = "LT is concluded when compare is ABOVE %s" % sym_str(small, 80)
        line = f.blocks[bb]["st"][0][3][0] if f.blocks[bb]["st"] else f.line
        if found is None:
            res.violation(key + "=>" + re.sub(r"_\d+", "_", re.sub(r"[^A-Za-z0-9_ +*-]", "", reason))[:70], "ref_exp_cmp concludes %s but %s" % (variant, reason), where="%s:%s" % (f.file, line), rule="R-CDEP")
        else:
            errs.setdefault(variant, set()).add(found)
            res.ok(key, "R-CDEP", "%s only under compare %s rop %s E*bound_x (E = %s)" % (variant, ">" if variant == "GT" else "<", "+" if variant == "GT" else "-",
                                                                                        f.local_name(found[1]) if found[0] == "local" else "param %d" % found[1]))
    # same error variable on both sides, and it derives from x
    allE = set().union(*errs.values()) if errs else set()
    if len(allE) == 1:
        e = next(iter(allE))
        derives = False
        if e[0] == "local":
            for dbi, dsi, kind, payload in f.defs().get(e[1], []):
                v = f.sym_rvalue(payload[2], 20) if kind == "assign" else ("call", payload.get("f"), tuple(f.sym_operand(a) for a in payload["args"]), dbi)
                if any(s[0] == "param" and s[1] == roles["x"] for s in sym_walk(v)):
                    derives = True
            for bi, t in f.calls():
                args = [f.sym_operand(a) for a in t["args"]]
                tgt = [i for i, a in enumerate(args) if flow.origin_chain(a) == (e, []) and call_is_mut_receiver(f, bi, i)]
                if tgt and any(s[0] == "param" and s[1] == roles["x"] for a in args for s in sym_walk(a)):
                    derives = True
        if derives:
            res.ok("error-term:from-x", "R-PROV", "the error variable is the same in both bounds and is computed from x")
        else:
            res.violation("error-term:from-x", "the error variable used in the bounds is never computed from x", where=where(f), rule="R-PROV")
    elif len(allE) > 1:
        res.violation("error-term:differs", "the upper and the lower bound use different error variables (%s)" % sorted(allE), where=where(f), rule="R-PROV")
    # iterations
    it_ok = True
    counters = set()
    for bi, si, rv in sites:
        it = strip(f.sym_operand(rv["fields"][fidx["iterations"]]), None)
        loc = None
        if it[0] == "local":
            loc = it[1]
        elif it[0] == "field" and it[1][0] == "bin" and it[1][1].startswith("Add") and strip(it[1][2])[0] == "local" and it[1][3][0] == "const":
            loc = strip(it[1][2])[1]
        elif it[0] == "bin" and it[1].startswith("Add") and strip(it[2])[0] == "local" and it[3][0] == "const":
            loc = strip(it[2])[1]
        if loc is None:
            it_ok = False
            res.violation("iterations:provenance", "ExpCmpOrdering.iterations is %s, not the loop counter" % sym_str(it, 60), where=where(f), rule="R-PROV")
            continue
        # counter: some loop test is a function of (counter, max_n) only; defined as 0 / counter + 1
        compared = bool(budget_heads(P, f, loc, roles["max_n"]))
        defs_ok = True
        for dbi, dsi, kind, payload in f.defs().get(loc, []):
            v = f.sym_rvalue(payload[2], 20) if kind == "assign" else ("?",)
            if v[0] == "const" and int(v[1]) == 0:
                continue
            inc = v[1] if v[0] == "field" and v[1][0] == "bin" else v
            if inc[0] == "bin" and inc[1].startswith("Add") and strip(inc[2]) [:2] == ("local", loc) and inc[3][0] == "const" and int(inc[3][1]) == 1:
                continue
            defs_ok = False
        counters.add(loc)
        if not compared or not defs_ok:
            it_ok = False
            res.violation("iterations:counter", "ExpCmpOrdering.iterations comes from `%s`, which is not the loop counter (compared with max_n: %s; defined only as 0 / +1: %s)" % (
                f.local_name(loc), compared, defs_ok), where=where(f), rule="R-PROV")
    if it_ok:
        res.ok("iterations:counter", "R-PROV", "iterations is the counter compared with max_n")
    if it_ok and len(counters) == 1:
        check_budget(res, P, f, roles, next(iter(counters)), fidx["iterations"])
    elif it_ok:
        res.violation("budget:counter", "the result sites use different iteration counters; the budget clause cannot be evaluated", where=where(f), rule="R-TABLE")
    check_wrapper(res, P, f)
    check_helpers(res, P, f)
    res.assumptions += ["dashu IBig operator traits implement integer +, -, *, comparison", "the output parameter holds the running approximation (the series itself is not decided)"]
    return finish(res,
                  explanation="Direction clause of C16: each point where ref_exp_cmp concludes GT (LT) is control dependent on the true outcome of the strict "
                              "comparison compare > rop + E*bound_x (compare < rop - E*bound_x), the bound terms being evaluated as integer polynomials over "
                              "their leaves (roles of the parameters taken from the public exp_cmp entry point); the same error variable E, computed from x, is "
                              "used on both sides; estimation takes only those conclusions and iterations is the loop counter. Does NOT decide that rop/E are "
                              "the Taylor sum and the Lagrange remainder, the EPS cut-off, or the iteration count against the reference.",
                  rule_text="R-CDEP(GT/LT conclusion on compare vs rop +/- error*bound_x) + R-PROV(result fields) + R-TABLE(strict budget) + R-PROV(wrapper returns the result unmodified; helpers store input-derived values)",
                  trusted_base=["rustc MIR", "dashu-int operator semantics"])


def _replay(f, T, blocks):
    """Values of the plain locals after executing the statements of `blocks` in order (no forking): the tabulator's
    own statement semantics, used to read the counter at the end of a loop-closing path."""
    env = {}
    for bb in blocks:
        b = f.blocks[bb]
        for st in b["st"]:
            if st[0] == "a" and isinstance(st[1], int):
                env[st[1]] = T.ev_rvalue(env, st[2])
        t = b["term"]
        if t["k"] == "call" and isinstance(t["dest"], int):
            env[t["dest"]] = ("call", t.get("f") or t.get("g") or "<indirect>", (), bb)
    return env


def check_budget(res, P, f, roles, counter, it_field):
    from pv.tabulate import Tabulator, Path, BudgetExceeded
    from pv.x_misc import feasible
    mx = roles["max_n"]
    only_budget = lambda sym: _only_budget(sym, counter, mx)
    heads = budget_heads(P, f, counter, mx)
    if not heads:
        res.violation("budget:unevaluable", "no loop test of ref_exp_cmp is a function of the iteration counter and max_n only: the iteration budget cannot be evaluated",
                      where=where(f), rule="R-TABLE")
        return
    h = loop_header(f, heads[0])
    T = Tabulator(f, P, 20000)
    try:
        T._walk(h, {}, {}, Path(), set())
    except BudgetExceeded as e:
        res.violation("budget:paths", "cannot enumerate the paths of one loop round of ref_exp_cmp: %s" % e, where=where(f), rule="R-TABLE")
        return
    paths = [p for p in T.out if p.end in ("return", "loop")]
    res.count("budget: paths of one loop round", len(paths))
    bad = {}
    n_cells = 0
    for m in (0, 1, 2, 7):
        for n0 in range(0, m + 1):
            def leaf(s_, n0=n0, m=m):
                if s_[0] == "local" and s_[1] == counter:
                    return n0
                if s_[0] == "param" and s_[1] == mx:
                    return m
                raise Unknown(s_)
            ev = Ev(leaf, bits=64, prog=P)
            for p in paths:
                # decide only the conditions over (n, max_n); leave the others open
                dec = [c for c in p.conds if only_budget(c[0])]
                q = type("Q", (), {"conds": dec})()
                if feasible(q, ev) is not True:
                    continue
                n_cells += 1
                if p.end == "loop":
                    if p.blocks[-1] != h:
                        continue
                    env = _replay(f, T, p.blocks[:-1])
                    try:
                        after = ev(env.get(counter, ("local", counter, None)))
                    except Unknown:
                        bad.setdefault("budget:counter-update", "the counter is updated by something that is not a function of the counter (%s)" % sym_str(env.get(counter), 60))
                        continue
                    if after > m:
                        bad.setdefault("budget:round-beyond-max_n", "a loop round is started with n=%d, max_n=%d and leaves n=%d: the budget test admits n >= max_n "
                                       "(the reference runs while n < max_n)" % (n0, m, after))
                else:
                    r = p.ret
                    it = None
                    if r is not None and r[0] == "agg" and str(r[1]) == RESULT and it_field < len(r[3]):
                        it = r[3][it_field]
                    if it is None:
                        bad.setdefault("budget:result", "a returning path does not build ExpCmpOrdering in a recognisable form (%s)" % sym_str(r or ("unknown",), 60))
                        continue
                    try:
                        v = ev(it)
                    except Unknown:
                        bad.setdefault("budget:iterations-term", "iterations is not a function of the counter on a returning path (%s)" % sym_str(it, 60))
                        continue
                    if v > m:
                        bad.setdefault("budget:iterations-beyond-max_n", "with n=%d, max_n=%d the function can return iterations=%d > max_n" % (n0, m, v))
                    opened = [c for c in p.conds if not only_budget(c[0]) and not (c[0][0] == "local" and f.local_ty(c[0][1]) == "bool")]
                    if n0 < m and not opened and dec:
                        bad.setdefault("budget:stops-early", "with n=%d < max_n=%d the loop is left on the budget test alone (the reference continues while n < max_n)" % (n0, m))
    res.count("budget: (max_n, n, path) cells", n_cells)
    if not n_cells:
        bad.setdefault("budget:unevaluable", "no path of a loop round is feasible for any (n, max_n)")
    if bad:
        for k, msg in bad.items():
            res.violation(k, "ref_exp_cmp iteration budget: " + msg, where="%s:%s" % (f.file, f.blocks[h]["term"]["s"][0]), rule="R-TABLE")
    else:
        res.ok("budget:strict", "R-TABLE", "a round starts only while n < max_n; n and iterations never exceed max_n (max_n in {0,1,2,7}, n in 0..max_n)")


def _only_budget(sym, counter, mx):
    """Is the term a function of the counter, max_n and constants only (and of both)?"""
    seen = set()
    for s_ in sym_walk(sym):
        if s_[0] == "local":
            if s_[1] != counter:
                return False
            seen.add("n")
        elif s_[0] == "param":
            if s_[1] != mx:
                return False
            seen.add("m")
        elif s_[0] in ("call", "discr", "agg", "repeat", "other", "constsym", "fnconst", "unknown"):
            return False
    return seen == {"n", "m"}


def budget_heads(P, f, counter, mx):
    """Switch blocks inside a cycle whose condition is a function of (counter, max_n) only."""
    from pv.tabulate import Tabulator
    heads = []
    for bb in f.live_blocks():
        t = f.blocks[bb]["term"]
        if t["k"] == "switch" and f.in_loop(bb):
            if _only_budget(f.sym_operand(t["d"]), counter, mx):
                heads.append(bb)
    return heads


def loop_header(f, bb):
    """Entry block of the cycle through bb: the block of that cycle which dominates all the others."""
    cyc = [c for c in f.live_blocks() if (c == bb or (f.can_reach(c, bb) and f.can_reach(bb, c)))]
    dom = f.dominators()
    for c in cyc:
        if all(c in dom.get(x, ()) for x in cyc):
            return c
    return bb


def check_wrapper(res, P, f):
    from pv.tabulate import tabulate
    from pv.panic import field_writers
    entry = P.one(r"^<pallas_math::math_dashu::Decimal as pallas_math::math::FixedPrecision>::exp_cmp$")
    bad = None
    n = 0
    for p in tabulate(entry, P, 1024):
        if p.end != "return":
            continue
        n += 1
        r = strip(p.ret, None) if p.ret is not None else ("unknown",)
        if not (r[0] == "call" and r[1] == f.path):
            bad = "on some path it returns %s instead of the value ref_exp_cmp returned" % sym_str(r, 80)
            break
        for pl, val in p.writes:
            root = pl
            while root[0] in ("field", "deref", "downcast", "index", "ref"):
                root = root[1]
            if root == r or (root[0] == "local" and RESULT in entry.local_ty(root[1])):
                bad = "it overwrites `%s` of the result with %s before returning it" % (sym_str(pl, 60).rsplit(".", 1)[-1], sym_str(val, 60))
                break
        if bad:
            break
    if bad or not n:
        res.violation("wrapper:result-modified", "FixedPrecision::exp_cmp (Decimal) must hand back ref_exp_cmp's result unchanged, but %s" % (bad or "it has no returning path"),
                      where=where(entry), rule="R-PROV")
    else:
        res.ok("wrapper:result-unmodified", "R-PROV", "every returning path returns the callee's result with no write into it (%d path(s))" % n)
    # constructions / field writes elsewhere
    extra = []
    for g in P.fns.values():
        if g.crate != "pallas_math" or g is f or "::tests::" in g.path:
            continue
        for bi, si, rv in flow.aggregates(g, "^" + re.escape(RESULT) + "$"):
            copies = all((flow.origin_chain(g.sym_operand(x)) or ((None,), None))[0][0] == "param" and RESULT in g.local_ty(flow.origin_chain(g.sym_operand(x))[0][1])
                         for x in rv["fields"])
            if not copies:
                extra.append(("result-constructed:%s" % g.path.split("pallas_math::")[-1], "%s constructs an ExpCmpOrdering of its own" % g.path, g))
    for fld in ("estimation", "iterations", "approx"):
        for w in field_writers(P, RESULT, fld):
            if w != f.path and "::tests::" not in w:
                extra.append(("result-field-written:%s:%s" % (w.split("pallas_math::")[-1], fld), "%s writes (or mutably borrows) ExpCmpOrdering.%s" % (w, fld), P.fns[w]))
    for k, msg, g in extra:
        res.violation(k, msg + ": the comparison's conclusion must come from ref_exp_cmp alone", where=where(g), rule="R-PROV")
    if not extra:
        res.ok("result:only-from-ref_exp_cmp", "R-PROV", "no other construction of ExpCmpOrdering and no write to its fields in pallas-math")


def check_helpers(res, P, f):
    helpers = []
    for g, t, bi in P.callees(f):
        if g.crate == "pallas_math" and g is not f and g not in helpers and \
                any(re.match(r"^&(?:'\w+ )?mut dashu_int::ibig::IBig$", g.local_ty(i)) for i in range(1, g.argc + 1)):
            helpers.append(g)
    res.floor("in/out helpers of ref_exp_cmp", len(helpers), 1)
    for g in helpers:
        outs = [i for i in range(1, g.argc + 1) if re.match(r"^&(?:'\w+ )?mut dashu_int::ibig::IBig$", g.local_ty(i))]
        key = "helper:%s" % g.name
        has_input = lambda sym, tainted: any((x[0] == "param") or (x[0] == "local" and x[1] in tainted) for x in sym_walk(sym))
        # operands of every definition / in-place update of each local
        defs = {}      # local -> [(bb, [operand syms], kind)]
        for l, ds in g.defs().items():
            for bi, si, kind, payload in ds:
                if kind == "assign":
                    defs.setdefault(l, []).append((bi, [g.sym_rvalue(payload[2], 20)], "def"))
                elif kind == "call":
                    defs.setdefault(l, []).append((bi, [g.sym_operand(a) for a in payload["args"]], "def"))
        for bi, t in g.calls():
            args = [g.sym_operand(a) for a in t["args"]]
            for i, a in enumerate(args):
                ch = flow.origin_chain(a)
                if ch is not None and ch[0][0] == "local" and call_is_mut_receiver(g, bi, i):
                    defs.setdefault(ch[0][1], []).append((bi, [x for j, x in enumerate(args) if j != i], "update"))
        tainted = set()
        changed = True
        while changed:
            changed = False
            for l, ds in defs.items():
                if l not in tainted and any(has_input(o, tainted) for _, ops, _ in ds for o in ops):
                    tainted.add(l)
                    changed = True
        bad = None
        n_store = 0
        for bi, si, st in g.statements():
            if st[0] != "a" or isinstance(st[1], int) or st[1][0] not in outs or [e[0] for e in st[1][1]] != ["deref"]:
                continue
            n_store += 1
            v = g.sym_rvalue(st[2], 20)
            leaves = [x for x in sym_walk(v) if x[0] == "local"]
            if not leaves and not any(x[0] == "param" for x in sym_walk(v)):
                bad = "it stores %s, which does not depend on its input" % sym_str(v, 60)
                break
            for lf in leaves:
                L = lf[1]
                if L not in tainted:
                    bad = "it stores `%s`, which is never computed from the input" % (g.local_name(L) or "_%d" % L)
                    break
                recompute = [b for b, ops, kind in defs.get(L, []) if any(has_input(o, tainted - {L}) for o in ops)]
                for b, ops, kind in defs.get(L, []):
                    if kind == "def" and not any(has_input(o, tainted) for o in ops):
                        if b not in recompute and g.can_reach(b, bi, avoid=tuple(r for r in recompute if r != b)):
                            bad = "`%s` is replaced by a value that does not depend on the input (%s) after it was computed, and that value reaches the store" % (
                                g.local_name(L) or "_%d" % L, "; ".join(sym_str(o, 40) for o in ops) or "a constant")
                            break
                if bad:
                    break
            if bad:
                break
        if bad:
            res.violation(key + ":constant-result", "%s: %s — the helper must return the scaled/divided value of its argument on every path" % (g.path, bad), where=where(g), rule="R-PROV")
        elif not n_store:
            res.violation(key + ":no-store", "%s never stores through its `&mut IBig` parameter" % g.path, where=where(g), rule="R-PROV")
        else:
            res.ok(key + ":input-derived", "R-PROV", "every value stored through the output parameter is computed from the input (%d store(s))" % n_store)
