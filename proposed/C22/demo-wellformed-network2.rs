// Demonstration for C22 (goes to pallas-network2/tests/c22_wellformed.rs): an IPv6 peer address must encode to exactly
// one well-formed CBOR item as a strict generic reader (over minicbor's `Tokenizer`) sees it.  Fails without the fix
// (array(8) followed by 6 items: the reader meets the enclosing `break` / the end of the buffer inside the array).
use pallas_codec::minicbor::{self, data::Token, decode::Tokenizer};
use pallas_network2::protocol::peersharing::{Message, PeerAddress};
use std::net::Ipv6Addr;

/// A strict generic CBOR reader over minicbor's tokenizer: the buffer must hold exactly one complete data item, every
/// definite container holding exactly as many items as it declares, `break` only closing an open indefinite container.
fn single_wellformed_item(bytes: &[u8]) {
    fn item(toks: &[Token<'_>], i: usize) -> Result<usize, String> {
        let tok = toks.get(i).ok_or("input ends where an item is expected")?;
        match tok {
            Token::Array(n) => (0..*n).try_fold(i + 1, |j, _| item(toks, j)),
            Token::Map(n) => (0..2 * *n).try_fold(i + 1, |j, _| item(toks, j)),
            Token::Tag(_) => item(toks, i + 1),
            Token::BeginArray | Token::BeginMap | Token::BeginBytes | Token::BeginString => {
                let mut j = i + 1;
                loop {
                    match toks.get(j) {
                        None => return Err("indefinite container is not closed".into()),
                        Some(Token::Break) => return Ok(j + 1),
                        Some(_) => j = item(toks, j)?,
                    }
                }
            }
            Token::Break => Err("`break` where a data item is expected: a definite container declares more items than it holds".into()),
            _ => Ok(i + 1),
        }
    }
    let toks: Vec<Token<'_>> = Tokenizer::new(bytes)
        .collect::<Result<_, _>>()
        .unwrap_or_else(|e| panic!("not CBOR ({e}): {}", format!("{bytes:02x?}")));
    match item(&toks, 0) {
        Ok(n) if n == toks.len() => {}
        Ok(n) => panic!("{} token(s) after the first complete item: {}", toks.len() - n, format!("{bytes:02x?}")),
        Err(e) => panic!("not one well-formed CBOR item: {e}: {}", format!("{bytes:02x?}")),
    }
}

#[test]
fn peer_address_v6_is_one_wellformed_item() {
    let addr = PeerAddress::V6(Ipv6Addr::new(0x2001, 0xdb8, 0, 0, 0, 0, 0, 1), 3001);
    let bytes = minicbor::to_vec(Message::SharePeers(vec![addr.clone()])).unwrap();
    single_wellformed_item(&bytes);
    let back: Message = minicbor::decode(&bytes).unwrap();
    assert!(matches!(back, Message::SharePeers(ref v) if v == &vec![addr]));
}
