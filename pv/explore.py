"""Ad-hoc exploration helper (not part of any check)."""
import sys, re, json
from .program import Program
from . import panic
from .report import Result

def census(crates, entry_rx, config="default", show_auto=False, stop_rx=None, emit=None):
    P = Program(crates=crates, config=config)
    entries = [f for f in P.fns.values() if re.search(entry_rx, f.path)]
    print("entries", len(entries))
    stop = (lambda g: re.search(stop_rx, g.path)) if stop_rx else None
    closure, sites, skipped = panic.census(P, entries, stop=stop)
    print("closure fns", len(closure), "sites", len(sites), skipped)
    n_auto = 0
    for s in sorted(sites, key=lambda s: (s.fn.path, s.line)):
        r = panic.auto_discharge(s)
        if r:
            n_auto += 1
            if not show_auto:
                continue
        print("%-4s %s:%s  %s | %s | %s | #%d  (%s) expn=%s %s" % ("AUTO" if r else "OPEN", s.fn.file, s.line, s.fn.path, s.kind, s.sig, s.ordinal, s.detail, s.expn, r or ""))
    print("auto", n_auto, "open", len(sites) - n_auto)
    if emit:
        ents = {}
        for s in sorted(sites, key=lambda s: (s.fn.path, s.line)):
            if panic.auto_discharge(s):
                continue
            k = (s.fn.path, s.kind, s.sig)
            e = ents.setdefault(k, {"fn": s.fn.path, "kind": s.kind, "sig": s.sig, "max": 0, "reason": "TODO", "_detail": []})
            e["max"] += 1
            e["_detail"].append("%s:%s (%s)" % (s.fn.file.split("/")[-1], s.line, s.detail))
        with open(emit, "w") as fh:
            fh.write('{"entries": [\n' + ",\n".join(json.dumps(e) for e in ents.values()) + "\n]}\n")
        print("wrote", emit)
    return P, closure, sites

if __name__ == "__main__":
    crates = sys.argv[1].split(",")
    emit = None
    args = sys.argv[3:]
    if "--emit" in args:
        i = args.index("--emit")
        emit = args[i + 1]
        del args[i:i + 2]
    config = args[0] if args else "default"
    census(crates, sys.argv[2], config=config, emit=emit)


def dump_calls(crates, fn_rx, config="default", filt=None):
    from .mir import sym_str
    P = Program(crates=crates, config=config)
    for f in P.find(fn_rx):
        print("==", f.path)
        for bi, t in f.calls():
            name = t.get("f") or t.get("g") or "<indirect>"
            if filt and not re.search(filt, name):
                continue
            print("  bb%d L%s %s(%s)" % (bi, t["s"][0], panic.strip_generics(name), "; ".join(sym_str(f.sym_operand(a), 200) for a in t["args"])))
    return P
