//! The script integrity hash a built transaction carries must be the one the
//! ledger (and pallas-validate) derives from the witness set of that very
//! transaction: `ScriptData::build_for(witness_set, language_views).hash()`.

use pallas_addresses::Address;
use pallas_crypto::hash::Hash;
use pallas_primitives::conway::{LanguageViews, ScriptData, Tx};
use pallas_txbuilder::{BuildConway, Input, Output, ScriptKind, StagingTransaction};

fn staging() -> StagingTransaction {
    let address = Address::from_bech32(
        "addr1qx2fxv2umyhttkxyxp8x0dlpdt3k6cwng5pxj3jhsydzer3n0d3vllmyqwsx5wktcd8cc3sq835lu7drv2xwl2wywfgse35a3x",
    )
    .unwrap();

    StagingTransaction::new()
        .input(Input::new(Hash::<32>::from([7u8; 32]), 0))
        .output(Output::new(address, 2_000_000))
        .fee(170_000)
}

fn built_hash_and_expected(
    staging: StagingTransaction,
    views: &Option<LanguageViews>,
) -> (Option<Hash<32>>, Option<Hash<32>>) {
    let built = staging.build_conway_raw().unwrap();
    let tx: Tx = pallas_codec::minicbor::decode(&built.tx_bytes.0).unwrap();

    let expected = ScriptData::build_for(&tx.transaction_witness_set, views).map(|x| x.hash());

    (tx.transaction_body.script_data_hash, expected)
}

const COST_MODEL: [i64; 3] = [1, 2, 3];

#[test]
fn datums_without_redeemers_hash_the_empty_redeemer_map() {
    // d87980 = Constr 0 []
    let staging = staging()
        .datum(vec![0xd8, 0x79, 0x80])
        .add_language(ScriptKind::PlutusV2, COST_MODEL.to_vec());
    let views = Some(LanguageViews::from_iter([(1, COST_MODEL.to_vec())]));

    let (stored, expected) = built_hash_and_expected(staging, &views);

    assert!(expected.is_some());
    assert_eq!(stored, expected);
}

#[test]
fn datums_without_language_views_still_carry_a_hash() {
    let staging = staging().datum(vec![0xd8, 0x79, 0x80]);

    let (stored, expected) = built_hash_and_expected(staging, &None);

    assert!(expected.is_some());
    assert_eq!(stored, expected);
}

#[test]
fn no_redeemers_and_no_datums_produce_no_hash() {
    let staging = staging().add_language(ScriptKind::PlutusV2, COST_MODEL.to_vec());
    let views = Some(LanguageViews::from_iter([(1, COST_MODEL.to_vec())]));

    let (stored, expected) = built_hash_and_expected(staging, &views);

    assert_eq!(expected, None);
    assert_eq!(stored, None);
}

#[test]
fn redeemers_and_datums_hash_matches_the_witness_set() {
    let input = Input::new(Hash::<32>::from([7u8; 32]), 0);
    let staging = staging()
        .datum(vec![0xd8, 0x79, 0x80])
        .add_spend_redeemer(
            input,
            vec![0xd8, 0x79, 0x80],
            Some(pallas_txbuilder::ExUnits { mem: 10, steps: 20 }),
        )
        .add_language(ScriptKind::PlutusV2, COST_MODEL.to_vec());
    let views = Some(LanguageViews::from_iter([(1, COST_MODEL.to_vec())]));

    let (stored, expected) = built_hash_and_expected(staging, &views);

    assert!(expected.is_some());
    assert_eq!(stored, expected);
}
