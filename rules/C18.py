"""C18 — Shelley and stake addresses round-trip with a faithful header.

Decides the *tables* the round-trip rests on (not bech32/hex/varuint arithmetic):
 (a) ShelleyAddress::typeid / StakeAddress::typeid (variant pair -> nibble) composed with bytes_to_address
     (nibble -> parse_type_N) and what each parser constructs is the identity on the 8 + 2 address types, and equals CIP-19;
 (b) parse_network / From<u8> for Network and Network::value are mutually inverse on the network nibble;
 (c) hrp() tables equal CIP-19 (addr, addr_test, stake, stake_test; other networks -> Err);
 (d) to_header = (typeid << 4) | network.value(); to_vec = header ++ payment ++ delegation (operand order).
The reader-side tables (dispatch, parse_network, From<u8>) and to_header are decided on the *induced* table: the tabulated path
conditions/results are evaluated (pv.finite) over the whole 8-bit domain, so `& 0xF0`, `>> 4`, match or if-chains are all accepted."""
import json
import os
import re
from pv.program import Program
from pv.report import Result, finish
from pv.tabulate import tabulate, cond_variants
from pv import finite
from pv.mir import sym_str, sym_walk
from pv.facts import VERIF

A = "pallas_addresses::"


def variant_of_ctor(P, sym, adt_suffix, depth=3):
    """Variant name built by `sym` for the ADT whose path ends with adt_suffix (looking into helper constructors)."""
    for sub in sym_walk(sym):
        if sub[0] == "agg" and isinstance(sub[1], str) and sub[1].endswith(adt_suffix) and isinstance(sub[2], str):
            return sub[2]
    for sub in sym_walk(sym):
        # a tuple-variant constructor used as a function value: Result::map(x, StakePayload::Stake)
        if sub[0] == "fnconst" and sub[1].rsplit("::", 1)[0].endswith(adt_suffix):
            return sub[1].rsplit("::", 1)[1]
        if sub[0] == "constsym" and isinstance(sub[1], str) and adt_suffix + "::" in sub[1]:
            return sub[1].rsplit("::", 1)[1].strip()
    if depth > 0:
        for sub in sym_walk(sym):
            if sub[0] == "call":
                g = P.get(sub[1])
                if g is not None and g.crate == "pallas_addresses":
                    vs = set()
                    for p in tabulate(g, P, 64):
                        if p.end == "return" and p.ret is not None:
                            v = variant_of_ctor(P, p.ret, adt_suffix, depth - 1)
                            if v:
                                vs.add(v)
                    if len(vs) == 1:
                        return vs.pop()
    return None


def int_table(P, f):
    """[(conds as {subject: ('eq', v)|('ne', [..])|set(names)}, ret sym)] for return paths."""
    rows = []
    for p in tabulate(f, P, 1024):
        if p.end != "return":
            continue
        rows.append((p.conds, p.ret))
    return rows


def run(tier):
    res = Result("C18", tier, level="other")
    spec = json.load(open(os.path.join(VERIF, "spec", "cip19.json")))
    P = Program(crates=["pallas_addresses"])

    # (a1) typeid tables
    typeid = {}
    f = P.one(r"^pallas_addresses::ShelleyAddress::typeid$")
    for conds, ret in int_table(P, f):
        cv = dict(c for c in (cond_variants(P, c) for c in conds) if c)
        pay = cv.get("*self.1")
        dele = cv.get("*self.2")
        if ret is None or ret[0] != "const" or not pay or not dele:
            res.violation("typeid:shape", "ShelleyAddress::typeid is not a constant table over (payment, delegation) variants: %s -> %s" % (cv, sym_str(ret) if ret else None), rule="R-TABLE")
            continue
        for a in pay:
            for b in dele:
                typeid[(a, b)] = int(ret[1])
    for n, (a, b) in spec["shelley_types"].items():
        key = "typeid:shelley:%s/%s" % (a, b)
        got = typeid.get((a, b))
        if got == int(n):
            res.ok(key, "R-TABLE", "typeid(%s,%s) = %s as in CIP-19" % (a, b, n))
        else:
            res.violation(key + "=>%s" % got, "ShelleyAddress::typeid(%s payment, %s delegation) = %s but CIP-19 assigns type %s" % (a, b, got, n),
                          where="%s:%s" % (f.file, f.line), rule="R-TABLE")
    res.floor("shelley typeid rows", len(typeid), 8)
    stake_typeid = {}
    g = P.one(r"^pallas_addresses::StakeAddress::typeid$")
    for conds, ret in int_table(P, g):
        cv = dict(c for c in (cond_variants(P, c) for c in conds) if c)
        for a in cv.get("*self.1", ()):
            if ret is not None and ret[0] == "const":
                stake_typeid[a] = int(ret[1])
    for n, a in spec["stake_types"].items():
        key = "typeid:stake:%s" % a
        if stake_typeid.get(a) == int(n):
            res.ok(key, "R-TABLE", "stake typeid(%s) = %s" % (a, n))
        else:
            res.violation(key + "=>%s" % stake_typeid.get(a), "StakeAddress::typeid(%s) = %s but CIP-19 assigns %s" % (a, stake_typeid.get(a), n), where="%s:%s" % (g.file, g.line), rule="R-TABLE")

    # (a2) dispatch: header byte -> parser, evaluated for all 256 header values (the selector may be spelled `header & 0xF0`,
    # `header >> 4`, an if-chain, ...: only the induced table counts)
    bta = P.one(r"^pallas_addresses::bytes_to_address$")
    bpaths = [p for p in tabulate(bta, P, 1024) if p.end == "return"]
    subj = []
    for p in bpaths:
        for c in p.conds:
            if c[0][0] not in ("discr", "variant"):
                finite.leaves(c[0], subj)
    dispatch = {}
    if len(subj) != 1:
        res.violation("dispatch:subject", "bytes_to_address does not select the parser from one header value (selectors: %s)" % [sym_str(x, 60) for x in subj], rule="R-TABLE")
    else:
        tab = finite.table_over(bpaths, subj[0], range(256))
        by_type = {}
        for h, rows in tab.items():
            outs = set()
            for p in rows:
                if p.ret is not None and p.ret[0] == "call":
                    outs.add(p.ret[1])
                elif p.ret is not None and p.ret[0] == "agg" and p.ret[2] == "Err":
                    outs.add(None)
                else:
                    outs.add("?" + sym_str(p.ret, 60) if p.ret is not None else "?")
            by_type.setdefault(h >> 4, {})[h & 0x0F] = outs
        res.count("header values evaluated against the dispatch conditions", len(tab))
        for n, per_net in sorted(by_type.items()):
            alls = set()
            for o in per_net.values():
                alls |= o
            if len(alls) != 1 or any(len(o) != 1 for o in per_net.values()):
                res.violation("dispatch:low-bits:%d" % n, "the parser chosen for address type %d depends on the network bits or is ambiguous: %s" % (n, sorted(map(str, alls))), rule="R-TABLE")
                continue
            callee = alls.pop()
            if callee is not None:
                dispatch[n] = callee
    res.floor("dispatch rows", len(dispatch), 11)
    # (a3) what each parser builds, composed with typeid
    for n in range(16):
        callee = dispatch.get(n)
        if callee is None:
            if str(n) in spec["shelley_types"] or str(n) in spec["stake_types"] or n == spec["byron_type"]:
                res.violation("dispatch:missing:%d" % n, "address type %d has no parser in bytes_to_address" % n, where="%s:%s" % (bta.file, bta.line), rule="R-TABLE")
            continue
        pf = P.get(callee)
        if pf is None:
            res.violation("dispatch:unresolved:%d" % n, "parser %s for type %d not found" % (callee, n), rule="anchor")
            continue
        key = "roundtrip:type:%d" % n
        if n == spec["byron_type"]:
            ok = any(p.end == "return" and p.ret is not None and variant_of_ctor(P, p.ret, "::Address", 1) == "Byron" for p in tabulate(pf, P, 256))
            if ok:
                res.ok(key, "R-DUAL", "type 8 builds Address::Byron")
            else:
                res.violation(key, "parser for type 8 does not build Address::Byron", rule="R-DUAL")
            continue
        built = set()
        nets = set()
        for p in tabulate(pf, P, 256):
            if p.end != "return" or p.ret is None or p.ret[0] != "agg" or p.ret[2] != "Ok":
                continue
            for sub in sym_walk(p.ret):
                if sub[0] == "agg" and sub[1] == A + "ShelleyAddress":
                    pay = variant_of_ctor(P, sub[3][1], "::ShelleyPaymentPart")
                    dele = variant_of_ctor(P, sub[3][2], "::ShelleyDelegationPart")
                    built.add(("shelley", pay, dele))
                    nets.add(sym_str(sub[3][0]))
                if sub[0] == "agg" and sub[1] == A + "StakeAddress":
                    pl = variant_of_ctor(P, sub[3][1], "::StakePayload")
                    built.add(("stake", pl))
                    nets.add(sym_str(sub[3][0]))
        if len(built) != 1:
            res.violation(key + "=>ambiguous", "parser for type %d builds %s (expected exactly one address shape)" % (n, sorted(map(str, built))), where="%s:%s" % (pf.file, pf.line), rule="R-DUAL")
            continue
        b = built.pop()
        if b[0] == "shelley":
            back = typeid.get((b[1], b[2]))
            want = spec["shelley_types"].get(str(n))
        else:
            back = stake_typeid.get(b[1])
            want = spec["stake_types"].get(str(n))
        res.sample({"type": n, "parser": callee.split("::")[-1], "builds": b, "typeid_back": back})
        if back == n and want is not None and list(b[1:]) == (want if isinstance(want, list) else [want]):
            res.ok(key, "R-DUAL", "type %d -> %s -> typeid %d (identity), as CIP-19" % (n, b[1:], back))
        else:
            res.violation(key + "=>%s" % (b[1:],), "header type %d is parsed into %s whose typeid() is %s (CIP-19: %s): encoding the parsed address does not reproduce the header" % (n, b[1:], back, want),
                          where="%s:%s" % (pf.file, pf.line), rule="R-DUAL")
        if not nets or not all("parse_network(header)" in x for x in nets):
            res.violation("network-source:type:%d" % n, "parser for type %d does not take the network from parse_network(header): %s" % (n, sorted(nets)), rule="R-PROV")
        else:
            res.ok("network-source:type:%d" % n, "R-PROV", "network = parse_network(header)")

    # (b) network tables
    def net_table(f, subject_is_int):
        t = {}
        for conds, ret in int_table(P, f):
            if subject_is_int:
                for d, c in conds:
                    k = c[1] if c[0] == "eq" else "other"
                    t[k] = ret
            else:
                cv = dict(c for c in (cond_variants(P, c) for c in conds) if c)
                for names in cv.values():
                    for nme in names:
                        t[nme] = ret
        return t
    pn = P.one(r"^pallas_addresses::parse_network$")
    fv = P.one(r"^pallas_addresses::Network::value$")
    fu = P.one(r"^<pallas_addresses::Network as core::convert::From<u8>>::from$")
    val = net_table(fv, False)
    vo = val.get("Other")
    value_other_ok = vo is not None and vo[0] == "field" and vo[2] in (0, "0")
    for name, f_, masked in (("parse_network", pn, True), ("From<u8>", fu, False)):
        # evaluated for all 256 argument values: which Network is built, and with which payload
        npaths = [p for p in tabulate(f_, P, 1024) if p.end == "return"]
        subject = ("param", 1, f_.local_name(1))
        tab = finite.table_over(npaths, subject, range(256))
        res.count("argument values evaluated against %s" % name, len(tab))
        got = {}     # id -> set of (variant, payload value)
        for x, rows in tab.items():
            nid = x & 0x0F if masked else x
            for p in rows:
                r = p.ret
                if r is None or r[0] != "agg" or not str(r[1]).endswith("::Network"):
                    got.setdefault(nid, set()).add(("?" + (sym_str(r, 60) if r is not None else ""), None))
                    continue
                pay = None
                if r[3]:
                    try:
                        pay = finite.ev(r[3][0], lambda s_, x=x: x if s_ == subject else (_ for _ in ()).throw(finite.NotFinite(s_)))
                    except finite.NotFinite:
                        pay = "?" + sym_str(r[3][0], 60)
                got.setdefault(nid, set()).add((r[2], pay))
            if not rows:
                got.setdefault(nid, set()).add(("<no row>", None))
        for k, want in spec["networks"].items():
            g = got.get(int(k), set())
            v = sorted(x[0] for x in g)
            key = "network:%s:%s" % (name, k)
            back = val.get(want)
            if g == {(want, None)} and back is not None and back[0] == "const" and int(back[1]) == int(k):
                res.ok(key, "R-DUAL", "%s(%s) = %s and value(%s) = %s" % (name, k, want, want, k))
            else:
                res.violation(key + "=>%s" % (v[0] if len(v) == 1 else v), "%s maps network id %s to %s and Network::value maps %s back to %s: not inverse / not CIP-19" % (name, k, v, want, sym_str(back) if back else None),
                              where="%s:%s" % (f_.file, f_.line), rule="R-DUAL")
        key = "network:%s:other" % name
        rest = [i for i in got if str(i) not in spec["networks"]]
        bad = [(i, sorted(map(str, got[i]))) for i in rest if got[i] != {("Other", i)}]
        if rest and not bad and value_other_ok:
            res.ok(key, "R-DUAL", "every other id n is kept as Other(n) (%d ids evaluated) and value() returns that field" % len(rest))
        elif not rest:
            res.violation(key, "%s has no Other(..) arm for the remaining ids" % name, rule="R-DUAL")
        else:
            res.violation(key, "%s does not keep the remaining network ids as Other(id) (%s) / value(Other) = %s: the network nibble does not round-trip" % (
                name, bad[:3], sym_str(vo) if vo else None), rule="R-DUAL")

    # (c) hrp
    for kind, rx in (("shelley", r"^pallas_addresses::ShelleyAddress::hrp$"), ("stake", r"^pallas_addresses::StakeAddress::hrp$")):
        f_ = P.one(rx)
        t = net_table(f_, False)
        for net, want in spec["hrp"][kind].items():
            r = t.get(net)
            got = None
            if r is not None and r[0] == "agg" and r[2] == "Ok":
                for sub in sym_walk(r):
                    if sub[0] == "constsym":
                        got = str(sub[1]).strip('"')
            key = "hrp:%s:%s" % (kind, net)
            if got == want:
                res.ok(key, "R-TABLE", "hrp(%s) = %s" % (net, want))
            else:
                res.violation(key + "=>%s" % got, "%s hrp for %s is %r, CIP-19 says %r" % (kind, net, got, want), where="%s:%s" % (f_.file, f_.line), rule="R-TABLE")
        r = t.get("Other")
        if r is not None and r[0] == "agg" and r[2] == "Err":
            res.ok("hrp:%s:Other" % kind, "R-TABLE", "other networks have no bech32 prefix (Err)")
        else:
            res.violation("hrp:%s:Other" % kind, "%s hrp() does not fail for other networks" % kind, rule="R-TABLE")

    # (d) header and byte layout
    for kind, rx in (("shelley", r"^pallas_addresses::ShelleyAddress::to_header$"), ("stake", r"^pallas_addresses::StakeAddress::to_header$")):
        f_ = P.one(rx)
        rows = [p for p in tabulate(f_, P, 16) if p.end == "return"]
        key = "to_header:%s" % kind
        ok = False
        if len(rows) == 1 and rows[0].ret is not None:
            # evaluated for all 16 x 16 (typeid, network) nibble pairs
            def mk(t_, n_):
                def leaf(s_):
                    if s_[0] == "call" and s_[1].endswith("::typeid"):
                        return t_
                    if s_[0] == "call" and s_[1].endswith("Network::value"):
                        return n_
                    raise finite.NotFinite(s_)
                return leaf
            try:
                ok = all(finite.ev(rows[0].ret, mk(t_, n_)) == ((t_ << 4) | n_) for t_ in range(16) for n_ in range(16))
                lv = finite.leaves(rows[0].ret)
                ok = ok and any(x[0] == "call" and x[1].endswith("::typeid") for x in lv) and any(x[0] == "call" and x[1].endswith("Network::value") for x in lv)
            except finite.NotFinite:
                ok = False
        if ok:
            res.ok(key, "R-PROV", "(typeid() << 4) | network.value()")
        else:
            res.violation(key, "%s to_header is not (typeid() << 4) | network.value(): %s" % (kind, sym_str(rows[0].ret, 200) if rows else None), where="%s:%s" % (f_.file, f_.line), rule="R-PROV")
    f_ = P.one(r"^pallas_addresses::ShelleyAddress::to_vec$")
    rows = [p for p in tabulate(f_, P, 16) if p.end == "return"]
    order = []
    if rows:
        for sub in sym_walk(rows[0].ret):
            if sub[0] == "call" and sub[1].split("::")[-1] in ("to_header", "to_vec") and sub[1] != f_.path:
                order.append(sub[1].split("pallas_addresses::")[-1])
    if order == ["ShelleyAddress::to_header", "ShelleyPaymentPart::to_vec", "ShelleyDelegationPart::to_vec"]:
        res.ok("to_vec:shelley", "R-ORDER", "bytes = header ++ payment ++ delegation")
    else:
        res.violation("to_vec:shelley", "ShelleyAddress::to_vec concatenates %s, expected header, payment, delegation" % order, where="%s:%s" % (f_.file, f_.line), rule="R-ORDER")
    res.exhaustive = True
    res.trusted += ["spec/cip19.json"]
    return finish(res,
                  explanation="The encoder-side and parser-side tables of address type and network nibbles are extracted from MIR and composed: "
                              "writer table followed by reader table is the identity on all 10 non-Byron address types and on the network nibble, and both equal CIP-19. "
                              "Pointer varuint arithmetic and the bech32/hex libraries are not decided.",
                  rule_text="R-DUAL(typeid o parser = id) + R-TABLE vs CIP-19 + R-PROV(to_header) + R-ORDER(to_vec)",
                  trusted_base=["rustc MIR", "spec/cip19.json"])
