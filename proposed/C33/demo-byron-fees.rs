// Goes into pallas-validate/tests/byron.rs, inside `mod byron_tests` (before the first `#[test]`).
// Fails before the fix (panic: attempt to subtract with overflow, byron.rs check_fees),
// passes with proposed/C33/fix-byron-fees.diff.

    #[test]
    // Same as successful_mainnet_tx, except that the spent UTxO holds a single lovelace,
    // i.e. the outputs exceed the inputs.
    fn outputs_exceeding_inputs_are_rejected() {
        let cbor_bytes: Vec<u8> = cbor_to_bytes(include_str!("../../test_data/byron1.tx"));
        let mtxp: TxPayload = minted_tx_payload_from_cbor(&cbor_bytes);
        let metx: MultiEraTx = MultiEraTx::from_byron(&mtxp);
        let utxos: UTxOs = mk_utxo_for_byron_tx(
            &mtxp.transaction,
            &[(
                String::from(
                    "83581cff66e7549ee0706abe5ce63ba325f792f2c1145d918baf563db2b457a101581e581cca3e553c9c63c5927480e7434620200eb3a162ef0b6cf6f671ba925100",
                ),
                1,
            )],
        );
        let env: Environment = hardcoded_environment_values!();
        let mut cert_state: CertState = CertState::default();
        match validate_txs(&[metx], &env, &utxos, &mut cert_state) {
            Ok(()) => panic!("Outputs should not exceed inputs"),
            Err(err) => match err {
                Byron(ByronError::FeesBelowMin) => (),
                _ => panic!("Unexpected error ({err:?})"),
            },
        }
    }
