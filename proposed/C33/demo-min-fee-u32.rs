// Goes into pallas-validate/tests/alonzo.rs, inside `mod alonzo_tests` (before the first `#[test]`).
// Fails before the fix (panic: attempt to multiply with overflow in alonzo::check_min_fee: 44 * size does not
// fit in a u32 once the transaction is larger than 97.6 MB), passes with proposed/C33/fix-min-fee-u32.diff.
// The same expression exists in shelley_ma.rs, babbage.rs and conway.rs.  Allocates ~200 MB.

    #[test]
    // Same as successful_mainnet_tx, except that the transaction carries 100 MB of metadata.
    fn min_fee_of_a_100_mb_transaction() {
        use pallas_codec::utils::Nullable;
        let cbor_bytes: Vec<u8> = cbor_to_bytes(include_str!("../../test_data/alonzo1.tx"));
        let mut mtx: Tx = minted_tx_from_cbor(&cbor_bytes);
        // metadata { 0: h'00..00' } with a 100_000_000-byte string
        let mut aux_cbor: Vec<u8> = vec![0xa1, 0x00, 0x5a];
        aux_cbor.extend_from_slice(&100_000_000u32.to_be_bytes());
        aux_cbor.resize(aux_cbor.len() + 100_000_000, 0);
        mtx.auxiliary_data = Nullable::Some(
            Decode::decode(&mut Decoder::new(aux_cbor.as_slice()), &mut ()).unwrap(),
        );
        let metx: MultiEraTx = MultiEraTx::from_alonzo_compatible(&mtx, Era::Alonzo);
        let utxos: UTxOs = mk_utxo_for_alonzo_compatible_tx(
            &mtx.transaction_body,
            &[(
                String::from(
                    "018c9ae79bca586ac36dcfdbbf4d2826c685a6969411c338c14973cc7f7bdb37706cd03711fe64747f8cfcfd574c7445cc0378781e77a8cc00",
                ),
                Value::Coin(1549646822),
                None,
            )],
        );
        let env: Environment = Environment {
            prot_params: MultiEraProtocolParameters::Alonzo(mk_params_epoch_334()),
            prot_magic: 764824073,
            block_slot: 44237276,
            network_id: 1,
            acnt: Some(AccountState {
                treasury: 261_254_564_000_000,
                reserves: 0,
            }),
        };
        let mut cert_state: CertState = CertState::default();
        match validate_txs(&[metx], &env, &utxos, &mut cert_state) {
            Ok(()) => panic!("The fee cannot cover 100 MB"),
            Err(err) => match err {
                Alonzo(AlonzoError::FeeBelowMin) => (),
                _ => panic!("Unexpected error ({err:?})"),
            },
        }
    }
