"""Shared helpers of the C10 / C11 / C16 / C26 / C28 rules (engine E2/E3 glue).

* `Ev`           — evaluates the tabulator's / `Fn.sym_*` *terms* over a small concrete domain.  Nothing of pallas is
                   executed: a term is an expression tree over constants, MIR operators and resolved callee def-paths; a
                   closed list of std callees has an arithmetic model (`checked_sub`, `saturating_sub`, `min`, `max`,
                   big-integer `Add`/`Sub`/`Mul`/`Neg` trait methods, `Clone::clone`, `From::from`), everything else is a
                   leaf whose value the rule supplies (or the evaluation is refused with `Unknown`).
* `feasible`     — path conditions of a tabulated path under a leaf assignment.
* `strip`        — value behind borrows, unsizing casts and provenance-transparent calls.
* `subst_params` — instantiate a callee's term at a call site (one-level helper inlining).
* `flat_calls`   — the calls of a tabulated path with workspace helpers spliced in (bounded depth).
* `field_vis`, `call_is_mut_receiver`, `where`.
"""
import re

from .mir import pl_local, op_place, sym_walk
from .panic import strip_generics
from .tabulate import tabulate, BudgetExceeded


class Unknown(Exception):
    """The term contains a leaf/operator outside the modelled fragment."""


NONE = ("None",)


def some(v):
    return ("Some", v)


TRANSPARENT_RX = re.compile(r"::(deref|deref_mut|as_ref|as_mut|as_slice|as_mut_slice|clone|to_vec|to_owned|borrow|borrow_mut|"
                            r"into|as_bytes|by_ref|into_iter|iter|from_ref)$")


def sg(p):
    return strip_generics(p or "")


def strip(sym, transparent=TRANSPARENT_RX):
    """The value behind refs, derefs, pointer casts and provenance-transparent calls."""
    while True:
        k = sym[0]
        if k in ("ref", "deref"):
            sym = sym[1]
        elif k == "cast" and (len(sym) < 5 or "Pointer" in str(sym[4]) or sym[4] in ("Transmute", "PtrToPtr")):
            sym = sym[1]
        elif k == "call" and transparent is not None and transparent.search(sg(sym[1])) and len(sym[2]) == 1:
            sym = sym[2][0]
        else:
            return sym


def subst_params(sym, args):
    """Replace ("param", i, _) leaves of a callee term by the caller's argument terms."""
    if not isinstance(sym, tuple) or not sym:
        return sym
    if sym[0] == "param":
        i = sym[1]
        return args[i - 1] if 1 <= i <= len(args) else sym
    if not isinstance(sym[0], str):
        return tuple(subst_params(x, args) for x in sym)
    out = [sym[0]]
    for x in sym[1:]:
        if isinstance(x, tuple):
            out.append(subst_params(x, args))
        else:
            out.append(x)
    t = tuple(out)
    # ref-of-deref introduced by substitution stays harmless for strip(); fold deref(ref x) -> x
    if t[0] == "deref" and isinstance(t[1], tuple) and t[1] and t[1][0] == "ref":
        return t[1][1]
    return t


_ARITH_TRAIT = re.compile(r"core::ops::arith::(Add|Sub|Mul|Neg)\b.*::(add|sub|mul|neg)$")
_ARITH_ASSIGN = re.compile(r"core::ops::arith::(AddAssign|SubAssign|MulAssign)\b.*::(add_assign|sub_assign|mul_assign)$")


def arith_trait_op(callee):
    """'Add' | 'Sub' | 'Mul' | 'Neg' when the resolved callee is that operator-trait method (any impl, any ref combination)."""
    m = _ARITH_TRAIT.search(callee or "") or _ARITH_TRAIT.search(sg(callee))
    if m and m.group(1).lower() == m.group(2):
        return m.group(1)
    return None


def is_from_into(callee):
    c = callee or ""
    return bool(re.search(r"core::convert::(From|Into)\b.*::(from|into)$", c) or re.search(r"core::convert::(From|Into)\b.*::(from|into)$", sg(c)))


_CMP_METHOD = re.compile(r"(?:core::cmp::PartialOrd|core::cmp::impls::|PartialOrd(?:<[^>]*>)?)\S*::(lt|le|gt|ge)$")


def cmp_method(callee):
    """'lt'|'le'|'gt'|'ge' for a resolved PartialOrd comparison method."""
    s = sg(callee)
    m = re.search(r"::(lt|le|gt|ge)$", s)
    if m and ("PartialOrd" in (callee or "") or "PartialOrd" in s or "core::cmp" in s):
        return m.group(1)
    return None


def is_ord_cmp(callee):
    """`Ord::cmp` of any type, whichever way the resolved path is printed."""
    c = callee or ""
    return bool(re.search(r"core::cmp::Ord\b.*::cmp$", c) or re.search(r"core::cmp::Ord::cmp$", sg(c)))


class Ev:
    """Term evaluator.  `leaf(sym)` returns a Python value for a leaf or raises Unknown."""

    def __init__(self, leaf, bits=64, prog=None, inline_depth=2):
        self.leaf = leaf
        self.bits = bits
        self.mask = (1 << bits) - 1
        self.prog = prog
        self.inline_depth = inline_depth

    def __call__(self, sym):
        return self.ev(sym, self.inline_depth)

    def ev(self, sym, depth):
        try:
            return self.leaf(sym)
        except Unknown:
            pass
        k = sym[0]
        if k == "const":
            try:
                return int(sym[1])
            except (TypeError, ValueError):
                raise Unknown(sym)
        if k in ("ref", "deref"):
            return self.ev(sym[1], depth)
        if k == "cast":
            v = self.ev(sym[1], depth)
            return v
        if k == "bin":
            op = sym[1]
            a, b = self.ev(sym[2], depth), self.ev(sym[3], depth)
            if op.endswith("WithOverflow"):
                v = self._bin(op[:-len("WithOverflow")], a, b, sym)
                return ("tuple", (v, 0))
            return self._bin(op, a, b, sym)
        if k == "un":
            x = self.ev(sym[2], depth)
            if sym[1] == "Not":
                if x in (0, 1) and self._is_boolish(sym[2]):
                    return 1 - x
                return (~x) & self.mask
            if sym[1] == "Neg":
                return -x
            raise Unknown(sym)
        if k == "field":
            base = self.ev(sym[1], depth)
            idx = sym[2]
            if isinstance(base, tuple) and base and base[0] == "tuple":
                return base[1][int(idx)]
            if isinstance(base, tuple) and base and base[0] == "Some" and str(idx) == "0":
                return base[1]
            if isinstance(base, tuple) and base and base[0] == "range" and idx in ("start", "end"):
                return base[1] if idx == "start" else base[2]
            raise Unknown(sym)
        if k == "downcast":
            base = self.ev(sym[1], depth)
            return base
        if k == "discr":
            v = self.ev(sym[1], depth)
            if v == NONE:
                return 0
            if isinstance(v, tuple) and v and v[0] == "Some":
                return 1
            if isinstance(v, tuple) and v and v[0] == "variant":
                return v[1]
            if isinstance(v, int):
                return v
            raise Unknown(sym)
        if k == "variant":
            raise Unknown(sym)
        if k == "agg":
            adt, var = str(sym[1]), sym[2]
            f = sym[3]
            if adt == "core::option::Option":
                return NONE if var == "None" else some(self.ev(f[0], depth))
            if adt == "core::ops::range::Range":
                return ("range", self.ev(f[0], depth), self.ev(f[1], depth))
            if adt == "core::ops::range::RangeTo":
                return ("range", 0, self.ev(f[0], depth))
            if adt == "core::ops::range::RangeFrom":
                return ("range", self.ev(f[0], depth), None)
            if adt == "core::ops::range::RangeFull":
                return ("range", 0, None)
            if adt == "core::ops::range::RangeToInclusive":
                return ("range", 0, self.ev(f[0], depth) + 1)
            if adt == "tuple":
                return ("tuple", tuple(self.ev(x, depth) for x in f))
            raise Unknown(sym)
        if k == "call":
            return self._call(sym, depth)
        raise Unknown(sym)

    @staticmethod
    def _is_boolish(sym):
        return sym[0] == "bin" and sym[1] in ("Eq", "Ne", "Lt", "Le", "Gt", "Ge") or sym[0] == "call" or \
            (sym[0] == "const" and len(sym) > 2 and sym[2] == "bool") or (sym[0] == "un" and sym[1] == "Not" and Ev._is_boolish(sym[2]))

    def _bin(self, op, a, b, sym):
        if not isinstance(a, int) or not isinstance(b, int):
            if op in ("Eq", "Ne"):
                return int((a == b) == (op == "Eq"))
            raise Unknown(sym)
        if op in ("Eq", "Ne", "Lt", "Le", "Gt", "Ge"):
            return int({"Eq": a == b, "Ne": a != b, "Lt": a < b, "Le": a <= b, "Gt": a > b, "Ge": a >= b}[op])
        if op == "BitAnd":
            return a & b
        if op == "BitOr":
            return a | b
        if op == "BitXor":
            return a ^ b
        if op in ("Add", "AddUnchecked"):
            return a + b
        if op in ("Sub", "SubUnchecked"):
            return a - b
        if op in ("Mul", "MulUnchecked"):
            return a * b
        if op in ("Shl", "ShlUnchecked") and 0 <= b < self.bits:
            return (a << b) & self.mask
        if op in ("Shr", "ShrUnchecked") and 0 <= b < self.bits:
            return a >> b
        if op == "Div" and b:
            return a // b
        if op == "Rem" and b:
            return a % b
        raise Unknown(sym)

    def _call(self, sym, depth):
        name = sg(sym[1])
        args = sym[2]
        last = name.rsplit("::", 1)[-1]
        op = arith_trait_op(sym[1])
        if op == "Neg" and len(args) == 1:
            return -self.ev(args[0], depth)
        if op and len(args) == 2:
            a, b = self.ev(args[0], depth), self.ev(args[1], depth)
            return {"Add": a + b, "Sub": a - b, "Mul": a * b}[op]
        if name.startswith("core::num::") and len(args) == 2:
            a, b = self.ev(args[0], depth), self.ev(args[1], depth)
            if last == "checked_sub":
                return some(a - b) if a >= b else NONE
            if last == "saturating_sub":
                return max(a - b, 0)
            if last == "wrapping_sub" and a >= b:
                return a - b
            if last == "checked_add":
                return some(a + b)
            if last in ("saturating_add", "wrapping_add"):
                return a + b
        if (name.startswith("core::cmp::") and last in ("min", "max")) and len(args) == 2:
            a, b = self.ev(args[0], depth), self.ev(args[1], depth)
            return min(a, b) if last == "min" else max(a, b)
        cm = cmp_method(sym[1])
        if cm and len(args) == 2:
            a, b = self.ev(args[0], depth), self.ev(args[1], depth)
            return int({"lt": a < b, "le": a <= b, "gt": a > b, "ge": a >= b}[cm])
        if re.search(r"core::clone::Clone::clone$|::clone$", name) and len(args) == 1:
            return self.ev(args[0], depth)
        if is_from_into(sym[1]) and len(args) == 1:
            return self.ev(args[0], depth)
        if re.search(r"core::option::Option::(unwrap|expect|unwrap_unchecked)$", name) and args:
            v = self.ev(args[0], depth)
            if isinstance(v, tuple) and v and v[0] == "Some":
                return v[1]
            raise Unknown(sym)
        if re.search(r"core::option::Option::unwrap_or$", name) and len(args) == 2:
            v = self.ev(args[0], depth)
            return v[1] if v != NONE else self.ev(args[1], depth)
        if re.search(r"core::option::Option::unwrap_or_default$", name) and len(args) == 1:
            v = self.ev(args[0], depth)
            return v[1] if v != NONE else 0
        if re.search(r"core::option::Option::is_(some|none)$", name) and len(args) == 1:
            v = self.ev(args[0], depth)
            return int((v != NONE) == name.endswith("is_some"))
        # one-level inlining of a pure workspace helper with a single return path
        if self.prog is not None and depth > 0:
            g = self.prog.fns.get(sym[1])
            if g is not None:
                t = pure_return_term(g, self.prog)
                if t is not None:
                    return self.ev(subst_params(t, list(args)), depth - 1)
        raise Unknown(sym)


_pure_cache = {}


def pure_return_term(g, prog):
    """Return term of a workspace helper that has exactly one returning path and no loops; else None."""
    key = g.path
    if key in _pure_cache:
        return _pure_cache[key]
    out = None
    try:
        ps = [p for p in tabulate(g, prog, 64) if p.end in ("return", "loop")]
        if len(ps) == 1 and ps[0].end == "return":
            out = ps[0].ret
    except (BudgetExceeded, RecursionError):
        out = None
    _pure_cache[key] = out
    return out


def feasible(path, ev):
    """True / False / None (a condition lies outside the modelled fragment)."""
    unknown = False
    for c in path.conds:
        d, want = c[0], c[1]
        try:
            v = ev(d) if d[0] != "discr" else ev(d)
        except Unknown:
            unknown = True
            continue
        if not isinstance(v, int):
            unknown = True
            continue
        if want[0] == "eq":
            if v != int(want[1]):
                return False
        else:
            if v in [int(x) for x in want[1]]:
                return False
    return None if unknown else True


def call_is_mut_receiver(fn, bb, i=0):
    """Does argument i of the call terminating block bb have type `&mut _`?"""
    t = fn.blocks[bb]["term"]
    if i >= len(t["args"]):
        return False
    p = op_place(t["args"][i])
    if p is None:
        return False
    if isinstance(p, int):
        ty = fn.local_ty(p)
    else:
        last = p[1][-1] if p[1] else None
        ty = last[3] if last and last[0] == "field" else fn.local_ty(pl_local(p))
    return ty.startswith("&mut ") or re.match(r"^&'\w+ mut ", ty) is not None


def flat_calls(fn, path, prog, want, depth=2):
    """Calls of a tabulated path as [(callee, args, fn, bb)], with calls to workspace functions selected by
    `want(callee_fn)` replaced by the calls of the callee (parameters instantiated); a selected callee with more than
    one returning path is reported as ("<branching-helper>", ...)."""
    out = []
    for callee, args, bb in path.calls:
        g = prog.fns.get(callee) if prog is not None else None
        if g is not None and depth > 0 and want(g):
            try:
                ps = [p for p in tabulate(g, prog, 64) if p.end != "diverge"]
            except BudgetExceeded:
                ps = []
            if len(ps) == 1 and ps[0].end == "return":
                for c2, a2, g2, b2 in flat_calls(g, ps[0], prog, want, depth - 1):
                    out.append((c2, [subst_params(a, list(args)) for a in a2], g2, b2))
                continue
            out.append(("<branching-helper>", list(args), fn, bb))
            continue
        out.append((callee, list(args), fn, bb))
    return out


def field_vis(prog, adt_path, field, variant=None):
    a = prog.adt(adt_path)
    if a is None:
        return None
    for v in a["variants"]:
        if variant is not None and v["name"] != variant:
            continue
        for f in v["fields"]:
            if f["name"] == field:
                return f.get("vis")
    return None


def where(fn, bb=None):
    if bb is not None:
        try:
            return "%s:%s" % (fn.file, fn.blocks[bb]["term"]["s"][0])
        except (KeyError, IndexError, TypeError):
            pass
    return "%s:%s" % (fn.file, fn.line)


def contains_call(sym, rx):
    rx = re.compile(rx) if isinstance(rx, str) else rx
    return [s for s in sym_walk(sym) if s[0] == "call" and rx.search(sg(s[1]))]
