use crate::json::J;
use crate::{scalar_to_j, Cx};
use rustc_hir::def_id::DefId;
use rustc_middle::mir::{
    AggregateKind, AssertKind, BinOp, Body, Const, Operand, Place, ProjectionElem, Rvalue,
    StatementKind, TerminatorKind,
};
use rustc_middle::ty::{self, Instance, TypingEnv};

pub fn dump_mir<'tcx>(cx: &Cx<'tcx>, did: DefId) -> J {
    let tcx = cx.tcx;
    let body: &Body<'tcx> = tcx.optimized_mir(did);
    let tenv = TypingEnv::post_analysis(tcx, did);
    let mut locals = vec![];
    // debug names
    let mut names: Vec<Option<String>> = vec![None; body.local_decls.len()];
    for vdi in body.var_debug_info.iter() {
        if let rustc_middle::mir::VarDebugInfoContents::Place(p) = &vdi.value {
            if p.projection.is_empty() {
                names[p.local.as_usize()] = Some(vdi.name.to_string());
            } else {
                // captured upvar etc: record as name on base with projection text
            }
        }
    }
    for (l, d) in body.local_decls.iter_enumerated() {
        locals.push(J::Obj(vec![
            ("ty", J::s(cx.ty_s(d.ty))),
            ("name", J::opt_s(names[l.as_usize()].clone())),
        ]));
    }
    let mut blocks = vec![];
    for (_bb, data) in body.basic_blocks.iter_enumerated() {
        let mut stmts = vec![];
        for st in data.statements.iter() {
            match &st.kind {
                StatementKind::Assign(b) => {
                    let (pl, rv) = &**b;
                    stmts.push(J::Arr(vec![
                        J::s("a"),
                        place(cx, body, pl),
                        rvalue(cx, body, tenv, rv),
                        cx.span_j(st.source_info.span),
                    ]));
                }
                StatementKind::SetDiscriminant { place: pl, variant_index } => {
                    stmts.push(J::Arr(vec![
                        J::s("setdiscr"),
                        place(cx, body, pl),
                        J::Int(variant_index.as_u32() as i128),
                        cx.span_j(st.source_info.span),
                    ]));
                }
                StatementKind::Intrinsic(i) => {
                    stmts.push(J::Arr(vec![J::s("intrinsic"), J::s(format!("{:?}", i))]));
                }
                _ => {}
            }
        }
        let term = data.terminator();
        let sp = term.source_info.span;
        let t = match &term.kind {
            TerminatorKind::Goto { target } => J::Obj(vec![("k", J::s("goto")), ("t", bbj(*target))]),
            TerminatorKind::SwitchInt { discr, targets } => {
                let mut ts = vec![];
                for (v, t) in targets.iter() {
                    ts.push(J::Arr(vec![
                        if v > i128::MAX as u128 { J::Str(v.to_string()) } else { J::Int(v as i128) },
                        bbj(t),
                    ]));
                }
                J::Obj(vec![
                    ("k", J::s("switch")),
                    ("d", operand(cx, body, tenv, discr)),
                    ("dty", J::s(cx.ty_s(discr.ty(body, tcx)))),
                    ("ts", J::Arr(ts)),
                    ("o", bbj(targets.otherwise())),
                    ("s", cx.span_j(sp)),
                ])
            }
            TerminatorKind::Return => J::Obj(vec![("k", J::s("return"))]),
            TerminatorKind::Unreachable => J::Obj(vec![("k", J::s("unreachable"))]),
            TerminatorKind::UnwindResume => J::Obj(vec![("k", J::s("resume"))]),
            TerminatorKind::UnwindTerminate(_) => J::Obj(vec![("k", J::s("terminate"))]),
            TerminatorKind::Drop { place: pl, target, .. } => J::Obj(vec![
                ("k", J::s("drop")),
                ("p", place(cx, body, pl)),
                ("t", bbj(*target)),
            ]),
            TerminatorKind::Call { func, args, destination, target, fn_span, .. } => {
                let mut o = vec![("k", J::s("call"))];
                call_target(cx, tenv, body, func, &mut o);
                let mut a = vec![];
                for x in args.iter() {
                    a.push(operand(cx, body, tenv, &x.node));
                }
                o.push(("args", J::Arr(a)));
                o.push(("dest", place(cx, body, destination)));
                o.push(("t", match target { Some(t) => bbj(*t), None => J::Null }));
                o.push(("s", cx.span_j(*fn_span)));
                o.push(("s2", cx.span_j(sp)));
                J::Obj(o)
            }
            TerminatorKind::TailCall { func, args, .. } => {
                let mut o = vec![("k", J::s("tailcall"))];
                call_target(cx, tenv, body, func, &mut o);
                let mut a = vec![];
                for x in args.iter() {
                    a.push(operand(cx, body, tenv, &x.node));
                }
                o.push(("args", J::Arr(a)));
                J::Obj(o)
            }
            TerminatorKind::Assert { cond, expected, msg, target, .. } => {
                let (kind, ops): (String, Vec<J>) = match &**msg {
                    AssertKind::BoundsCheck { len, index } => (
                        "BoundsCheck".into(),
                        vec![operand(cx, body, tenv, len), operand(cx, body, tenv, index)],
                    ),
                    AssertKind::Overflow(op, a, b) => (
                        format!("Overflow:{}", binop(*op)),
                        vec![operand(cx, body, tenv, a), operand(cx, body, tenv, b)],
                    ),
                    AssertKind::OverflowNeg(a) => ("OverflowNeg".into(), vec![operand(cx, body, tenv, a)]),
                    AssertKind::DivisionByZero(a) => ("DivisionByZero".into(), vec![operand(cx, body, tenv, a)]),
                    AssertKind::RemainderByZero(a) => ("RemainderByZero".into(), vec![operand(cx, body, tenv, a)]),
                    AssertKind::ResumedAfterReturn(_) => ("ResumedAfterReturn".into(), vec![]),
                    AssertKind::ResumedAfterPanic(_) => ("ResumedAfterPanic".into(), vec![]),
                    AssertKind::ResumedAfterDrop(_) => ("ResumedAfterDrop".into(), vec![]),
                    AssertKind::MisalignedPointerDereference { .. } => ("MisalignedPointerDereference".into(), vec![]),
                    AssertKind::NullPointerDereference => ("NullPointerDereference".into(), vec![]),
                    AssertKind::InvalidEnumConstruction(_) => ("InvalidEnumConstruction".into(), vec![]),
                };
                J::Obj(vec![
                    ("k", J::s("assert")),
                    ("cond", operand(cx, body, tenv, cond)),
                    ("expected", J::Bool(*expected)),
                    ("kind", J::s(kind)),
                    ("ops", J::Arr(ops)),
                    ("t", bbj(*target)),
                    ("s", cx.span_j(sp)),
                ])
            }
            TerminatorKind::Yield { resume, drop, .. } => J::Obj(vec![
                ("k", J::s("yield")),
                ("t", bbj(*resume)),
                ("drop", match drop { Some(d) => bbj(*d), None => J::Null }),
            ]),
            TerminatorKind::CoroutineDrop => J::Obj(vec![("k", J::s("coroutine_drop"))]),
            TerminatorKind::FalseEdge { real_target, .. } => J::Obj(vec![("k", J::s("goto")), ("t", bbj(*real_target))]),
            TerminatorKind::FalseUnwind { real_target, .. } => J::Obj(vec![("k", J::s("goto")), ("t", bbj(*real_target))]),
            TerminatorKind::InlineAsm { .. } => J::Obj(vec![("k", J::s("asm"))]),
        };
        blocks.push(J::Obj(vec![
            ("st", J::Arr(stmts)),
            ("term", t),
            ("cleanup", if data.is_cleanup { J::Bool(true) } else { J::Null }),
        ]));
    }
    J::Obj(vec![
        ("argc", J::Int(body.arg_count as i128)),
        ("locals", J::Arr(locals)),
        ("blocks", J::Arr(blocks)),
    ])
}

fn bbj(b: rustc_middle::mir::BasicBlock) -> J {
    J::Int(b.as_u32() as i128)
}

pub fn binop(op: BinOp) -> &'static str {
    match op {
        BinOp::Add => "Add",
        BinOp::AddUnchecked => "AddUnchecked",
        BinOp::AddWithOverflow => "AddWithOverflow",
        BinOp::Sub => "Sub",
        BinOp::SubUnchecked => "SubUnchecked",
        BinOp::SubWithOverflow => "SubWithOverflow",
        BinOp::Mul => "Mul",
        BinOp::MulUnchecked => "MulUnchecked",
        BinOp::MulWithOverflow => "MulWithOverflow",
        BinOp::Div => "Div",
        BinOp::Rem => "Rem",
        BinOp::BitXor => "BitXor",
        BinOp::BitAnd => "BitAnd",
        BinOp::BitOr => "BitOr",
        BinOp::Shl => "Shl",
        BinOp::ShlUnchecked => "ShlUnchecked",
        BinOp::Shr => "Shr",
        BinOp::ShrUnchecked => "ShrUnchecked",
        BinOp::Eq => "Eq",
        BinOp::Lt => "Lt",
        BinOp::Le => "Le",
        BinOp::Ne => "Ne",
        BinOp::Ge => "Ge",
        BinOp::Gt => "Gt",
        BinOp::Cmp => "Cmp",
        BinOp::Offset => "Offset",
    }
}

fn call_target<'tcx>(
    cx: &Cx<'tcx>,
    tenv: TypingEnv<'tcx>,
    body: &Body<'tcx>,
    func: &Operand<'tcx>,
    o: &mut Vec<(&'static str, J)>,
) {
    let tcx = cx.tcx;
    let fty = func.ty(body, tcx);
    if let ty::FnDef(cdid, args) = fty.kind() {
        // generic (as written) target
        o.push(("g", J::s(cx.dpath(*cdid))));
        o.push(("gfull", J::s(cx.dpath_args(*cdid, args))));
        if let Some(tr) = tcx.trait_of_assoc(*cdid) {
            o.push(("trait", J::s(cx.dpath(tr))));
            if args.len() > 0 {
                if let Some(t) = args[0].as_type() {
                    o.push(("selfty", J::s(cx.ty_s(t))));
                }
            }
        }
        let mut targs = vec![];
        for a in args.iter() {
            if let Some(t) = a.as_type() {
                targs.push(J::s(cx.ty_s(t)));
            }
        }
        o.push(("targs", J::Arr(targs)));
        match Instance::try_resolve(tcx, tenv, *cdid, args) {
            Ok(Some(inst)) => {
                let rd = inst.def_id();
                o.push(("f", J::s(cx.dpath(rd))));
                o.push(("ffull", J::s(cx.dpath_args(rd, inst.args))));
                let shim = match inst.def {
                    ty::InstanceKind::Item(_) => None,
                    other => Some(format!("{:?}", std::mem::discriminant(&other)).chars().take(0).collect::<String>() + instance_kind_name(&other)),
                };
                o.push(("shim", J::opt_s(shim)));
                o.push(("local", J::Bool(rd.is_local())));
            }
            _ => {
                o.push(("f", J::Null));
            }
        }
    } else {
        // fn pointer / closure call through a value
        o.push(("indirect", operand(cx, body, tenv, func)));
        o.push(("fty", J::s(cx.ty_s(fty))));
    }
}

fn instance_kind_name(k: &ty::InstanceKind<'_>) -> &'static str {
    match k {
        ty::InstanceKind::Item(_) => "Item",
        ty::InstanceKind::Intrinsic(_) => "Intrinsic",
        ty::InstanceKind::VTableShim(_) => "VTableShim",
        ty::InstanceKind::ReifyShim(..) => "ReifyShim",
        ty::InstanceKind::FnPtrShim(..) => "FnPtrShim",
        ty::InstanceKind::Virtual(..) => "Virtual",
        ty::InstanceKind::ClosureOnceShim { .. } => "ClosureOnceShim",
        ty::InstanceKind::ConstructCoroutineInClosureShim { .. } => "ConstructCoroutineInClosureShim",
        ty::InstanceKind::ThreadLocalShim(_) => "ThreadLocalShim",
        ty::InstanceKind::DropGlue(..) => "DropGlue",
        ty::InstanceKind::CloneShim(..) => "CloneShim",
        ty::InstanceKind::FnPtrAddrShim(..) => "FnPtrAddrShim",
        ty::InstanceKind::AsyncDropGlueCtorShim(..) => "AsyncDropGlueCtorShim",
        _ => "OtherShim",
    }
}

pub fn place<'tcx>(cx: &Cx<'tcx>, body: &Body<'tcx>, p: &Place<'tcx>) -> J {
    let tcx = cx.tcx;
    let mut proj = vec![];
    let mut pty = rustc_middle::mir::PlaceTy::from_ty(body.local_decls[p.local].ty);
    for elem in p.projection.iter() {
        let j = match elem {
            ProjectionElem::Deref => J::Arr(vec![J::s("deref")]),
            ProjectionElem::Field(f, fty) => {
                // field name if ADT
                let mut name = J::Null;
                if let ty::Adt(adt, _) = pty.ty.kind() {
                    let vi = pty.variant_index.unwrap_or(rustc_abi::FIRST_VARIANT);
                    if adt.is_enum() || adt.is_struct() || adt.is_union() {
                        if let Some(v) = adt.variants().get(vi) {
                            if let Some(fd) = v.fields.get(f) {
                                name = J::s(fd.name.to_string());
                            }
                        }
                    }
                }
                J::Arr(vec![J::s("field"), J::Int(f.as_u32() as i128), name, J::s(cx.ty_s(fty))])
            }
            ProjectionElem::Index(l) => J::Arr(vec![J::s("index"), J::Int(l.as_u32() as i128)]),
            ProjectionElem::ConstantIndex { offset, min_length, from_end } => J::Arr(vec![
                J::s("cindex"),
                J::Int(offset as i128),
                J::Int(min_length as i128),
                J::Bool(from_end),
            ]),
            ProjectionElem::Subslice { from, to, from_end } => J::Arr(vec![
                J::s("subslice"),
                J::Int(from as i128),
                J::Int(to as i128),
                J::Bool(from_end),
            ]),
            ProjectionElem::Downcast(name, vi) => J::Arr(vec![
                J::s("downcast"),
                J::Int(vi.as_u32() as i128),
                J::opt_s(name.map(|s| s.to_string())),
            ]),
            ProjectionElem::OpaqueCast(_) => J::Arr(vec![J::s("opaque")]),
            ProjectionElem::UnwrapUnsafeBinder(_) => J::Arr(vec![J::s("unwrapbinder")]),
        };
        proj.push(j);
        pty = pty.projection_ty(tcx, elem);
    }
    if proj.is_empty() {
        J::Int(p.local.as_u32() as i128)
    } else {
        J::Arr(vec![J::Int(p.local.as_u32() as i128), J::Arr(proj)])
    }
}

pub fn operand<'tcx>(cx: &Cx<'tcx>, body: &Body<'tcx>, tenv: TypingEnv<'tcx>, op: &Operand<'tcx>) -> J {
    let tcx = cx.tcx;
    match op {
        Operand::Copy(p) => J::Obj(vec![("c", place(cx, body, p))]),
        Operand::Move(p) => J::Obj(vec![("m", place(cx, body, p))]),
        Operand::Constant(c) => {
            let ty = c.const_.ty();
            let mut o = vec![("ty", J::s(cx.ty_s(ty)))];
            match ty.kind() {
                ty::FnDef(d, a) => {
                    o.push(("fn", J::s(cx.dpath(*d))));
                    o.push(("fnfull", J::s(cx.dpath_args(*d, a))));
                }
                ty::Int(_) | ty::Uint(_) | ty::Bool | ty::Char => {
                    if let Some(si) = c.const_.try_eval_scalar_int(tcx, tenv) {
                        o.push(("v", scalar_to_j(si, ty)));
                    } else {
                        o.push(("sym", J::s(const_str(cx, &c.const_))));
                    }
                }
                _ => {
                    let s = const_str(cx, &c.const_);
                    let s = if s.len() > 200 { s[..s.char_indices().nth(200).map(|x| x.0).unwrap_or(s.len())].to_string() } else { s };
                    o.push(("sym", J::s(s)));
                }
            }
            J::Obj(vec![("k", J::Obj(o))])
        }
        #[allow(unreachable_patterns)]
        _ => J::Obj(vec![("other", J::s(format!("{:?}", op)))]),
    }
}

fn const_str<'tcx>(cx: &Cx<'tcx>, c: &Const<'tcx>) -> String {
    let s = crate::canon!(format!("{}", c));
    crate::fix_crate(s, &cx.krate)
}

fn rvalue<'tcx>(cx: &Cx<'tcx>, body: &Body<'tcx>, tenv: TypingEnv<'tcx>, rv: &Rvalue<'tcx>) -> J {
    let tcx = cx.tcx;
    match rv {
        Rvalue::Use(op, _) => J::Obj(vec![("k", J::s("use")), ("x", operand(cx, body, tenv, op))]),
        Rvalue::Repeat(op, n) => J::Obj(vec![
            ("k", J::s("repeat")),
            ("x", operand(cx, body, tenv, op)),
            ("n", J::s(format!("{}", n))),
        ]),
        Rvalue::Ref(_, bk, p) => J::Obj(vec![
            ("k", J::s("ref")),
            ("mut", J::Bool(matches!(bk, rustc_middle::mir::BorrowKind::Mut { .. }))),
            ("p", place(cx, body, p)),
        ]),
        Rvalue::RawPtr(k, p) => J::Obj(vec![
            ("k", J::s("rawptr")),
            ("mut", J::Bool(matches!(k, rustc_middle::mir::RawPtrKind::Mut))),
            ("p", place(cx, body, p)),
        ]),
        Rvalue::ThreadLocalRef(d) => J::Obj(vec![("k", J::s("tls")), ("def", J::s(cx.dpath(*d)))]),
        Rvalue::Cast(ck, op, ty) => J::Obj(vec![
            ("k", J::s("cast")),
            ("ck", J::s(format!("{:?}", ck))),
            ("x", operand(cx, body, tenv, op)),
            ("from", J::s(cx.ty_s(op.ty(body, tcx)))),
            ("to", J::s(cx.ty_s(*ty))),
        ]),
        Rvalue::BinaryOp(op, b) => {
            let (l, r) = &**b;
            J::Obj(vec![
                ("k", J::s("bin")),
                ("op", J::s(binop(*op))),
                ("l", operand(cx, body, tenv, l)),
                ("r", operand(cx, body, tenv, r)),
                ("lty", J::s(cx.ty_s(l.ty(body, tcx)))),
            ])
        }
        Rvalue::UnaryOp(op, x) => J::Obj(vec![
            ("k", J::s("un")),
            ("op", J::s(format!("{:?}", op))),
            ("x", operand(cx, body, tenv, x)),
        ]),
        Rvalue::Discriminant(p) => J::Obj(vec![
            ("k", J::s("discr")),
            ("p", place(cx, body, p)),
            ("pty", J::s(cx.ty_s(p.ty(body, tcx).ty))),
        ]),
        Rvalue::Aggregate(ak, fields) => {
            let mut o = vec![("k", J::s("agg"))];
            match &**ak {
                AggregateKind::Array(t) => {
                    o.push(("ak", J::s("array")));
                    o.push(("ety", J::s(cx.ty_s(*t))));
                }
                AggregateKind::Tuple => o.push(("ak", J::s("tuple"))),
                AggregateKind::Adt(d, vi, args, _, _) => {
                    o.push(("ak", J::s("adt")));
                    o.push(("adt", J::s(cx.dpath(*d))));
                    let adt = tcx.adt_def(*d);
                    o.push(("variant", J::s(adt.variant(*vi).name.to_string())));
                    o.push(("vidx", J::Int(vi.as_u32() as i128)));
                    o.push(("adtfull", J::s(cx.dpath_args(*d, args))));
                }
                AggregateKind::Closure(d, _) => {
                    o.push(("ak", J::s("closure")));
                    o.push(("def", J::s(cx.dpath(*d))));
                }
                AggregateKind::Coroutine(d, _) => {
                    o.push(("ak", J::s("coroutine")));
                    o.push(("def", J::s(cx.dpath(*d))));
                }
                AggregateKind::CoroutineClosure(d, _) => {
                    o.push(("ak", J::s("coroutine_closure")));
                    o.push(("def", J::s(cx.dpath(*d))));
                }
                AggregateKind::RawPtr(..) => o.push(("ak", J::s("rawptr"))),
            }
            let mut fs = vec![];
            for f in fields.iter() {
                fs.push(operand(cx, body, tenv, f));
            }
            o.push(("fields", J::Arr(fs)));
            J::Obj(o)
        }
        Rvalue::CopyForDeref(p) => J::Obj(vec![("k", J::s("use")), ("x", J::Obj(vec![("c", place(cx, body, p))]))]),
        Rvalue::WrapUnsafeBinder(op, _) => J::Obj(vec![("k", J::s("use")), ("x", operand(cx, body, tenv, op))]),
        #[allow(unreachable_patterns)]
        _ => J::Obj(vec![("k", J::s("other")), ("s", J::s(format!("{:?}", rv)))]),
    }
}
