"""C26 — the chain-sync rollback buffer behaves like a chain-suffix (list) model.

Decides four one-step clauses of the model on the code of the three mutators (histories are NOT explored):
 (a) R-TABLE roll_back   over the outcome of the lookup of the rollback point: not found => the deque is emptied and
     `OutOfScope` is returned; found at index i => exactly the first i+1 points are kept and `Handled` is returned.  The kept
     length is *evaluated* (finite sample of i) — `x + 1`, `1 + x`, a `let`, a helper all denote the same function of i;
 (b) R-PROV  roll_forward appends the given point at the back (one `push_back` of the parameter on every path);
 (c) R-TABLE pop_with_depth removes exactly max(len - depth, 0) points, from the front, and returns the removed points in
     order.  Evaluated over len, depth in 0..7 for the bulk form (`drain(..n)`) and for the loop form (`while len > depth
     { pop_front }`: an iteration is taken iff len > depth and removes one point from the front);
 (d) R-WRITERS the `points` field is private and is written only by methods of RollbackBuffer.
 (e) R-TABLE position   the index `position` returns is an index into the deque itself: the function (closures and Option
     combinators included) is evaluated for every (head length H of the ring buffer's two slices, place k of the sought
     point) over a deque of 6 points: found at k => Some(k), absent => None.  Searches over the deque's own iterator
     (`iter().position`, `for (i, p) in iter().enumerate()`), index loops (`for i in 0..len` with `points[i]`/`get(i)`) and
     searches over `as_slices()` (where an index found in the second slice must have the first slice's length added) are
     modelled; any other adaptor (`rev`, `skip`, ...) or a predicate that is not equality with the given point is
     reported as unrecognised (fail closed).
"""
import re
from pv import flow
from pv.program import Program
from pv.report import Result, finish
from pv.tabulate import tabulate, BudgetExceeded
from pv.mir import sym_str
from pv.panic import field_writers
from pv.x_misc import Ev, Unknown, NONE, some, feasible, sg, strip, flat_calls, call_is_mut_receiver, field_vis, where, contains_call

RB = "pallas_network::miniprotocols::chainsync::buffer::RollbackBuffer"
EFFECT = "pallas_network::miniprotocols::chainsync::buffer::RollbackEffect"
VD = "alloc::collections::vec_deque::VecDeque::"
# VecDeque methods that take `&mut self`; anything in this list that a clause does not model is reported
MUTATORS = {"push_back", "push_front", "pop_back", "pop_front", "truncate", "clear", "drain", "split_off", "insert", "remove",
            "retain", "retain_mut", "append", "extend", "resize", "resize_with", "swap", "swap_remove_back", "swap_remove_front",
            "rotate_left", "rotate_right", "iter_mut", "make_contiguous", "as_mut_slices", "get_mut", "front_mut", "back_mut",
            "range_mut", "truncate_front", "extract_if", "reserve", "shrink_to_fit"}
HARMLESS_MUT = {"reserve", "shrink_to_fit", "make_contiguous"}


def is_points(sym):
    ch = flow.origin_chain(sym)
    return ch is not None and ch[0] == ("param", 1) and ch[1][:1] == ["points"]


def helper_filter(P):
    def want(g):
        if not g.path.startswith("pallas_network::miniprotocols::chainsync::buffer::"):
            return False
        return any(g.local_ty(i).startswith("&mut ") for i in range(1, g.argc + 1))
    return want


def points_mutations(f, path, P, res, key):
    """[(method, args, fn, bb)] of the calls on this path that may change self.points; unknown &mut uses are reported."""
    out = []
    for callee, args, g, bb in flat_calls(f, path, P, helper_filter(P)):
        name = sg(callee)
        if callee == "<branching-helper>":
            if any(is_points(a) or (flow.origin_chain(a) or (None, None))[0] == ("param", 1) for a in args):
                out.append(("<branching-helper>", args, g, bb))
            continue
        hits = [i for i, a in enumerate(args) if is_points(a) or (flow.origin_chain(a) == (("param", 1), []))]
        if not hits:
            continue
        if name.startswith(VD):
            m = name[len(VD):]
            if m in MUTATORS and m not in HARMLESS_MUT and 0 in hits:
                out.append((m, args, g, bb))
            continue
        # self / self.points lent mutably to something that is not a VecDeque method
        if any(call_is_mut_receiver(g, bb, i) for i in hits if g is f):
            out.append(("<opaque:%s>" % name, args, g, bb))
    return out


def check_roll_back(res, P):
    f = P.one(r"^%s::roll_back$" % re.escape(RB))
    paths = [p for p in tabulate(f, P, 512)]
    rets = [p for p in paths if p.end == "return"]
    if any(p.end == "loop" for p in paths):
        res.violation("roll_back:loop", "roll_back contains a loop: the one-step table cannot be read off", where=where(f), rule="R-TABLE")
        return

    def is_lookup(s):
        if s[0] != "call":
            return False
        n = sg(s[1])
        if s[1] == RB + "::position":
            ch = flow.origin_chain(s[2][1]) if len(s[2]) > 1 else None
            return ch is not None and ch[0] == ("param", 2)
        return n.endswith("Iterator::position") and any(is_points(x) for x in [s[2][0]] + [y for y in contains_call(s[2][0], r".")]) if s[2] else False

    lookups = set()
    for p in rets:
        for c in p.conds:
            from pv.mir import sym_walk
            for s in sym_walk(c[0]):
                if is_lookup(s):
                    lookups.add(s)
    if not lookups:
        res.violation("roll_back:no-lookup", "roll_back does not branch on the position of the given point in the buffer "
                      "(no test of RollbackBuffer::position(self, point))", where=where(f), rule="R-TABLE")
        return
    seen_bad = set()
    scenarios = [("not-found", NONE, 0, "OutOfScope")] + [("found@%d" % i, some(i), i + 1, "Handled") for i in (0, 1, 2, 5, 40)]
    for label, val, keep_want, ret_want in scenarios:
        def leaf(s, val=val):
            if is_lookup(s):
                return val
            raise Unknown(s)
        ev = Ev(leaf, prog=P)
        live = []
        for p in rets:
            fz = feasible(p, ev)
            if fz is None:
                res.violation("roll_back:condition", "roll_back branches on something other than the lookup result: %s" % "; ".join(sym_str(c[0], 80) for c in p.conds),
                              where=where(f), rule="R-TABLE")
                return
            if fz:
                live.append(p)
        key = "roll_back:%s" % ("not-found" if val == NONE else "found")
        if not live:
            res.violation(key + ":no-path", "roll_back has no returning path for the case %s" % label, where=where(f), rule="R-TABLE")
            continue
        for p in live:
            muts = points_mutations(f, p, P, res, key)
            keep = None
            bad = None
            if len(muts) != 1:
                bad = "%d mutations of the deque (%s), expected exactly one" % (len(muts), ", ".join(m[0] for m in muts) or "none")
            else:
                m, args, g, bb = muts[0]
                try:
                    if m == "clear":
                        keep = 0
                    elif m == "truncate":
                        keep = ev(args[1])
                    elif m == "split_off":
                        keep = ev(args[1])
                    elif m == "drain":
                        r = ev(args[1])
                        if isinstance(r, tuple) and r[0] == "range" and r[2] is None:
                            keep = r[1]
                        else:
                            bad = "drain over a range that is not `n..`"
                    else:
                        bad = "unmodelled mutation %s" % m
                except Unknown as e:
                    bad = "kept length is not a function of the found index: %s" % sym_str(args[1] if len(args) > 1 else ("unknown",), 100)
            if bad is None and keep != keep_want:
                bad = "keeps %s points, the model keeps %s" % (keep, "none" if val == NONE else "index+1 = %d" % keep_want)
            rv = p.ret[2] if p.ret and p.ret[0] == "agg" and str(p.ret[1]) == EFFECT else None
            if bad is None and rv != ret_want:
                bad = "returns %s, the model reports %s" % (rv or sym_str(p.ret or ("unknown",), 60), ret_want)
            if bad:
                k = key + "=>" + re.sub(r"\d+", "N", re.sub(r"[^A-Za-z0-9_+<>:=. -]", "", bad))[:70]
                if k not in seen_bad:
                    seen_bad.add(k)
                    res.violation(k, "roll_back, rollback point %s: %s" % (label.replace("@", " at index "), bad),
                                  where=where(f, muts[0][3]) if len(muts) == 1 and muts[0][2] is f else where(f), rule="R-TABLE")
            else:
                res.ok(key + ":" + label, "R-TABLE", "keeps %d, returns %s" % (keep, ret_want))
                res.sample({"roll_back": label, "kept": keep, "returns": ret_want})
    res.count("roll_back return paths", len(rets))


def check_roll_forward(res, P):
    f = P.one(r"^%s::roll_forward$" % re.escape(RB))
    paths = tabulate(f, P, 256)
    rets = [p for p in paths if p.end == "return"]
    if any(p.end == "loop" for p in paths) or not rets:
        res.violation("roll_forward:shape", "roll_forward has a loop or no returning path", where=where(f), rule="R-PROV")
        return
    for i, p in enumerate(rets):
        muts = points_mutations(f, p, P, res, "roll_forward")
        key = "roll_forward:append"
        if len(muts) == 1 and muts[0][0] == "push_back":
            ch = flow.origin_chain(muts[0][1][1])
            if ch is not None and ch[0] == ("param", 2) and not ch[1]:
                res.ok(key, "R-PROV", "push_back(point) on the deque")
                continue
            res.violation(key + "=>other-value", "roll_forward appends %s, not the point it was given" % sym_str(muts[0][1][1], 80), where=where(f), rule="R-PROV")
        else:
            res.violation(key + "=>" + "+".join(m[0] for m in muts)[:60], "roll_forward must append the given point at the back of the deque exactly once; found: %s" %
                          (", ".join(m[0] for m in muts) or "no mutation"), where=where(f), rule="R-PROV")


def check_pop(res, P):
    f = P.one(r"^%s::pop_with_depth$" % re.escape(RB))
    try:
        paths = tabulate(f, P, 512)
    except BudgetExceeded as e:
        res.violation("pop_with_depth:budget", str(e), rule="R-TABLE")
        return
    paths = [p for p in paths if p.end in ("return", "loop")]

    def is_len(s):
        return s[0] == "call" and sg(s[1]) in (VD + "len", RB + "::size") and s[2] and (is_points(s[2][0]) or flow.origin_chain(s[2][0]) == (("param", 1), []))

    def is_empty(s):
        return s[0] == "call" and sg(s[1]) == VD + "is_empty" and s[2] and is_points(s[2][0])
    bad_seen = set()
    n_cells = 0
    for ln in range(0, 7):
        for depth in range(0, 8):
            def leaf(s, ln=ln, depth=depth):
                if is_len(s):
                    return ln
                if is_empty(s):
                    return int(ln == 0)
                if s[0] == "call" and sg(s[1]) == VD + "pop_front" and s[2] and is_points(s[2][0]):
                    return some(0) if ln > 0 else NONE
                if s[0] == "param" and s[1] == 2:
                    return depth
                raise Unknown(s)
            ev = Ev(leaf, prog=P)
            want = max(ln - depth, 0)
            live = []
            for p in paths:
                fz = feasible(p, ev)
                if fz is None:
                    k = "pop_with_depth:condition"
                    if k not in bad_seen:
                        bad_seen.add(k)
                        res.violation(k, "pop_with_depth branches on something other than the deque length and the depth: %s" %
                                      "; ".join(sym_str(c[0], 80) for c in p.conds), where=where(f), rule="R-TABLE")
                    continue
                if fz:
                    live.append(p)
            if not live and "pop_with_depth:condition" not in bad_seen:
                res.violation("pop_with_depth:no-path", "no path of pop_with_depth is feasible for len=%d depth=%d" % (ln, depth), where=where(f), rule="R-TABLE")
                continue
            for p in live:
                n_cells += 1
                removed, bad = 0, None
                src = []
                for m, args, g, bb in points_mutations(f, p, P, res, "pop"):
                    try:
                        if m == "drain":
                            r = ev(args[1])
                            if not (isinstance(r, tuple) and r[0] == "range"):
                                bad = "drain over an unmodelled range"
                            elif r[1] != 0:
                                bad = "drains from index %s, not from the front" % r[1]
                            else:
                                end = ln if r[2] is None else r[2]
                                if end > ln:
                                    bad = "drains %d points out of %d (panics)" % (end, ln)
                                removed += end
                                src.append(("drain", bb))
                        elif m == "pop_front":
                            removed += 1 if ln - removed > 0 else 0
                            src.append(("pop_front", bb))
                        else:
                            bad = "%s on the deque: points leave from the wrong end or are not returned" % m
                    except Unknown:
                        bad = "%s with an argument that is not a function of len and depth: %s" % (m, sym_str(args[1], 100) if len(args) > 1 else "")
                    if bad:
                        break
                if bad is None:
                    if p.end == "loop":
                        if not (ln > depth and removed == 1):
                            bad = "a loop iteration is taken with len=%d depth=%d and removes %d point(s); the model pops one point while len > depth" % (ln, depth, removed)
                    elif removed != want:
                        bad = "removes %d point(s) when len=%d depth=%d; the model removes %d" % (removed, ln, depth, want)
                if bad:
                    k = "pop_with_depth=>" + re.sub(r"\d+", "N", re.sub(r"[^A-Za-z0-9_ ]", "", bad))[:60]
                    if k not in bad_seen:
                        bad_seen.add(k)
                        res.violation(k, "pop_with_depth: " + bad, where=where(f), rule="R-TABLE")
    res.count("pop_with_depth (len,depth,path) cells", n_cells)
    if not bad_seen:
        res.ok("pop_with_depth:count", "R-TABLE", "removes max(len-depth,0) points from the front for len in 0..6, depth in 0..7")
    # the removed points are what is returned, in order
    ok_flow, why = True, ""
    for p in paths:
        muts = [m for m in points_mutations(f, p, P, res, "pop") if m[0] in ("drain", "pop_front")]
        for m, args, g, bb in muts:
            if m == "drain" and p.end == "return":
                chain = p.ret
                okc = False
                while chain and chain[0] == "call":
                    n = sg(chain[1])
                    if n == VD + "drain" and chain[3] == bb:
                        okc = True
                        break
                    if re.search(r"Iterator::collect$|FromIterator::from_iter$|IntoIterator::into_iter$|Iterator::by_ref$", n) and chain[2]:
                        chain = strip(chain[2][0], None)
                        continue
                    break
                if not okc and g is f:
                    ok_flow, why = False, "the drained points do not flow unmodified and in order into the returned vector (%s)" % sym_str(p.ret, 120)
            if m == "pop_front":
                if any(c[0][0] == "discr" and contains_call(c[0], r"VecDeque::pop_front$") and (c[1] == ("eq", 0) or (c[1][0] == "ne" and 1 in c[1][1])) for c in p.conds):
                    continue    # the branch on which the deque was empty: nothing was popped
                pushes = [(c, a, b) for c, a, b in p.calls if sg(c) == "alloc::vec::Vec::push"]
                good = [1 for c, a, b in pushes if contains_call(a[1], r"VecDeque::pop_front$")]
                if not good:
                    ok_flow, why = False, "the popped point is not pushed onto the returned vector"
    if ok_flow:
        res.ok("pop_with_depth:returns-removed", "R-PROV", "the removed points are returned in deque order")
    else:
        res.violation("pop_with_depth:returns-removed", "pop_with_depth: " + why, where=where(f), rule="R-PROV")


class PosModel:
    """Evaluation of RollbackBuffer::position for one scenario: deque of LEN points whose backing slices have lengths
    (H, LEN-H); the sought point sits at deque index k (None: absent)."""
    LEN = 6

    def __init__(self, P, H, k):
        self.P, self.H, self.k = P, H, k
        self.ev = Ev(self.leaf, prog=None)

    # -- sequences
    def source(self, sym):
        s = sym
        while True:
            if s[0] in ("ref", "deref"):
                s = s[1]
            elif s[0] == "cast":
                s = s[1]
            elif s[0] == "call" and re.search(r"IntoIterator::into_iter$|Iterator::by_ref$", sg(s[1])) and len(s[2]) == 1:
                s = s[2][0]
            else:
                break
        if s[0] == "call":
            n = sg(s[1])
            if n in (VD + "iter",) and is_points(s[2][0]):
                return "whole"
            if n == "core::slice::iter" and len(s[2]) == 1:
                return self.source(s[2][0])
            if n.endswith("Iterator::enumerate") and len(s[2]) == 1:
                return ("enum", self.source(s[2][0]))
            raise Unknown(s)
        if s[0] == "field" and strip(s[1], None)[0] == "call" and sg(strip(s[1], None)[1]) in (VD + "as_slices", VD + "as_mut_slices") \
                and is_points(strip(s[1], None)[2][0]) and str(s[2]) in ("0", "1"):
            return "head" if str(s[2]) == "0" else "tail"
        if s[0] == "agg" and str(s[1]) == "core::ops::range::Range":
            return ("range", self.ev(s[3][0]), self.ev(s[3][1]))
        if is_points(s) and s[0] == "field":
            return "whole"
        raise Unknown(s)

    def local_index(self, src):
        """Index of the sought point inside the sequence `src`, or None when it is not in it."""
        k, H = self.k, self.H
        if k is None:
            return None
        if src == "whole":
            return k
        if src == "head":
            return k if k < H else None
        if src == "tail":
            return k - H if k >= H else None
        raise Unknown(("source", src))

    def seq_len(self, src):
        return {"whole": self.LEN, "head": self.H, "tail": self.LEN - self.H}[src]

    # -- closures
    @staticmethod
    def subst_closure(sym, caps, argvals):
        if not isinstance(sym, tuple) or not sym:
            return sym
        if not isinstance(sym[0], str):
            return tuple(PosModel.subst_closure(x, caps, argvals) for x in sym)
        if sym[0] == "field" and isinstance(sym[1], tuple) and strip(sym[1], None)[:2] == ("param", 1) and str(sym[2]).isdigit() and int(sym[2]) < len(caps):
            return caps[int(sym[2])]
        if sym[0] == "param" and sym[1] >= 2:
            return ("val", argvals[sym[1] - 2]) if sym[1] - 2 < len(argvals) else sym
        return tuple(PosModel.subst_closure(x, caps, argvals) if isinstance(x, tuple) else x for x in sym)

    def closure_value(self, clo, argvals):
        c = strip(clo, None)
        if not (c[0] == "agg" and c[1] == "closure"):
            raise Unknown(clo)
        g = self.P.fns.get(c[2])
        if g is None:
            raise Unknown(clo)
        return self.function_value(g, lambda t: self.subst_closure(t, list(c[3]), argvals))

    def function_value(self, g, tr=lambda t: t):
        vals = []
        for p in tabulate(g, self.P, 512):
            if p.end != "return":
                continue
            q = type("Q", (), {"conds": [(tr(c[0]), c[1]) for c in p.conds]})()
            fz = feasible(q, self.ev)
            if fz is None:
                raise Unknown(("condition", tuple(c[0] for c in p.conds)))
            if fz:
                vals.append(self.ev(tr(p.ret)))
        if not vals:
            raise Unknown(("no feasible return path", g.path))
        if any(v != vals[0] for v in vals):
            raise Unknown(("paths disagree", g.path))
        return vals[0]

    def is_point(self, sym):
        s = strip(sym, None)
        return s[0] == "param" and s[1] == 2

    def check_predicate(self, clo):
        """The search predicate must be `element == the given point`, unnegated."""
        c = strip(clo, None)
        g = self.P.fns.get(c[2]) if c[0] == "agg" and c[1] == "closure" else None
        if g is None:
            raise Unknown(clo)
        elem = ("elem", True)
        v = self.function_value(g, lambda t: self.subst_closure(t, list(c[3]), [elem]))
        if v != 1:
            raise Unknown(("predicate is not equality with the given point", g.path))

    # -- leaves
    def leaf(self, s):
        if s[0] == "val":
            return s[1]
        if s[0] != "call":
            raise Unknown(s)
        n, a = sg(s[1]), s[2]
        if n.endswith("Iterator::position") and len(a) == 2:
            src = self.source(a[0])
            self.check_predicate(a[1])
            i = self.local_index(src)
            return some(i) if i is not None else NONE
        if re.search(r"Iterator::next$|core::iter::range::next$", n) and len(a) == 1:
            src = self.source(a[0])
            if isinstance(src, tuple) and src[0] == "enum":
                i = self.local_index(src[1])
                return some(("tuple", (i, ("elem", True)))) if i is not None else NONE
            if isinstance(src, tuple) and src[0] == "range":
                return some(self.k) if self.k is not None and src[1] <= self.k < src[2] else NONE
            i = self.local_index(src)
            return some(("elem", True)) if i is not None else NONE
        if n == VD + "len" and is_points(a[0]):
            return self.LEN
        if n == "core::slice::len" and len(a) == 1:
            return self.seq_len(self.source(a[0]))
        if (re.search(r"core::ops::index::Index::index$", n) or n in (VD + "get", "core::slice::get")) and len(a) == 2:
            src = self.source(a[0])
            i = self.ev(a[1])
            hit = ("elem", self.local_index(src) is not None and i == self.local_index(src))
            return hit if n.endswith("index") else some(hit)
        if re.search(r"::(eq|ne)$", n) and ("PartialEq" in s[1] or "core::cmp" in n) and len(a) == 2:
            x, y = a
            if self.is_point(y):
                e = self.ev(x)
            elif self.is_point(x):
                e = self.ev(y)
            else:
                raise Unknown(s)
            if not (isinstance(e, tuple) and e[0] == "elem"):
                raise Unknown(s)
            return int(e[1] == n.endswith("::eq"))
        if n == "core::option::Option::or_else" and len(a) == 2:
            v = self.ev(a[0])
            return v if v != NONE else self.closure_value(a[1], [])
        if n == "core::option::Option::or" and len(a) == 2:
            v = self.ev(a[0])
            return v if v != NONE else self.ev(a[1])
        if n == "core::option::Option::map" and len(a) == 2:
            v = self.ev(a[0])
            return v if v == NONE else some(self.closure_value(a[1], [v[1]]))
        if n == "core::option::Option::and_then" and len(a) == 2:
            v = self.ev(a[0])
            return v if v == NONE else self.closure_value(a[1], [v[1]])
        raise Unknown(s)


def check_position(res, P):
    f = P.one(r"^%s::position$" % re.escape(RB))
    bad = None
    n = 0
    for H in (0, 2, 5, PosModel.LEN):
        for k in [None] + list(range(PosModel.LEN)):
            m = PosModel(P, H, k)
            try:
                v = m.function_value(f)
            except Unknown as e:
                a = e.args[0] if e.args else "?"
                what = a[0] if isinstance(a, tuple) and a and isinstance(a[0], str) and a[0] not in ("call", "agg", "field", "local", "param") else sym_str(a, 90) if isinstance(a, tuple) else str(a)
                res.violation("position:unrecognised", "RollbackBuffer::position cannot be evaluated as a search of the deque for the given point (%s): it is not known "
                              "to return an index into the deque itself" % what, where=where(f), rule="R-TABLE")
                return
            except BudgetExceeded as e:
                res.violation("position:budget", str(e), where=where(f), rule="R-TABLE")
                return
            n += 1
            want = NONE if k is None else some(k)
            if v != want and bad is None:
                where_k = "absent" if k is None else ("at deque index %d (%s slice, offset %d)" % (k, "first" if k < H else "second", k if k < H else k - H))
                bad = "with the ring buffer split %d+%d and the point %s it returns %s; the model's index is %s" % (
                    H, PosModel.LEN - H, where_k, "None" if v == NONE else "Some(%s)" % (v[1],), "None" if k is None else "Some(%d)" % k)
    res.count("position scenarios (split x place)", n)
    if bad:
        key = "position=>slice-relative-index" if "second slice" in bad else "position=>wrong-index"
        res.violation(key, "RollbackBuffer::position: " + bad, where=where(f), rule="R-TABLE")
    else:
        res.ok("position:deque-index", "R-TABLE", "Some(k) for the point at deque index k, None when absent, for every split of the ring buffer (%d scenarios)" % n)


def check_writers(res, P):
    vis = field_vis(P, RB, "points")
    if vis is None:
        res.violation("writers:field", "RollbackBuffer has no field `points` any more", rule="anchor")
        return
    if vis == "Public" or not str(vis).startswith("Restricted"):
        res.violation("writers:points-visibility", "RollbackBuffer.points is %s: code outside the buffer module can change the deque behind the model's back" % vis, rule="R-WRITERS")
    else:
        res.ok("writers:points-private", "R-WRITERS", "field visibility %s" % vis)
    ws = field_writers(P, RB, "points")
    res.count("writers of points", len(ws))
    for w in ws:
        g = P.fns[w]
        owner = g.b.get("impl_adt") or ""
        root = g.b.get("root") or ""
        if owner == RB or root.startswith(RB + "::") or w.startswith(RB + "::") or w.startswith("<" + RB + " as "):
            res.ok("writers:%s" % w.split("buffer::")[-1], "R-WRITERS", "method of RollbackBuffer")
        else:
            res.violation("writers:%s" % w, "%s writes RollbackBuffer.points but is not a method of RollbackBuffer" % w, where=where(g), rule="R-WRITERS")
    res.floor("writers of points", len(ws), 2)


def run(tier):
    res = Result("C26", tier, level="other")
    P = Program(crates=["pallas_network"])
    check_roll_back(res, P)
    check_roll_forward(res, P)
    check_pop(res, P)
    check_position(res, P)
    check_writers(res, P)
    res.assumptions += ["std VecDeque semantics of push_back / truncate / clear / drain / pop_front",
                        "which of several equal points `position` finds is not decided (the scenarios hold one copy of the sought point)"]
    return finish(res,
                  explanation="Decides the one-step clauses of C26 on the code of the three mutators: roll_back's table over the lookup outcome "
                              "(found at i => keep i+1 and Handled; not found => empty and OutOfScope; the kept length is evaluated, not matched), "
                              "roll_forward appends the given point at the back, pop_with_depth removes max(len-depth,0) points from the front and "
                              "returns them in order (evaluated over len 0..6 x depth 0..7), `position` returns an index into the deque itself (evaluated over "
                              "every split of the ring buffer into its two slices and every place of the point), and only RollbackBuffer methods write the private deque. "
                              "NOT decided: agreement with the list model over histories (sequences of operations), which equal point `position` "
                              "finds when the buffer holds duplicates, and anything about the read-only accessors.",
                  rule_text="R-TABLE(roll_back over position's Option) + R-PROV(roll_forward) + R-TABLE(pop_with_depth over len x depth) + R-TABLE(position over split x place) + R-WRITERS(points)",
                  trusted_base=["rustc MIR", "std VecDeque semantics"])
