"""C24 — P2P stack protocol state machines implement the specification (decided whole, modulo the spec tables).

`State::apply` of each protocol module is tabulated (E2) over (state class x message variant [x bool guards]) and
compared cell by cell with spec/ouroboros.json; plus the carry clause: when the next state has a payload and the
message has one, some message field (or previous-state field) flows into it."""
import json
import os
import re
from pv.program import Program, AnchorLost
from pv.report import Result, finish
from pv.tabulate import tabulate, cond_variants, strip_adt
from pv.mir import sym_str, sym_walk
from pv.facts import VERIF

PROTOCOLS = ["handshake", "chainsync", "blockfetch", "txsubmission", "keepalive", "peersharing", "leiosnotify", "leiosfetch"]


def result_variant(P, ret, depth=4):
    """Ok(next-state variant, payload syms) | Err | None for an apply() return value."""
    if ret is None or ret[0] != "agg":
        return None
    if ret[2] == "Err":
        return ("Err", None, ())
    if ret[2] != "Ok":
        return None
    inner = ret[3][0]
    return ("Ok",) + state_variant(P, inner, depth)


def state_variant(P, sym, depth=4):
    if sym[0] == "agg" and isinstance(sym[2], str):
        return (sym[2], sym[3])
    if sym[0] == "call" and depth > 0:
        name = sym[1]
        g = P.get(name)
        if g is None and name.endswith("::into") and sym[2]:
            # Into::into -> the From impl of the target: find a From::from in the workspace taking this argument's ADT
            arg = sym[2][0]
            src = arg[1] if arg[0] == "agg" else None
            for f in P.impl_index.get(("core::convert::From", "from"), []):
                sig = f.b.get("sig", "")
                if src and ("(" + strip_adt(src)) in strip_adt_sig(sig):
                    g = f
                    break
        if g is not None:
            outs = set()
            payload = ()
            for p in tabulate(g, P, 64):
                if p.end == "return":
                    v = state_variant(P, p.ret, depth - 1)
                    outs.add(v[0])
                    payload = sym[2]
            if len(outs) == 1:
                return (outs.pop(), payload)
    return (None, ())


def strip_adt_sig(sig):
    out = []
    d = 0
    for ch in sig:
        if ch == "<":
            d += 1
        elif ch == ">":
            d -= 1
        elif d == 0:
            out.append(ch)
    return "".join(out)


def extract_table(P, f):
    """{(state, msg, guard): outcome} from apply()."""
    adt_state = f.b.get("impl_adt")
    table = {}
    for p in tabulate(f, P):
        if p.end != "return":
            continue
        st = msg = None
        guards = []
        for c in p.conds:
            cv = cond_variants(P, c)
            if cv is None:
                continue
            subj, names = cv
            if subj == "*self":
                st = names
            elif subj == "*msg":
                msg = names
            else:
                guards.append((subj, names))
        rv = result_variant(P, p.ret)
        table_key_states = st if st is not None else {"*"}
        table_key_msgs = msg if msg is not None else {"*"}
        for s in table_key_states:
            for m in table_key_msgs:
                g = tuple(sorted((subj, tuple(sorted(n))) for subj, n in guards))
                table.setdefault((s, m), []).append((g, rv, p.ret))
    return table


def check_state_owners(res, P):
    """The state machines *of the stack* are State::apply plus the two places that hold and advance the per-peer states.  Two
    structural clauses keep the one-step relation checked above the whole relation:
      (o1) every other `&mut self` method of a protocol State (today: drain) leaves the state class alone — it never assigns `*self`
           as a whole (assignment, mem::take/replace/swap) and never sets its discriminant; it may only change the payload of the
           current variant;
      (o2) InitiatorState::apply_msg / ResponderState::apply_msg hand every message of protocol P to P's State::apply, conditioned on
           nothing but the message's protocol (no guard on the current state or anything else in front of the call), store the Ok
           state back and flag the Err as a violation."""
    from pv import flow, guards
    from pv.mir import pl_local, pl_proj, op_place
    n_mut = 0
    for f in P.by_crate.get("pallas_network2", []):
        if "::protocol::" not in f.path or f.argc < 1 or f.kind in ("Closure",):
            continue
        ty = f.local_ty(1)
        if not (ty.startswith("&mut pallas_network2::protocol::") and "::State" in ty):
            continue
        if f.name == "apply":
            continue
        n_mut += 1
        bad = None
        # per tabulated path: the state class the path starts in (from the conditions on discr(*self)) and every whole write
        try:
            paths = tabulate(f, P, 512)
        except Exception as e:   # budget / unsupported construct: fail closed
            paths = None
            bad = "cannot be tabulated (%s)" % e
        for pth in paths or []:
            start = None
            for c in pth.conds:
                cv = cond_variants(P, c)
                if cv and cv[0] == "*self":
                    start = cv[1] if start is None else (start & cv[1])
            for place, val in pth.writes:
                if sym_str(place, 40) != "*self":
                    continue
                if val[0] == "agg" and isinstance(val[2], str):
                    if start is None or start != {val[2]}:
                        bad = "sets the state to %s on a path that starts in %s" % (val[2], sorted(start) if start else "any state")
                else:
                    bad = "overwrites *self with a value whose state class is not evident (%s)" % sym_str(val, 60)
            for c in pth.calls:
                name = strip_adt(c[0]) if False else c[0]
                if re.search(r"^(core|std)::mem::(take|replace|swap)", name):
                    if any(sym_str(a, 40) in ("self", "*self", "&*self") for a in c[1][:1]):
                        bad = "replaces *self through %s" % name.split("::")[2].split("<")[0]
        key = "owner:state-class-preserved:%s" % f.path.split("protocol::")[-1]
        if bad:
            res.violation(key, "%s %s: a method other than apply() changes the protocol state class, so the relation checked on apply() is no longer the whole relation "
                          "(a pending request can be forgotten, a terminal state revived)" % (f.path, bad), where="%s:%s" % (f.file, f.line), rule="R-WRITERS")
        else:
            res.ok(key, "R-WRITERS", "only the payload of the current variant can change")
    res.count("State mutators other than apply", n_mut)
    n_app = 0
    for f in P.find(r"pallas_network2::behavior::(initiator::InitiatorState|responder::ResponderState)::apply_msg$"):
        who = "initiator" if "initiator" in f.path else "responder"
        for bi, t in f.calls():
            name = flow.callee_name(t)
            if not (name.endswith("::apply") and "pallas_network2::protocol::" in name and "State" in name):
                continue
            n_app += 1
            proto = name.split("protocol::")[-1].split("::")[0]
            key = "owner:apply_msg:%s:%s" % (who, proto)
            other = []
            for fact in guards.facts_at(f, bi, kill=False):
                l = fact.l
                ok = l[0] == "discr" and (flow.origin_chain(l[1]) or (None,))[0] == ("param", 2)
                if not ok:
                    other.append(sym_str(l, 80))
            if other:
                res.violation(key, "%s::apply_msg calls %s::State::apply only under the extra condition(s) %s: some messages of the protocol bypass the state machine "
                              "(no violation is flagged for them)" % (who, proto, sorted(set(other))), where="%s:%s" % (f.file, f.line), rule="R-MPT")
            else:
                res.ok(key, "R-MPT", "every %s message goes through State::apply" % proto)
    res.floor("apply_msg dispatch sites", n_app, 10)


def run(tier):
    res = Result("C24", tier, level="other")
    spec = json.load(open(os.path.join(VERIF, "spec", "ouroboros.json")))
    P = Program(crates=["pallas_network2"])
    n_cells = 0
    found = 0
    for proto in PROTOCOLS:
        fs = P.find(r"^pallas_network2::protocol::%s::State(::<.*>)?::apply$" % proto)
        if len(fs) != 1:
            res.violation("anchor:%s" % proto, "State::apply of protocol module %s not found (found %d)" % (proto, len(fs)), rule="anchor")
            continue
        found += 1
        f = fs[0]
        sp = spec["protocols"][proto]
        names = spec["p2p_names"].get(proto, {})
        mmap = names.get("messages", {})
        smap = names.get("states", {})
        state_adt = P.adt(f.b.get("impl_adt"))
        msg_ty = [l["ty"] for l in f.locals[2:3]]
        msg_adt = P.adt(strip_adt(re.sub(r"^&('\w+ )?", "", msg_ty[0]))) if msg_ty else None
        if state_adt is None or msg_adt is None:
            res.violation("anchor:%s:types" % proto, "cannot resolve State/Message enums of %s" % proto, rule="anchor")
            continue
        states = [v["name"] for v in state_adt["variants"]]
        msgs = [v["name"] for v in msg_adt["variants"]]
        # spec relation keyed by rust names
        inv_m = {}
        for r_name in msgs:
            inv_m[mmap.get(r_name, r_name)] = r_name
        inv_s = {}
        for r_name in states:
            inv_s[smap.get(r_name, r_name)] = r_name
        for s_name in sp["states"]:
            if s_name not in inv_s:
                res.violation("spec:%s:state:%s" % (proto, s_name), "specification state %s of %s has no counterpart in the State enum %s" % (s_name, proto, states), rule="R-TABLE")
        spec_rel = {}
        for (s, m, g, nxt) in sp["transitions"]:
            if m not in inv_m:
                res.violation("spec:%s:message:%s" % (proto, m), "specification message %s of %s has no counterpart in the Message enum %s" % (m, proto, msgs), rule="R-TABLE")
                continue
            spec_rel.setdefault((inv_s.get(s, s), inv_m[m]), []).append((g, inv_s.get(nxt, nxt)))
        try:
            table = extract_table(P, f)
        except Exception as e:  # budget exceeded etc.: fail closed
            res.violation("tabulate:%s" % proto, "cannot tabulate %s: %s" % (f.path, e), rule="R-TABLE")
            continue
        for s in states:
            for m in msgs:
                rows = table.get((s, m)) or table.get((s, "*")) or table.get(("*", m)) or table.get(("*", "*"))
                want = spec_rel.get((s, m))
                if not rows:
                    res.violation("cell:%s:%s:%s" % (proto, s, m), "apply() has no return path for (%s, %s)" % (s, m), rule="R-TABLE")
                    continue
                guards_spec = want if want else [(None, None)]
                for (g, nxt) in guards_spec:
                    n_cells += 1
                    key = "cell:%s:%s:%s%s" % (proto, s, m, ("[%s]" % g) if g else "")
                    # pick the extracted row for this guard value
                    cand = rows
                    if g is not None and len(rows) > 1:
                        want_bool = "true" if g in ("blocking",) else "false"
                        sel = [r for r in rows if any(want_bool in names for _, names in r[0])]
                        cand = sel or rows
                    outcomes = {(r[1][0], r[1][1]) if r[1] else ("?", None) for r in cand}
                    if nxt is None:
                        if outcomes == {("Err", None)}:
                            res.ok(key, "R-TABLE", "rejected, as the specification has no such transition")
                        else:
                            key = key + "=>" + "|".join(sorted("%s(%s)" % (a, b) if b else str(a) for a, b in outcomes))
                            res.violation(key, "%s: apply(%s, %s) succeeds with %s but the specification has no such transition" % (
                                proto, s, m, sorted(str(o) for o in outcomes)), where="%s:%s" % (f.file, f.line), rule="R-TABLE")
                    else:
                        if outcomes == {("Ok", nxt)}:
                            res.ok(key, "R-TABLE", "Ok(%s) as specified" % nxt)
                        else:
                            key = key + "=>" + "|".join(sorted("%s(%s)" % (a, b) if b else str(a) for a, b in outcomes))
                            res.violation(key, "%s: apply(%s, %s%s) yields %s but the specification prescribes next state %s" % (
                                proto, s, m, (" " + g) if g else "", sorted(str(o) for o in outcomes), nxt), where="%s:%s" % (f.file, f.line), rule="R-TABLE")
                    if len(res.samples) < 30:
                        res.sample({"protocol": proto, "state": s, "message": m, "guard": g, "extracted": sorted(str(o) for o in outcomes), "spec": nxt or "reject"})
                # carry clause
                if want:
                    mv = next(v for v in msg_adt["variants"] if v["name"] == m)
                    for r in rows:
                        if not r[1] or r[1][0] != "Ok":
                            continue
                        tv = next((v for v in state_adt["variants"] if v["name"] == r[1][1]), None)
                        if tv is None or not tv["fields"] or not mv["fields"]:
                            continue
                        # obligation only when the next state can hold a message field (same field type)
                        if not ({x["ty"] for x in tv["fields"]} & {x["ty"] for x in mv["fields"]}) and r[1][1] != "Idle":
                            continue
                        payload = r[1][2]
                        flows = any(sub[0] == "downcast" and sub[2] == m for ps in payload for sub in sym_walk(ps))
                        prev = any(sub[0] == "downcast" and sub[2] == s for ps in payload for sub in sym_walk(ps))
                        key = "carry:%s:%s:%s" % (proto, s, m)
                        n_cells += 1
                        if flows:
                            res.ok(key, "R-PROV", "payload of %s originates from the fields of message %s" % (r[1][1], m))
                        elif prev:
                            res.ok(key, "R-PROV", "payload of %s originates from the previous state" % r[1][1])
                        else:
                            res.violation(key, "%s: the state after (%s, %s) carries %s, which does not originate from the received message" % (
                                proto, s, m, [sym_str(x, 80) for x in payload]), where="%s:%s" % (f.file, f.line), rule="R-PROV")
    res.exhaustive = True
    check_state_owners(res, P)
    res.floor("protocol state machines", found, 8)
    res.floor("cells compared", n_cells, 150)
    res.count("cells", n_cells)
    res.trusted += ["spec/ouroboros.json (hand transcription of the Ouroboros network specification; Leios from the cited module docs)"]
    res.assumptions += ["apply() is a function of (state class, message variant, boolean guards): verified by the tabulator, which fails closed on any other branching"]
    code = finish(res,
                  explanation="State::apply of the 8 protocol modules is partially evaluated over its finite (state x message) domain and every cell is "
                              "compared with the specification relation; apply() is pure, so the one-step relation is the whole relation.",
                  rule_text="R-TABLE(apply) == spec relation, exhaustive over (state class x message variant x bool guard); R-PROV carry clause",
                  trusted_base=["rustc MIR", "spec/ouroboros.json"], checker_cmd="./check C24 --tier %s" % tier)
    return code
