"""Guard idioms around minicbor's `Decoder` cursor (used by C09).

Trusted facts about minicbor (external, not analysed): a `Decoder` never advances beyond its input, so
`position() <= input().len()` at all times, and every decoding method only moves the cursor forward.  The only way to
move it backwards is `Decoder::set_position`; `set_position_discipline` verifies that every workspace call restores a
position that the *same function* read from the *same decoder* earlier (a local rewind), which keeps
"position at return >= position at entry" true for every workspace decode function by induction.

Idioms discharged here (all read from MIR: resolved callees, value provenance, dominance):

  * `&d.input()[p0..p1]` with `p0`, `p1` two `position()` reads of the same decoder `d`, the first dominating the second
    (KeepRaw / AnyCbor raw-byte capture);
  * `buf.drain(0..dec.position())` (or `..dec.position()`) where `dec` was built by `Decoder::new` over this very `buf`
    (message framing: drop the consumed prefix);
  * `x - c` (unsigned, constant c) where `x` is the by-value result of a call that is evaluated once per invocation
    (not inside a loop) and a dominating branch established `x != 0` / `x >= c` / `x > c-1`; the shared engine drops
    such facts when the decoder is mutated afterwards although the returned integer cannot change.
"""
import re

from . import guards
from .panic import strip_generics, _is_const, _cv, _operand_ty
from .mir import op_place, pl_local, pl_proj

_POSITION = re.compile(r"^minicbor::decode::decoder::Decoder::position$")
_INPUT = re.compile(r"^minicbor::decode::decoder::Decoder::input$")
_NEW = re.compile(r"^minicbor::decode::decoder::Decoder::new$")
_SET_POSITION = re.compile(r"^minicbor::decode::decoder::Decoder::set_position$")


def _is_call(sym, rx):
    return sym[0] == "call" and rx.search(strip_generics(sym[1])) is not None


def _strip(x):
    while x[0] in ("ref", "deref"):
        x = x[1]
    return x


def _same_decoder(a, b):
    a, b = _strip(a), _strip(b)
    if a == b:
        return True
    ca, cb = guards.place_chain(a), guards.place_chain(b)
    return ca is not None and ca == cb


def _dominates(fn, a, b):
    """Block a dominates block b (a == b counts: statements/terminators inside one block are ordered by construction)."""
    return a == b or a in fn.dominators().get(b, ())


def _range_bounds(sym):
    if sym[0] == "agg" and sym[1].endswith("::Range") and len(sym[3]) == 2:
        return sym[3][0], sym[3][1]
    if sym[0] == "agg" and sym[1].endswith("::RangeTo") and len(sym[3]) == 1:
        return ("const", 0, "usize"), sym[3][0]
    return None


def _decoder_source(fn, dec_sym):
    """If `dec_sym` is (a reference to) a local initialised exactly once by `Decoder::new(x)`, return (x's symbolic value, bb)."""
    d = _strip(dec_sym)
    if d[0] != "local":
        if _is_call(d, _NEW) and len(d[2]) == 1:
            return d[2][0], d[3]
        return None
    l = d[1]
    found = None
    for bi, t in fn.calls():
        if t.get("dest") == l or (isinstance(t.get("dest"), (list, tuple)) and pl_local(t["dest"]) == l and not pl_proj(t["dest"])):
            if found is not None:
                return None
            found = (bi, t)
    if found is None:
        return None
    # no other plain assignment to the local
    for bi, si, s in fn.statements():
        if s[0] == "a" and pl_local(s[1]) == l and not pl_proj(s[1]):
            return None
    bi, t = found
    if not _NEW.search(strip_generics(t.get("f") or "")) or len(t["args"]) != 1:
        return None
    return fn.sym_operand(t["args"][0]), bi


def _call_rooted_once(fn, sym):
    """Is `sym` a projection (field / downcast / cast) of the value returned by one call that runs at most once per
    invocation of `fn`?"""
    x = sym
    while x[0] in ("field", "downcast", "cast"):
        x = x[1]
    return x[0] == "call" and len(x) > 3 and isinstance(x[3], int) and not fn.in_loop(x[3])


def discharge(site):
    fn = site.fn
    t = site.term
    args = t.get("args") or []
    if site.kind == "call:slice-index" and len(args) == 2:
        base = _strip(fn.sym_operand(args[0]))
        rb = _range_bounds(fn.sym_operand(args[1]))
        if rb and _is_call(base, _INPUT) and len(base[2]) == 1:
            lo, hi = rb
            dec = base[2][0]
            if _is_call(hi, _POSITION) and _same_decoder(hi[2][0], dec):
                if _is_const(lo) and _cv(lo) == 0:
                    return "input()[..position()] of one minicbor decoder: position() <= input().len() (minicbor invariant)"
                if _is_call(lo, _POSITION) and _same_decoder(lo[2][0], dec) and lo[3] != hi[3] and _dominates(fn, lo[3], hi[3]) \
                        and not fn.in_loop(lo[3]):
                    return ("input()[p0..p1] with p0 read from the same decoder before p1: the cursor only moves forward between the reads "
                            "(set_position discipline verified) and never past input().len() (minicbor invariant)")
        return None
    if site.kind == "call:vec-op" and site.sig.endswith("Vec::drain") and len(args) == 2:
        rb = _range_bounds(fn.sym_operand(args[1]))
        if rb:
            lo, hi = rb
            if _is_const(lo) and _cv(lo) == 0 and _is_call(hi, _POSITION) and len(hi[2]) == 1:
                src = _decoder_source(fn, hi[2][0])
                if src is not None:
                    buf, nb = src
                    if _same_decoder(buf, fn.sym_operand(args[0])) and _dominates(fn, nb, hi[3]):
                        return ("drain(0..position()) of the buffer this decoder was created over: position() <= len (minicbor invariant); "
                                "the buffer is immutably borrowed by the decoder until position() is read")
        return None
    if site.kind == "Overflow:Sub":
        a_op, b_op = t["ops"]
        a, b = fn.sym_operand(a_op), fn.sym_operand(b_op)
        aty = _operand_ty(fn, a_op) or ""
        if not (_is_const(b) and aty.startswith("u") and _call_rooted_once(fn, a)):
            return None
        c = _cv(b)
        for f in guards.facts_at(fn, site.bb, kill=False):
            for op, l, r in f.oriented():
                if l != a or not _is_const(r):
                    continue
                v = _cv(r)
                if (op == "Ne" and v == 0 and c == 1) or (op == "Ge" and v >= c) or (op == "Gt" and v + 1 >= c):
                    return "dominating guard on a once-evaluated call result: value %s %d before - %d" % (op, v, c)
        return None
    return None


def set_position_discipline(prog):
    """[(function path, where, why)] for every workspace call of Decoder::set_position that is not a local rewind."""
    bad = []
    n = 0
    for f in prog.fns.values():
        for bi, t in f.calls():
            if not _SET_POSITION.search(strip_generics(t.get("f") or t.get("g") or "")):
                continue
            n += 1
            args = t.get("args") or []
            ok = False
            if len(args) == 2:
                dec = f.sym_operand(args[0])
                pos = f.sym_operand(args[1])
                if _is_call(pos, _POSITION) and len(pos[2]) == 1 and _same_decoder(pos[2][0], dec) and _dominates(f, pos[3], bi):
                    ok = True
            if not ok:
                bad.append((f.path, "%s:%s" % (f.file, t["s"][0]),
                            "Decoder::set_position with a value that is not an earlier position() of the same decoder in this function"))
    return n, bad
