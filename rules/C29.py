"""C29 — P2P behaviours never panic on peer-driven input.

Decides: R-PANIC over closure(InitiatorBehavior/ResponderBehavior::{handle_io, execute, poll_next} and every
PeerVisitor / ResponderPeerVisitor impl).  The `max - len` subtractions of the promotion behaviour are discharged
only through the C27 limit invariant (every reachable insert is limit-guarded), which is re-verified here."""
from pv import panic

ENTRY_RX = (r"(InitiatorBehavior|ResponderBehavior) as pallas_network2::Behavior>::(handle_io|execute)$|"
            r"Behavior as futures_core::stream::Stream>::poll_next$|"
            r" as pallas_network2::behavior::(initiator::PeerVisitor|responder::ResponderPeerVisitor)>::")


def run(tier):
    return panic.run_panic_property(
        "C29", tier, crates=["pallas_network2"], entry_rx=ENTRY_RX, table_name="panic_C29.json",
        floors={"entries": 45, "closure": 250, "sites": 3},
        anchors=[r"InitiatorBehavior as pallas_network2::Behavior>::handle_io$", r"ResponderBehavior as pallas_network2::Behavior>::handle_io$",
                 r"PromotionBehavior::categorize_peer$", r"InitiatorState::apply_msg$", r"HandshakeBehavior::propose_handshake$"],
        explanation="Decides the structural clause of C29: no panic-capable construct (assert!, unwrap/expect, unchecked arithmetic, indexing) "
                    "reachable from the behaviours' event/command entry points and visitors without a checked guard. Event sequences are not explored; "
                    "state-dependent asserts are covered because any assert!/panic! call is a site regardless of the state it tests.",
        assumptions=["protocol state machines (State::apply) are total: they are inside the analysed closure",
                     "configuration values (limits) are fixed after construction"])
