#!/opt/veriftools/pyvenv/bin/python
"""Validate MANIFEST.json and every evidence record the manifest names (schema + the per-level consistency
rules the harness applies).  Exit 1 on any problem."""
import json, sys, os, jsonschema
m = json.load(open('/verif/MANIFEST.json')); s = json.load(open('/root/.vp/MANIFEST.schema.json'))
jsonschema.validate(m, s); print('manifest ok', len(m['checks']), 'checks', len(m.get('not_applicable', [])), 'not applicable')
es = json.load(open('/root/.vp/EVIDENCE.schema.json'))
props = [json.loads(l)["id"] for l in open('/verif/properties.jsonl')]
listed = [c['property_id'] for c in m['checks']] + [n['property_id'] for n in m.get('not_applicable', [])]
bad = 0
if sorted(listed) != sorted(props):
    print('MANIFEST does not partition the properties'); bad = 1
for c in m['checks']:
    pid = c['property_id']; errs = []
    try:
        e = json.load(open(c['evidence_file']))
    except Exception as ex:
        print('EVIDENCE BAD', pid, str(ex)[:200]); bad = 1; continue
    errs += [x.message[:160] for x in jsonschema.Draft202012Validator(es).iter_errors(e)]
    cov = e.get('coverage', {})
    if e.get('property_id') != pid: errs.append('property_id mismatch')
    if e.get('level') != c['level_claimed']['category']: errs.append('level %s != manifest %s' % (e.get('level'), c['level_claimed']['category']))
    if e.get('level') == 'proof' and cov.get('obligations') != cov.get('discharged'): errs.append('proof: discharged %s != obligations %s' % (cov.get('discharged'), cov.get('obligations')))
    if e.get('violations'): errs.append('violations=%s' % e['violations'])
    if cov.get('new_violations'): errs.append('new_violations=%s' % cov['new_violations'])
    if cov.get('discharged', 0) + cov.get('known_findings', 0) != cov.get('obligations'): errs.append('discharged+known != obligations')
    if not cov.get('samples'): errs.append('no samples')
    print(pid, e.get('tier'), e.get('level'), 'obligations', cov.get('obligations'), 'discharged', cov.get('discharged'),
          'known', cov.get('known_findings'), 'distinct', cov.get('distinct_nontrivial'), 'OK' if not errs else 'BAD %s' % errs)
    bad |= bool(errs)
print('evidence', 'BAD' if bad else 'ok')
sys.exit(1 if bad else 0)
