"""C37 — accepted script transactions respect the execution-unit budget (necessary clauses).

Per Plutus era (Alonzo, Babbage, Conway), over the functions reachable from validate_<era>_tx:
 (a) R-PIPE   the budget rule (error variant <Era>::TxExUnitsExceeded, tables/pipelines.json entry tagged C37) is on every
              accepting path of the pipeline and its verdict is propagated.
 (b) R-LAZY   in the function(s) that report TxExUnitsExceeded, their closures and callees, no lazy iterator adaptor value
              (Map, Filter, ...) is built and then left undriven: a summation written as `iter.map(|r| acc += ..)` without a
              consumer never executes.
 (c) arms     when the function branches on the redeemer encoding (enum `Redeemers`: List / Map), every arm reaches an
              accumulation of both dimensions before the comparison.
 (e) R-MPT    in eras whose transactions can take scripts from reference inputs (the pipeline checks reference inputs), the only
              accepting paths of the budget function that by-pass the comparisons are those on the "absent" side of a test of the
              witness set's `redeemer` field: a transaction that carries redeemers is always summed and compared, wherever its
              scripts come from.  (Alonzo is exempt: without reference inputs a transaction with redeemers but no Plutus script in
              the witness set is already rejected by the redeemer-coverage rule.)
 (d) R-CDEP / R-PROV  for each dimension D in {mem, steps} there is a comparison between a value accumulated from
              `<redeemer>.ex_units.D` (a running `+`/checked add in a loop or driven closure, or sum/fold) and the protocol
              parameter `max_tx_ex_units.D`; on the side of that comparison taken when the sum exceeds the maximum every path
              ends in an error return and none reaches an Ok exit (polarity, both dimensions, `||` not `&&`).
Not decided: wrapping of the additions in release builds (C33/C34 arithmetic census), the ex-units of the redeemers themselves."""
import re
from pv.program import Program
from pv.report import Result, finish
from pv.mir import sym_str, sym_walk, pl_local, pl_proj
from pv.panic import strip_generics
from pv import x_pipe
from pv.x_pipe import callee, where, exits, closure_aggs, consumer_of

PROP = "C37"
DIMS = ("mem", "steps")
CMP = {"Gt": lambda a, b: a > b, "Ge": lambda a, b: a >= b, "Lt": lambda a, b: a < b, "Le": lambda a, b: a <= b}
ADD = re.compile(r"^Add")
ADD_CALL = re.compile(r"::(checked_add|saturating_add|wrapping_add|overflowing_add|strict_add|add|add_assign|sum|fold|try_fold)$")
LIMIT_FIELD = "max_tx_ex_units"


def strip(s):
    while s[0] in ("ref", "deref", "cast"):
        s = s[1]
    return s


def field_chain(s):
    """(root, [field names]) of a place-like symbolic value."""
    c = []
    while True:
        if s[0] in ("ref", "deref", "cast", "downcast"):
            s = s[1]
        elif s[0] == "field":
            c.append(str(s[2]))
            s = s[1]
        elif s[0] == "call" and s[2] and re.search(r"::(deref|clone|as_ref|as_deref|borrow|unwrap|into)$", strip_generics(s[1])):
            s = s[2][0]
        else:
            c.reverse()
            return s, c


def is_limit(f, s, dim):
    root, ch = field_chain(s)
    return len(ch) >= 2 and ch[-1] == dim and ch[-2] == LIMIT_FIELD and root[0] == "param"


def reads_exunits(s, dim, F=None):
    """Does the value read `<something>.ex_units.<dim>` — or, when the function is given, `<x>.<dim>` of an `x` whose type is
    ExUnits (an element of a collection of execution units, a closure parameter `|acc, ex_units|`)?"""
    for n in sym_walk(s):
        if n[0] == "field" and str(n[2]) == dim:
            root, ch = field_chain(n)
            if len(ch) >= 2 and ch[-2] == "ex_units":
                return True
            if F is not None and ch == [dim] and root[0] in ("param", "local") and re.search(r"(^|[&: ])ExUnits$", F.local_ty(root[1])):
                return True
            if F is not None and ch == [dim] and root[0] == "field":
                # `(item as Some).0.mem` with item: Option<&ExUnits> — element of an iterator over execution units
                pass
    return False


def has_add(s):
    for n in sym_walk(s):
        if n[0] == "bin" and ADD.match(str(n[1])):
            return True
        if n[0] == "call" and ADD_CALL.search(strip_generics(n[1])):
            return True
    return False


def write_target(h, place):
    """Symbolic value of the memory a statement writes through a `&mut` held in a local (resolves `let r = env.k; *r = ..`)."""
    if isinstance(place, int):
        return ("local", place, h.local_name(place))
    proj = pl_proj(place)
    l = pl_local(place)
    if [e[0] for e in proj] == ["deref"]:
        ds = [d for d in h.defs().get(l, []) if d[2] == "assign"]
        if len(ds) == 1:
            return ("deref", h.sym_rvalue(ds[0][3][2], 30))
    return h.sym_place(place)


def accumulation_sites(P, G, acc_local, dim):
    """Blocks of G at which `acc_local` receives `acc + <x>.ex_units.dim`: directly, or inside a closure of G that captured
    `&mut acc_local` and is driven by a consumer (the block of that consumer)."""
    sites = []
    for bi, si, s in G.statements():
        if s[0] == "a" and isinstance(s[1], int) and s[1] == acc_local:
            rv = G.sym_rvalue(s[2], 30)
            if has_add(rv) and reads_exunits(rv, dim) and any(n[0] == "local" and n[1] == acc_local for n in sym_walk(rv)):
                sites.append((bi, "loop"))
    for abi, l, h, agg in closure_aggs(G, P):
        ks = [k for k, o in enumerate(agg["fields"])
              if (lambda s: s[0] == "ref" and s[1][0] == "local" and s[1][1] == acc_local)(G.sym_operand(o))]
        if not ks:
            continue
        hit = False
        for bi, si, s in h.statements():
            if s[0] != "a":
                continue
            tgt = write_target(h, s[1])
            root, ch = field_chain(tgt)
            if root[0] == "param" and root[1] == 1 and ch and ch[0] in [str(k) for k in ks]:
                rv = h.sym_rvalue(s[2], 30)
                if has_add(rv) and reads_exunits(rv, dim):
                    hit = True
        if hit:
            fb, chain = consumer_of(G, l)
            if fb is not None:
                sites.append((fb, "closure driven by %s" % ".".join(chain)))
            else:
                sites.append((None, "closure handed to %s, never driven" % (".".join(chain) or "nothing")))
    return sites


SUM_CALL = re.compile(r"::(sum|fold|try_fold|product|reduce)$")
_SITES = {}


def closure_reads(P, H, sym, dim):
    """Does a closure value mentioned in `sym` (built in H) read ex_units.dim in its body?"""
    kids = {c.b.get("path", c.path): c for c in P.closure_children(H)}
    for n in sym_walk(sym):
        if n[0] == "agg" and n[1] == "closure":
            h = kids.get(n[2])
            if h is None:
                continue
            for bi, si, s in h.statements():
                if s[0] == "a" and reads_exunits(h.sym_rvalue(s[2], 30), dim, h):
                    return True
            for bi, t in h.calls():
                if any(reads_exunits(h.sym_operand(a), dim, h) for a in t["args"]):
                    return True
    return False


def sites_in(P, H, dim, _stack=()):
    """Places of H at which ex_units.dim of redeemers is added into something: [(bb | None, how)].
    bb None = the addition sits in a closure that nothing drives."""
    key = (H.path, dim)
    if key in _SITES:
        return _SITES[key]
    if H.path in _stack:
        return []
    out = []
    for bi, si, s in H.statements():
        if s[0] == "a":
            rv = H.sym_rvalue(s[2], 30)
            if s[2]["k"] == "bin" and ADD.match(str(s[2]["op"])) and reads_exunits(rv, dim, H):
                out.append((bi, "running sum"))
    for bi, t in H.calls():
        name = callee(t)
        if SUM_CALL.search(name) and t["args"]:
            a0 = H.sym_operand(t["args"][0])
            if reads_exunits(a0, dim) or closure_reads(P, H, a0, dim) or any(closure_reads(P, H, H.sym_operand(a), dim) for a in t["args"][1:]):
                out.append((bi, name.split("::")[-1]))
        elif ADD_CALL.search(name) and any(reads_exunits(H.sym_operand(a), dim, H) for a in t["args"]):
            out.append((bi, name.split("::")[-1]))
        g = P.fns.get(t.get("f") or "")
        if g is not None and g.crate == H.crate and g is not H and g.kind != "Closure":
            if any(b is not None for b, _ in sites_in(P, g, dim, _stack + (H.path,))):
                out.append((bi, "call of %s" % g.name))
    for abi, l, h, agg in closure_aggs(H, P):
        inner = [x for x in sites_in(P, h, dim, _stack + (H.path,)) if x[0] is not None]
        if not inner:
            continue
        fb, chain = consumer_of(H, l)
        if fb is not None:
            if not any(SUM_CALL.search("::" + c) for c in chain):
                out.append((fb, "closure driven by %s" % ".".join(chain)))
        else:
            out.append((None, "closure handed to %s, never driven" % (".".join(chain) or "nothing")))
    _SITES[key] = out
    return out


def _acc_root(acc):
    """(root local, field chain) of the compared operand: `mem` -> (l, []), `budget.mem` -> (l, ['mem'])."""
    root, ch = field_chain(acc)
    if root[0] == "local":
        return root[1], ch
    return None, ch


def helper_adds(P, g, pidx, chain, dim, caller, t):
    """Does crate function g add `<redeemer>.ex_units.dim` into the memory behind its parameter `pidx` (field chain `chain`)?
    The addend may be read from ex_units directly or from another parameter that the caller binds to an `ex_units` value."""
    for bi, si, s in g.statements():
        if s[0] != "a":
            continue
        tgt = write_target(g, s[1]) if not isinstance(s[1], int) else None
        if tgt is None:
            continue
        root, ch = field_chain(tgt)
        if root[0] != "param" or root[1] != pidx or ch != list(chain):
            continue
        rv = g.sym_rvalue(s[2], 30)
        if not has_add(rv):
            continue
        if reads_exunits(rv, dim):
            return True
        for n in sym_walk(rv):
            if n[0] == "field" and str(n[2]) == dim:
                r2, c2 = field_chain(n)
                if r2[0] == "param" and r2[1] != pidx and c2 == [dim] and r2[1] - 1 < len(t["args"]):
                    _, cc = field_chain(caller.sym_operand(t["args"][r2[1] - 1]))
                    if cc and cc[-1] == "ex_units":
                        return True
            if n[0] == "param" and n[1] != pidx and n[1] - 1 < len(t["args"]):
                if reads_exunits(caller.sym_operand(t["args"][n[1] - 1]), dim):
                    return True
    return False


def mut_helper_sites(P, G, acc, dim):
    """Calls of G that hand `&mut <accumulator>` (the local or the struct holding it) to a crate helper which adds ex_units.dim."""
    l, ch = _acc_root(acc)
    if l is None:
        return []
    out = []
    for bi, t in G.calls():
        g = P.fns.get(t.get("f") or "")
        if g is None or g.crate != G.crate or g is G or g.kind == "Closure":
            continue
        for i, a in enumerate(t["args"]):
            sym = G.sym_operand(a)
            if sym[0] != "ref":
                continue
            root, c2 = field_chain(sym)
            if root[0] != "local" or root[1] != l or c2 != ch[:len(c2)]:
                continue
            if not g.local_ty(i + 1).startswith("&mut"):
                continue
            if helper_adds(P, g, i + 1, ch[len(c2):], dim, G, t):
                out.append((bi, "helper %s(&mut ..)" % g.name))
    return out


def field_sum_sites(G, acc, dim):
    """Running sum kept in a struct field: `budget.mem = budget.mem + x.ex_units.mem` (or checked_add(..)?)."""
    l, ch = _acc_root(acc)
    if l is None or not ch:
        return []
    out = []
    for bi, si, s in G.statements():
        if s[0] != "a" or isinstance(s[1], int) or pl_local(s[1]) != l:
            continue
        root, c2 = field_chain(G.sym_place(s[1]))
        if c2 != ch:
            continue
        rv = G.sym_rvalue(s[2], 30)
        if has_add(rv) and reads_exunits(rv, dim):
            out.append((bi, "running sum in a field"))
    return out


def value_sources(P, G, acc, dim):
    """How the value compared with the maximum is obtained: -> (live sites in G, dead descriptions)."""
    a = strip(acc)
    all_sites = sites_in(P, G, dim)
    live = [x for x in all_sites if x[0] is not None]
    dead = [x for x in all_sites if x[0] is None]
    via = mut_helper_sites(P, G, acc, dim) + field_sum_sites(G, acc, dim)
    if via:
        return via, []
    if a[0] == "local":
        l = a[1]
        mine = [x for x in accumulation_sites(P, G, l, dim)]
        ok = [x for x in mine if x[0] is not None]
        if ok:
            return ok, []
        # assigned from a summing call (helper function / sum / fold / checked_add)
        got = []
        for d in G.defs().get(l, []):
            sym = None
            if d[2] == "assign":
                sym = G.sym_rvalue(d[3][2], 30)
            elif d[2] == "call":
                sym = ("call", d[3].get("f") or d[3].get("g") or "?", tuple(G.sym_operand(x) for x in d[3]["args"]), d[0])
            if sym is None:
                continue
            blocks = {n[3] for n in sym_walk(sym) if n[0] == "call"}
            got += [x for x in live if x[0] in blocks]
        if got:
            return got, []
        return [], [x for x in mine if x[0] is None] or dead
    blocks = {n[3] for n in sym_walk(acc) if n[0] == "call"}
    got = [x for x in live if x[0] in blocks]
    return got, ([] if got else dead)


def summing_callees(P, G, dim, seen=None):
    """Workspace functions below G (calls only) that add ex_units.dim somewhere."""
    seen = seen if seen is not None else {}
    for bi, t in G.calls():
        g = P.fns.get(t.get("f") or "")
        if g is not None and g.crate == G.crate and g.kind != "Closure" and g.path not in seen and g is not G:
            if any(b is not None for b, _ in sites_in(P, g, dim)):
                seen[g.path] = g
                summing_callees(P, g, dim, seen)
    return seen


def analyse_budget_fn(res, P, M, era, G, V, ref_era=False):
    fkey = "%s:%s" % (era, G.path.split("phase1::")[-1])
    ex = exits(G)
    err_blocks = {bi for bi, si, s in G.statements()
                  if s[0] == "a" and s[2]["k"] == "agg" and s[2].get("ak") == "adt" and s[2].get("variant") == V.split("::")[1]
                  and x_pipe.ERA_ENUM.match(s[2].get("adt", ""))}
    comps = {d: [] for d in DIMS}      # dim -> [(bb, si, accumulated operand, dest local, value of the comparison when sum = max + 1)]
    cmp_blocks = set()
    for bi, si, s in G.statements():
        if s[0] != "a" or s[2]["k"] != "bin" or s[2]["op"] not in CMP or not isinstance(s[1], int):
            continue
        L, R = G.sym_operand(s[2]["l"]), G.sym_operand(s[2]["r"])
        for d in DIMS:
            for acc, lim, acc_left in ((L, R, True), (R, L, False)):
                if is_limit(G, lim, d) and not is_limit(G, acc, d):
                    truth = CMP[s[2]["op"]](1, 0) if acc_left else CMP[s[2]["op"]](0, 1)
                    comps[d].append((bi, si, acc, s[1], truth))
                    cmp_blocks.add(bi)
    n_sites = 0
    arm_seen = set()
    if not any(comps[d] for d in DIMS):
        # reports the error without testing the limit at all (e.g. a helper that adds with overflow detection): the limit test is
        # decided elsewhere; run() fails closed if no function of the era compares with the limit
        return None
    for d in DIMS:
        k = "budget-compare:%s:%s" % (fkey, d)
        if not comps[d]:
            res.violation(k, "%s reports %s but contains no comparison of an accumulated value with the protocol parameter %s.%s" % (G.path, V, LIMIT_FIELD, d),
                          where=where(G), rule="R-CDEP")
            continue
        for sb, ssi, acc, cl, truth in comps[d]:
            # (d) polarity: exceeding the maximum always rejects, with the budget error on the way (boolean temporaries followed)
            fl = x_pipe.bool_flow(G, sb, ssi + 1, {cl: truth})
            good = fl["ok"] is None and not fl["ret"] and bool(fl["blocks"] & err_blocks)
            if good:
                res.ok(k, "R-CDEP", "when the accumulated %s exceeds %s.%s every path returns an error (%s)" % (d, LIMIT_FIELD, d, where(G, sb)))
            else:
                res.violation(k, "in %s a transaction whose total %s exceeds %s.%s can still be accepted: the side of the comparison at %s taken when the sum is larger does not always "
                              "end in the %s error" % (G.path, d, LIMIT_FIELD, d, where(G, sb), V), where=where(G, sb), rule="R-CDEP")
            # (d) provenance of the compared value
            ka = "accumulate:%s:%s" % (fkey, d)
            sites, dead = value_sources(P, G, acc, d)
            if sites:
                res.ok(ka, "R-PROV", "%s compared is accumulated from ex_units.%s (%s)" % (d, d, "; ".join(sorted({h for _, h in sites}))))
            elif dead:
                res.violation(ka, "in %s the additions of ex_units.%s into the compared total sit in a %s: the total is never updated and stays at its initial value"
                              % (G.path, d, dead[0][1]), where=where(G, sb), rule="R-LAZY")
            else:
                res.violation(ka, "in %s the value compared with %s.%s (%s) is not accumulated from the redeemers' ex_units.%s" % (G.path, LIMIT_FIELD, d, sym_str(acc, 100), d),
                              where=where(G, sb), rule="R-PROV")
            n_sites += len(sites)
            # (c) every redeemer-encoding arm feeds this dimension (in the budget function or in the helper that sums)
            if not sites:
                continue
            hosts = [(G, sites, cmp_blocks, sb)] + [(g, [x for x in sites_in(P, g, d) if x[0] is not None], set(), None) for g in summing_callees(P, G, d).values()]
            for H, hsites, avoid, before in hosts:
                hkey = fkey if H is G else "%s:%s" % (era, H.path.split("pallas_validate::")[-1].replace("phase1::", ""))
                for bi in H.live_blocks():
                    t = H.blocks[bi]["term"]
                    if t["k"] != "switch":
                        continue
                    disc = [s for s in H.blocks[bi]["st"] if s[0] == "a" and s[2]["k"] == "discr" and re.search(r"::Redeemers$", s[2].get("pty", ""))]
                    c = H.sym_operand(t["d"])
                    if not disc or c[0] != "discr":
                        continue
                    if before is not None and not H.can_reach(bi, before):
                        continue
                    # re-reads of the discriminant after the summation (drop elaboration, later matches) say nothing about it
                    if any(H.can_reach(sbk, bi) and not H.can_reach(bi, sbk) for sbk, _ in hsites):
                        continue
                    targets = [(str(v), b) for v, b in t["ts"]]
                    if t["o"] is not None and H.blocks[t["o"]]["term"]["k"] != "unreachable":
                        targets.append(("other", t["o"]))
                    for vname, tg in targets:
                        region = (H.reach_from(tg, avoid=avoid) | {tg})
                        karm = "arms:%s:%s:variant-%s" % (hkey, d, vname)
                        if karm in arm_seen:
                            continue
                        arm_seen.add(karm)
                        if any(sbk in region for sbk, _ in hsites):
                            res.ok(karm, "R-TABLE", "redeemer-encoding arm at %s reaches an accumulation of %s" % (where(H, tg), d))
                        else:
                            res.violation(karm, "in %s the arm of the redeemer-encoding match starting at %s never adds the redeemers' ex_units.%s to the total before it is compared: "
                                          "redeemers in that encoding escape the budget" % (H.path, where(H, tg), d), where=where(H, tg), rule="R-TABLE")
    # (e) no accepting path by-passes the comparisons while redeemers are present
    if ref_era and all(comps[d] for d in DIMS):
        absent = set()
        for bi in G.live_blocks():
            t = G.blocks[bi]["term"]
            if t["k"] != "switch":
                continue
            c = G.sym_operand(t["d"])
            neg = False
            while c[0] == "un" and c[1] == "Not":
                neg = not neg
                c = c[2]
            zero = [b for v, b in t["ts"] if int(v) == 0]
            z_t = zero[0] if zero else t["o"]
            nz_t = ([b for v, b in t["ts"] if int(v) != 0] + ([t["o"]] if zero else [None]))[0]
            if c[0] == "discr":
                _, ch = field_chain(c[1])
                if ch and ch[-1] == "redeemer":
                    absent.add(z_t)                                   # Option::None has discriminant 0
            elif c[0] == "call" and c[2] and re.search(r"^core::option::Option::(is_none|is_some)$", strip_generics(c[1])):
                _, ch = field_chain(c[2][0])
                if ch and ch[-1] == "redeemer":
                    none_is_true = strip_generics(c[1]).endswith("is_none") != neg
                    absent.add(nz_t if none_is_true else z_t)
        absent.discard(None)
        k = "budget-skip:%s" % fkey
        worst = None
        for d in DIMS:
            avoid = {c[0] for c in comps[d]} | absent
            fl = x_pipe.bool_flow(G, 0, 0, {}, avoid=avoid)
            if fl["ok"] is not None:
                worst = (d, fl["ok"][0])
                break
        if worst is None:
            res.ok(k, "R-MPT", "every accepting path either compares both totals with the maximum or has no redeemers (%d absent-side test(s))" % len(absent))
        else:
            res.violation(k, "%s can return Ok (exit at %s) without comparing the redeemers' %s with %s and without having found the redeemer set absent: a transaction whose "
                          "Plutus scripts all come from reference inputs keeps its redeemers out of the budget" % (G.path, where(G, worst[1]), worst[0], LIMIT_FIELD),
                          where=where(G, worst[1]), rule="R-MPT")
    return n_sites


def run(tier):
    res = Result(PROP, tier, level="other")
    P = Program(crates=["pallas_validate"])
    M = x_pipe.ErrModel(P)
    table = x_pipe.load_pipelines()
    judged = 0
    budget_fns = 0
    adaptors = 0
    for era, spec in table["eras"].items():
        keys = {V for r in spec["rules"] if r.get("property") == PROP for V in r["errors"]}
        if not keys:
            continue
        pipe = P.one("^%s$" % re.escape(spec["pipeline"]))
        judged += x_pipe.check_pipeline_rules(res, M, era, spec, PROP, (PROP,))
        x_pipe.check_no_discard(res, M, era, spec, keys, PROP)
        CF = M.closure_fns(pipe)
        for V in sorted(keys):
            owners = [G for G in CF if V in M.direct(G) and G.kind != "Closure"]
            res.count("%s: functions reporting %s" % (era, V), len(owners))
            scope = {}
            deciders = 0
            for G in owners:
                r = analyse_budget_fn(res, P, M, era, G, V, ref_era=any(v.endswith("::ReferenceInputNotInUTxO") for v in M.mentions(pipe)))
                if r is not None:
                    deciders += 1
                    budget_fns += 1
                else:
                    res.notes.append("%s: %s reports %s without comparing with the limit (overflow helper) - not the limit test" % (era, G.path, V))
                for H in M.closure_fns(G):
                    scope[H.path] = H
            if owners and not deciders:
                res.violation("budget-compare:%s:none" % era, "no function of the %s pipeline that reports %s compares an accumulated value with %s: the per-transaction maximum is never tested"
                              % (era, V, LIMIT_FIELD), where=where(owners[0]), rule="R-CDEP")
            # (b) R-LAZY in the budget function, its closures and callees
            for H in scope.values():
                for bi, t in H.calls():
                    d = t["dest"]
                    if isinstance(d, int) and x_pipe.ADAPTER_TY.search(H.local_ty(d)):
                        adaptors += 1
                seen = {}
                for bi, ty, cn in x_pipe.lazy_unconsumed(H):
                    n = seen[cn] = seen.get(cn, 0) + 1
                    res.violation("lazy:%s:%s:%s#%d" % (era, H.path.split("phase1::")[-1], cn, n),
                                  "in %s the iterator adaptor built by .%s(..) (%s) is never consumed: its closure never runs, so whatever it was meant to accumulate or check is skipped"
                                  % (H.path, cn, ty), where=where(H, bi), rule="R-LAZY")
            if owners and not any(k.startswith("lazy:%s:" % era) for k in (v["key"] for v in res.violations)):
                res.ok("lazy:%s" % era, "R-LAZY", "no undriven iterator adaptor in %d function(s) around the budget rule" % len(scope))
    res.count("lazy adaptor values inspected", adaptors)
    res.floor("budget error variants judged", judged, 3)
    res.floor("budget functions analysed", budget_fns, 3)
    res.assumptions += ["tables/pipelines.json names the budget rule's error variant per era",
                        "u64 additions do not wrap (dev profile panics; release wrapping is the arithmetic census of C33/C34)"]
    return finish(res,
                  explanation="Necessary clauses of C37 on the MIR of the three Plutus-era pipelines: the budget rule is on every accepting path and propagated (R-PIPE); nothing around it "
                              "builds an iterator adaptor that is never driven (R-LAZY); both redeemer encodings feed both totals; each total is a sum of ex_units.{mem,steps} and is "
                              "compared with max_tx_ex_units.{mem,steps} such that exceeding either always ends in an error.  Overflow of the sums is not decided here.",
                  rule_text="R-PIPE + R-LAZY + arms(Redeemers::List|Map) + R-CDEP/R-PROV(sum vs max_tx_ex_units, both dimensions)",
                  trusted_base=["rustc MIR/HIR", "tables/pipelines.json"])
