"""Branch facts with kill checks: which comparisons are known to hold at a program point."""
import re

from .mir import op_place, pl_local, pl_proj

NEG = {"Lt": "Ge", "Le": "Gt", "Gt": "Le", "Ge": "Lt", "Eq": "Ne", "Ne": "Eq"}
SWAP = {"Lt": "Gt", "Gt": "Lt", "Le": "Ge", "Ge": "Le", "Eq": "Eq", "Ne": "Ne", "In": "In"}


class Fact:
    __slots__ = ("op", "l", "r", "leaves", "src", "extra")

    def __init__(self, op, l, r, leaves, src, extra=None):
        self.op, self.l, self.r, self.leaves, self.src, self.extra = op, l, r, leaves, src, extra

    def oriented(self):
        """Both orientations (a op b) and (b swap(op) a)."""
        yield self.op, self.l, self.r
        if self.op != "In":
            yield SWAP[self.op], self.r, self.l


def place_chain(sym):
    """(root, [fields]) of a place-like symbolic expression, ignoring ref/deref/downcast; None if not place-like."""
    chain = []
    while True:
        k = sym[0]
        if k in ("ref", "deref"):
            sym = sym[1]
        elif k == "downcast":
            sym = sym[1]
        elif k == "field":
            chain.append(str(sym[2]))
            sym = sym[1]
        elif k in ("index", "cindex", "subslice"):
            chain.append("[]")
            sym = sym[1]
        elif k == "param":
            chain.reverse()
            return ("param", sym[1]), chain
        elif k == "local":
            chain.reverse()
            return ("local", sym[1]), chain
        elif k == "call" and re.search(r"(::deref|::deref_mut|::as_ref|::as_mut|::as_slice|::as_mut_slice|::borrow|::borrow_mut)$", _sg(sym[1])) and len(sym[2]) == 1:
            sym = sym[2][0]
        else:
            return None


def _sg(p):
    out = []
    d = 0
    for ch in p or "":
        if ch == "<":
            d += 1
        elif ch == ">":
            d -= 1
        elif d == 0:
            out.append(ch)
    return "".join(out)


def overlaps(a, b):
    """Do two place chains denote overlapping memory (one is a prefix of the other)?"""
    if a is None or b is None:
        return False
    (ra, ca), (rb, cb) = a, b
    if ra != rb:
        return False
    n = min(len(ca), len(cb))
    return ca[:n] == cb[:n]


def edge_facts(fn):
    """(src_bb, dst_bb) -> [Fact] from two-way switches on comparison results / bools."""
    if getattr(fn, "_edge_facts", None) is not None:
        return fn._edge_facts
    edge = {}
    for bi, b in enumerate(fn.blocks):
        t = b["term"]
        if t["k"] != "switch":
            continue
        if len(t["ts"]) != 1:
            # multi-way switch (enum discriminant / integer match): value facts per edge
            sym = fn.sym_operand(t["d"])
            leaves = fn.leaf_reads(t["d"])
            leaves = [(p, pos if pos is not None else (bi, len(b["st"]))) for p, pos in leaves]
            by_t = {}
            for val, tgt in t["ts"]:
                by_t.setdefault(tgt, []).append(val)
            for tgt, vals in by_t.items():
                if tgt == t["o"]:
                    continue
                if len(vals) == 1:
                    edge.setdefault((bi, tgt), []).append(Fact("Eq", sym, ("const", vals[0], t["dty"]), leaves, bi))
                else:
                    edge.setdefault((bi, tgt), []).append(Fact("In", sym, ("set", tuple(vals)), leaves, bi))
            if t["o"] not in by_t:
                for val, _ in t["ts"]:
                    edge.setdefault((bi, t["o"]), []).append(Fact("Ne", sym, ("const", val, t["dty"]), leaves, bi))
            continue
        val, tgt = t["ts"][0]
        other = t["o"]
        if tgt == other:
            continue
        sym = fn.sym_operand(t["d"])
        leaves = fn.leaf_reads(t["d"])
        leaves = [(p, pos if pos is not None else (bi, len(b["st"]))) for p, pos in leaves]
        neg = False
        while sym[0] == "un" and sym[1] == "Not":
            neg = not neg
            sym = sym[2]
        facts_true = []   # facts when the (un-negated) condition is TRUE
        facts_false = []
        if sym[0] == "bin" and sym[1] in NEG:
            op, l, r = sym[1], sym[2], sym[3]
            facts_true.append(Fact(op, l, r, leaves, bi))
            facts_false.append(Fact(NEG[op], l, r, leaves, bi))
        elif t["dty"] == "bool":
            # a boolean value (call result such as is_empty(), contains(), a flag)
            facts_true.append(Fact("Eq", sym, ("const", 1, "bool"), leaves, bi))
            facts_false.append(Fact("Eq", sym, ("const", 0, "bool"), leaves, bi))
        else:
            # integer / discriminant two-way switch: value == val on tgt, != val on other
            facts_true = None
            edge.setdefault((bi, tgt), []).append(Fact("Eq", sym, ("const", val, t["dty"]), leaves, bi))
            edge.setdefault((bi, other), []).append(Fact("Ne", sym, ("const", val, t["dty"]), leaves, bi))
            continue
        if neg:
            facts_true, facts_false = facts_false, facts_true
        # switch on bool: ts = [(0, false_target)], otherwise = true target
        if val == 0:
            f_bb, t_bb = tgt, other
        else:
            t_bb, f_bb = tgt, other
        edge.setdefault((bi, t_bb), []).extend(facts_true)
        edge.setdefault((bi, f_bb), []).extend(facts_false)
    fn._edge_facts = edge
    return edge


def facts_at(fn, bb, kill=True):
    """Facts that hold on entry to block bb because a dominating branch established them and (kill=True)
    nothing on the way may have overwritten the memory they read.  kill=False: branch outcomes that
    dominate bb, regardless of later writes (used for 'on the success path of call X' guards)."""
    cache = getattr(fn, "_facts_at", None)
    if cache is None:
        cache = fn._facts_at = {}
    if (bb, kill) in cache:
        return cache[(bb, kill)]
    edge = edge_facts(fn)
    dom = fn.dominators()
    out = []
    if bb in dom:
        for d in dom[bb]:
            if d == bb and not fn.in_loop(bb):
                continue
            succs = fn.succ(d)
            if len(succs) < 2:
                continue
            for s in succs:
                ef = edge.get((d, s))
                if not ef:
                    continue
                others = [x for x in succs if x != s]
                # every path d -> bb must use edge d->s
                if any(o == bb or fn.can_reach(o, bb, avoid=(d,)) for o in others):
                    continue
                if not (s == bb or fn.can_reach(s, bb, avoid=(d,))):
                    continue
                for f in ef:
                    if not kill or not _killed(fn, f, (bb, 0)):
                        out.append(f)
    cache[(bb, kill)] = out
    return out


def facts_at_term(fn, bb):
    """Facts valid at the terminator of bb (entry facts that survive the block's own statements)."""
    end = (bb, len(fn.blocks[bb]["st"]))
    return [f for f in facts_at(fn, bb) if not _killed(fn, f, end)]


def _killed(fn, fact, upto):
    """Could memory read by the fact's comparison have been overwritten between that read and `upto`
    on some path that does not re-establish the fact?"""
    if not fact.leaves:
        return False
    ws = fn.writes()
    if not ws:
        return False
    ub, us = upto
    src = fact.src
    # the calls that *produced* the compared values mutate their own arguments as part of computing them:
    # those writes are not "later" writes
    producers = set()
    from .mir import sym_walk
    for side in (fact.l, fact.r):
        if isinstance(side, tuple) and side and isinstance(side[0], str) and side[0] != "set":
            for sub in sym_walk(side):
                if sub[0] == "call" and len(sub) > 3 and isinstance(sub[3], int):
                    producers.add((sub[3], len(fn.blocks[sub[3]]["st"])))
    for place, (lb, ls) in fact.leaves:
        pc = place_chain(place)
        if pc is None:
            continue
        if ls is None:
            ls = -1
        for (wb, wsi), wsym, how in ws:
            wc = place_chain(wsym)
            if wc is None or not overlaps(pc, wc):
                continue
            if (wb, wsi) in producers:
                continue
            same_block_before_read = (wb == lb and wsi < ls)
            after = (wb == lb and wsi > ls) or fn.can_reach_strict(lb, wb) if wb != lb else (wsi > ls or fn.can_reach_strict(lb, lb))
            if not after:
                continue
            # direct: write in the site's block before the site, after the read
            if wb == ub and wsi < us:
                if not same_block_before_read:
                    return True
                # write precedes the read in the same block as the site: read happens after the write -> fresh
                continue
            if same_block_before_read:
                continue
            for avoid in ({lb}, {src}):
                if ub in avoid:
                    # reaching the site's block means re-entering the read/guard block: if the site is after
                    # the read in that block the value is fresh
                    continue
                if any(s not in avoid and (s == ub or fn.can_reach(s, ub, avoid=tuple(avoid))) for s in fn.succ(wb)):
                    return True
    return False
